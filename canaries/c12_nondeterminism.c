// Positive canary for C12 (determinism clause). Never part of /repo, never compiled into
// anything: sa/rules/c12.py parses it with clang on every run and every function whose
// name starts with `bad_` must be flagged by the rule named in the comment above it;
// the functions starting with `good_` must not be flagged. If the scanners stop
// recognising one of these patterns the check ends ANALYSIS-BROKEN.
#include <stdio.h>
#include <stdlib.h>
#include <string.h>
#include <time.h>
#include <unistd.h>
#include <sys/stat.h>
#include <sys/time.h>

typedef struct { char *key; int keylen; void *val; } HashEntry;
typedef struct { HashEntry *buckets; int capacity; int used; } HashMap;

void println(char *fmt, ...) __attribute__((format(printf, 1, 2)));
char *format(char *fmt, ...) __attribute__((format(printf, 1, 2)));
void define_macro(char *name, char *buf);

// R12.1: wall-clock time outside init_macros
void bad_time(void) {
  time_t now = time(NULL);
  println("  .long %ld", (long)now);
}

// R12.1: process id
void bad_pid(void) {
  println(".L.tmp.%d:", getpid());
}

// R12.1: pseudo-random numbers
int bad_rand(void) {
  srand(1);
  return rand();
}

// R12.1: environment
char *bad_env(void) {
  return getenv("CHIBICC_MODE");
}

// R12.1: high-resolution clock
long bad_clock(void) {
  struct timeval tv;
  gettimeofday(&tv, NULL);
  return tv.tv_usec + clock();
}

// R12.1: file metadata other than through the one __TIMESTAMP__ reader
long bad_mtime(char *path) {
  struct stat st;
  if (stat(path, &st) != 0)
    return 0;
  return st.st_mtime + st.st_ino;
}

// R12.1: a file-identity key -- the inode numbers only ever meet other keys (must NOT be flagged) ...
void *hashmap_get(HashMap *map, char *key);
void hashmap_put(HashMap *map, char *key, void *val);
char *good_file_key(char *path) {
  struct stat st;
  if (stat(path, &st))
    return path;
  return format("%ld:%ld", (long)st.st_dev, (long)st.st_ino);
}
int good_once(HashMap *m, char *path) {
  char *key = good_file_key(path);
  if (hashmap_get(m, key))
    return 1;
  hashmap_put(m, good_file_key(path), (void *)1);
  return 0;
}

// ... and the same function shape whose result is also printed: the number reaches the output
char *bad_file_key(char *path) {
  struct stat st;
  if (stat(path, &st))
    return path;
  return format("%ld:%ld", (long)st.st_dev, (long)st.st_ino);
}
void bad_file_key_user(HashMap *m, char *path) {
  char *key = bad_file_key(path);
  hashmap_put(m, key, (void *)1);
  println("# %s", key);
}

// R12.1: time flows into a macro other than __DATE__ / __TIME__  (function is named like the allowed one on purpose)
void init_macros(void) {
  time_t now = time(NULL);
  struct tm *tm = localtime(&now);
  define_macro("__DATE__", format("%d", tm->tm_year));
  define_macro("__BUILD_ID__", format("%d", tm->tm_sec));
}

// R12.2: address printed with %p
void bad_ptr_format(void *p) {
  println("  # node %p", p);
}

// R12.2: address converted to an integer
unsigned long bad_ptr_cast(void *p) {
  return (unsigned long)p >> 4;
}

// R12.2: address passed for an integer conversion
void bad_ptr_as_int(char *p) {
  println("  .quad %ld", p);
}

// R12.3: iteration over the buckets of a hash table outside hashmap.c
void bad_bucket_walk(HashMap *map) {
  for (int i = 0; i < map->capacity; i++)
    if (map->buckets[i].key)
      println("%s", map->buckets[i].key);
}

// R12.4: a numbering source that is not a pure ++ counter
int bad_counter(void) {
  static int id = 0;
  id += 2;
  return id--;
}

// R12.4: a numbering source that is reset
int bad_counter_reset(int restart) {
  static int n;
  if (restart)
    n = 0;
  return n++;
}

// R12.5: constructs of the compiler's own source that chibicc is known to miscompile
unsigned long bad_self_fp_to_u64(double d) {
  return d;
}

float bad_self_u64_to_float(unsigned long x) {
  return x;
}

long double ld_source(void);
void bad_self_discard(void) {
  ld_source();
}

void bad_self_chain(long double *a, long double *b, long double c) {
  *a = *b = c;
}

// R12.13: the upper 6 bytes of the 16-byte slot are never written
void bad_union_pun(long double v) {
  union { long double f; unsigned long w[2]; } u;
  u.f = v;
  println("  .quad %lu", u.w[0]);
  println("  .quad %lu", u.w[1]);
}

// R12.15: the enumeration is unsigned for the host compiler, int for chibicc
typedef enum { K_VOID, K_BOOL, K_CHAR, K_ENUM } Kind;
int bad_enum_range(Kind k) {
  return k - K_BOOL <= K_ENUM - K_BOOL;
}

// ---- must stay silent
int good_enum_index(Kind k, int *tab) {
  return tab[k - K_VOID] + (k == K_ENUM) + (k < K_CHAR);
}
void good_union_pun(long double v, double d) {
  union { long double f; unsigned long w[2]; } u;
  memset(&u, 0, sizeof(u));
  u.f = v;
  println("  .quad %lu", u.w[1]);
  union { double f; unsigned long w; } e = { d };
  println("  .quad %lu", e.w);
}
void good_ld_assign(long double *a, long double c) {
  *a = c;
  if (c)
    *a = c + 1;
}

int good_counter(void) {
  static int i = 1;
  return i++;
}

void good_print(char *s, int n, long v) {
  println("%.*s %s %d %ld %%p", n, s, s, n, v);
}

// (named like the allowed boolean probe of main.c)
int file_exists(char *path) {
  struct stat st;
  return !stat(path, &st);
}
