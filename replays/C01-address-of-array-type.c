// &a for an array a must have type "pointer to the array" (C11 6.5.3.2p3).
// chibicc types it "pointer to the first element": gcc prints 20 20 1, chibicc prints 4 4 (then a wrong difference).
// Not repaired: test/initializer.c (`char *g22 = &g17-3;` ... strcmp(g22+3, "foobar")) asserts the element-wise stepping.
#include <stdio.h>
int main(void) {
  int b[3][5];
  printf("%ld %ld\n", (long)sizeof(*&b[1]), (long)((char *)(&b[1] + 1) - (char *)&b[1]));
  int (*q)[5] = &b[1];
  printf("%ld\n", (long)(q - b));
  return 0;
}
