// expected (gcc): 1 1 1 1 1 1 / 0 ; chibicc before the fix: 0 0 0 0 0 1 / 0
// (clang promotes `=` and `,` only; the standard makes op= and prefix ++ equivalent to `=`)
#include <stdio.h>
struct S { unsigned d:3; } s;
int main(void) {
  int a, b, c, d, e, f;
  s.d = 0; a = (s.d = 7) - 8 < 0;
  s.d = 7; b = (0, s.d) - 8 < 0;
  s.d = 1; c = s.d++ - 8 < 0;
  s.d = 1; d = ++s.d - 8 < 0;
  s.d = 1; e = (s.d += 1) - 8 < 0;
  s.d = 1; f = s.d - 8 < 0;
  printf("%d %d %d %d %d %d / %d\n", a, b, c, d, e, f, (unsigned)s.d - 8 < 0);
  return 0;
}
