// expected (gcc): 1 1 1 1 / 1 0 ; chibicc at HEAD 4342e4f: 0 0 0 0 / 1 0
// `x ?: b` and `({ x; })` yield the value of the bit-field x: the integer promotions make it an int when int holds all its values
#include <stdio.h>
struct S { unsigned u : 3; unsigned v : 31; unsigned w : 32; } s = {1, 1, 1};
int main(void) {
  int a = (s.u ?: 0) - 4 < 0;
  int b = (s.v ?: 0) - 4 < 0;
  int c = ({ s.u; }) - 4 < 0;
  int d = ({ s.v; }) - 4 < 0;
  int e = (0 ? 0 : s.u) - 4 < 0;      // the standard form was right already
  int f = (s.w ?: 0) - 4 < 0;         // a 32-bit unsigned field stays unsigned
  printf("%d %d %d %d / %d %d\n", a, b, c, d, e, f);
  return 0;
}
