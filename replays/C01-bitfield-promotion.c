// C11 6.3.1.1p2: a bit-field of type _Bool, int or unsigned int whose values all fit an
// int is converted to int by the integer promotions (the width decides, not the declared type).
// gcc prints:     1 1 1 1 / 1 1 / 0
// chibicc prints: 0 0 0 0 / 2 2 / 0       (unsigned u:3 stays unsigned int)
#include <stdio.h>
struct S { unsigned u3 : 3; unsigned u32 : 32; };
int main(void) {
  struct S s = {1, 1};
  printf("%d %d %d %d\n", s.u3 - 2 < 0, -s.u3 < 0, ~s.u3 < 0, (s.u3 << 1) - 4 < 0);
  printf("%d %d\n", _Generic(s.u3 + 0, int: 1, unsigned: 2, default: 3), _Generic(1 ? s.u3 : 0, int: 1, unsigned: 2, default: 3));
  printf("%d\n", s.u32 - 2 < 0);
  return 0;
}
