// C11 6.7.2.2p4: an enumerated type is compatible with some integer type. chibicc: 0 0 0 (with none); gcc: one of them is 1
#include <stdio.h>
enum E { A, B };
int main(void) {
  enum E e = A;
  printf("%d %d %d\n", _Generic(e, int: 1, default: 0), _Generic(e, unsigned: 1, default: 0), _Generic(e, char: 1, default: 0));
  return 0;
}
