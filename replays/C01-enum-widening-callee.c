enum E { A = -1, B = 5 };
enum E f(void) { return A; }
_Bool g(void) { return 1; }
