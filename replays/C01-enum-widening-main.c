#include <stdio.h>
enum E { A = -1, B = 5 };
enum E f(void);
int main() {
  long x = f();
  int i = -1; enum E e = (enum E)i; long y = e;
  enum E arr[1] = {A}; long z = arr[0];
  long w = (enum E)(i + 0);
  printf("%ld %ld %ld %ld\n", x, y, z, w);
  return 0;
}
