// C11 6.5.2.4p2: the result of postfix ++/-- is the value the operand had before.
// chibicc lowers A++ to (typeof A)((A += 1) - 1), which recomputes the old value from
// the new one; that is wrong whenever the conversion to the type of A cannot be undone
// (_Bool saturates, a bit-field wraps at its width).
// gcc prints:     1 1 / 0 1 / 7 0 / 0 7 / 3 -4 / -4 3 / 1 1 / ffffffffff 0
// chibicc prints: 0 1 / 1 1 / 4294967295 0 / 8 7 / -5 -4 / 4 3 / 0 1 / ffffffffffffffff 0
#include <stdio.h>
struct S { unsigned u3 : 3; int s3 : 3; _Bool b1 : 1; unsigned long long w40 : 40; };
int main(void) {
  _Bool b, r;
  b = 1; r = b++; printf("%d %d\n", r, b);
  b = 0; r = b--; printf("%d %d\n", r, b);
  struct S t = {7, 3, 1, 0xffffffffffULL};
  unsigned u = t.u3++; printf("%u %u\n", u, t.u3);
  u = t.u3; t.u3 = 0; u = t.u3--; printf("%u %u\n", u, t.u3);
  int i = t.s3++; printf("%d %d\n", i, t.s3);
  i = t.s3--; printf("%d %d\n", i, t.s3);
  i = t.b1++; printf("%d %d\n", i, t.b1);
  unsigned long long w = t.w40++; printf("%llx %llx\n", w, (unsigned long long)t.w40);
  return 0;
}
