#include <stdio.h>
int main() {
  unsigned char c = 0x80; short s = -1; _Bool b = 1; unsigned short us = 0xffff;
  printf("%d %d %d %d\n", (int)sizeof(~c), (int)sizeof(c << 1), (int)sizeof(s >> 1), (int)sizeof(~b));
  printf("%d %d %d %d %d\n", ~c, c << 1, (c << 1) >> 1, ~us < 0, ~b);
  long l = 1; printf("%d %d\n", (int)sizeof(l << 1), (int)sizeof(c << l));
  return 0;
}
