// C11 6.5.3.3p2: the integer promotions are performed on the operand of unary +
// and the result has the promoted type.
// gcc prints:     4 4 4 4 4 / 2 2 / 4
// chibicc prints: 1 1 2 2 1 / 1 1 / 1      (the operand is returned as is)
#include <stdio.h>
struct S { _Bool b : 1; unsigned u : 3; };
int main(void) {
  char c = 1; unsigned char uc = 1; short s = 1; unsigned short us = 1; _Bool b = 1;
  struct S t = {1, 1};
  printf("%d %d %d %d %d\n", (int)sizeof(+c), (int)sizeof(+uc), (int)sizeof(+s), (int)sizeof(+us), (int)sizeof(+b));
  printf("%d %d\n", _Generic(+c, char: 1, int: 2, default: 3), _Generic(+us, unsigned short: 1, int: 2, default: 3));
  printf("%d\n", (int)sizeof(+t.b));
  return 0;
}
