// chibicc: the size is computed in the type of the length (int): prints 0 18446744073709486080; gcc: 4294967296 4294901760
#include <stdio.h>
int main(void) {
  volatile int n = 1 << 30;
  volatile unsigned short m = 65535;
  printf("%lu %lu\n", (unsigned long)sizeof(int[n]), (unsigned long)sizeof(char[m][65536]));
  return 0;
}
