// C02: <float.h> must describe the formats the compiler implements
// (C11 5.2.4.2.2): float = binary32, double = binary64, long double = x87
// extended (64-bit significand, 15-bit exponent).
// Expected output (gcc -std=c11):
//   sizeof FLT_MAX 4 FLT_MIN 4 FLT_EPSILON 4 FLT_TRUE_MIN 4
//   sizeof LDBL_MAX 16 LDBL_MIN 16 LDBL_EPSILON 16 LDBL_TRUE_MIN 16
//   LDBL_MANT_DIG 64 LDBL_DIG 18 LDBL_MAX_EXP 16384 LDBL_MIN_EXP -16381 LDBL_MAX_10_EXP 4932 LDBL_MIN_10_EXP -4931
//   LDBL_MAX 0xf.fffffffffffffffp+16380 LDBL_MIN 0x8p-16385 LDBL_EPSILON 0x8p-66 LDBL_TRUE_MIN 0x0.000000000000001p-16385
//   1+eps/2 != 1: 0
//   third*FLT_EPSILON is float: 4
//   FLT_DECIMAL_DIG 9 DBL_DECIMAL_DIG 17 LDBL_DECIMAL_DIG 21
//   HAS_SUBNORM 1 1 1
//   DECIMAL_DIG 21 FLT_EVAL_METHOD 0 FLT_RADIX 2 FLT_ROUNDS 1
// chibicc before the fix: sizeof 8 everywhere, LDBL_MANT_DIG 53 LDBL_DIG 15
// LDBL_MAX_EXP 1024 ..., LDBL_MAX = DBL_MAX, "1+eps/2 != 1: 1",
// "FLT_DECIMAL_DIG undefined", "FLT_HAS_SUBNORM undefined".
#include <stdio.h>
#include <float.h>
int main(void) {
  printf("sizeof FLT_MAX %d FLT_MIN %d FLT_EPSILON %d FLT_TRUE_MIN %d\n", (int)sizeof(FLT_MAX), (int)sizeof(FLT_MIN), (int)sizeof(FLT_EPSILON), (int)sizeof(FLT_TRUE_MIN));
  printf("sizeof LDBL_MAX %d LDBL_MIN %d LDBL_EPSILON %d LDBL_TRUE_MIN %d\n", (int)sizeof(LDBL_MAX), (int)sizeof(LDBL_MIN), (int)sizeof(LDBL_EPSILON), (int)sizeof(LDBL_TRUE_MIN));
  printf("LDBL_MANT_DIG %d LDBL_DIG %d LDBL_MAX_EXP %d LDBL_MIN_EXP %d LDBL_MAX_10_EXP %d LDBL_MIN_10_EXP %d\n", LDBL_MANT_DIG, LDBL_DIG, LDBL_MAX_EXP, LDBL_MIN_EXP, LDBL_MAX_10_EXP, LDBL_MIN_10_EXP);
  printf("LDBL_MAX %La LDBL_MIN %La LDBL_EPSILON %La LDBL_TRUE_MIN %La\n", (long double)LDBL_MAX, (long double)LDBL_MIN, (long double)LDBL_EPSILON, (long double)LDBL_TRUE_MIN);
  long double one = 1.0L, eps = LDBL_EPSILON;
  printf("1+eps/2 != 1: %d\n", one + eps / 2 != one);
  float third = 1.0f / 3;
  printf("third*FLT_EPSILON is float: %d\n", (int)sizeof(third * FLT_EPSILON));
#ifdef FLT_DECIMAL_DIG
  printf("FLT_DECIMAL_DIG %d DBL_DECIMAL_DIG %d LDBL_DECIMAL_DIG %d\n", FLT_DECIMAL_DIG, DBL_DECIMAL_DIG, LDBL_DECIMAL_DIG);
#else
  printf("FLT_DECIMAL_DIG undefined\n");
#endif
#ifdef FLT_HAS_SUBNORM
  printf("HAS_SUBNORM %d %d %d\n", FLT_HAS_SUBNORM, DBL_HAS_SUBNORM, LDBL_HAS_SUBNORM);
#else
  printf("FLT_HAS_SUBNORM undefined\n");
#endif
  printf("DECIMAL_DIG %d FLT_EVAL_METHOD %d FLT_RADIX %d FLT_ROUNDS %d\n", DECIMAL_DIG, FLT_EVAL_METHOD, FLT_RADIX, FLT_ROUNDS);
  return 0;
}
