// C02 R02.6: a floating constant is rounded twice (spelling -> long double by strtold,
// then long double -> float/double in the code generator and in static initialisers).
// chibicc prints:  3ff0000000000000 3ff0000000000000 3f800000 3f800000 3f800000
// gcc/clang print: 3ff0000000000001 3ff0000000000001 3f800001 3f800001 3f800001
#include <stdio.h>
#include <string.h>
double gd = 1.00000000000000011102230246251565404236316680908203126;   // 1 + 2^-53 + a bit: rounds up
float gf = 0x1.000001000000000004p0f;                                   // 1 + 2^-24 + 2^-70: rounds up
int main(void) {
  double d = 1.00000000000000011102230246251565404236316680908203126;
  float f = 0x1.000001000000000004p0f;
  float f2 = 1.000000059604644775390626f;                               // decimal spelling just above 1 + 2^-24
  unsigned long a, b; unsigned c, e, g;
  memcpy(&a, &gd, 8); memcpy(&b, &d, 8); memcpy(&c, &gf, 4); memcpy(&e, &f, 4); memcpy(&g, &f2, 4);
  printf("%lx %lx %x %x %x\n", a, b, c, e, g);
  return 0;
}
