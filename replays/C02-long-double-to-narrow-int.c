#include <stdio.h>
int main() {
  long double a = -2.0L, b = 40000.0L, c = 3000000000.0L, d = 300.0L, e = -40000.0L + 39000.0L;
  short s = a; unsigned short us = b; unsigned u = c; short s2 = d; short s3 = e;
  int si = (short)a, usi = (unsigned short)b;
  printf("%d %u %u %d %d %d %d\n", s, us, u, s2, s3, si, usi);
  return 0;
}
