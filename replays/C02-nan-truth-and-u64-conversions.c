#include <stdio.h>
int main() {
  double z = 0.0, n = z / z; float nf = n; long double nl = n;
  unsigned long big = 0xffffffffffffff00UL;
  float bf = big;
  float f63 = 9.3e18f; double d63 = 9.3e18; long double l63 = 9.3e18L;
  unsigned long u1 = f63, u2 = d63, u3 = l63;
  int t1 = 0, t2 = 0, t3 = 0;
  if (n) t1 = 1; if (nf) t2 = 1; if (nl) t3 = 1;
  printf("if(NaN): %d %d %d  !NaN: %d %d %d  (_Bool)NaN: %d %d %d\n", t1, t2, t3, !n, !nf, !nl, (_Bool)n, (_Bool)nf, (_Bool)nl);
  printf("(float)0xffffffffffffff00UL = %g\n", bf);
  printf("(unsigned long)9.3e18: %lu %lu %lu\n", u1, u2, u3);
  return 0;
}
