// C02: postfix ++ / -- on floating objects yield the value the object held
// before (C11 6.5.2.4p2). chibicc lowered A++ to (typeof A)((A += 1) - 1),
// which recomputes the "old" value from the rounded sum.
// Expected output (gcc -latomic):
//   f++ small: r=0x1.b7cdfep-34 f=0x1p+0
//   d++ small: r=0x1.79ca10c924223p-67 d=0x1p+0
//   l-- small: r=0xa.2425ff75e14fc32p-103 l=-0x8p-3
//   g++ 2^24: r=16777216.0 g=16777216.0
//   z++ -0: r=-0 z=1
//   h--: r=0x1.99999ap-4 h=-0x1.ccccccp-1
//   s.m++: r=0x1.b7cdfep-34 m=0x1p+0
//   *p++: r=0x1.79ca10c924223p-67 d=0x1p+1
//   af++: r=0x1.b7cdfep-34 af=0x1p+0
//   ad--: r=0x1.79ca10c924223p-67 ad=-0x1p+0
// chibicc before the fix: every r is 0x0p+0 (resp. 16777215.0, 0 for -0,
// 0x1.9999ap-4 for h--).
#include <stdio.h>
int main(void) {
  float f = 1e-10f; float r = f++; printf("f++ small: r=%a f=%a\n", r, f);
  double d = 1e-20; double rd = d++; printf("d++ small: r=%a d=%a\n", rd, d);
  long double l = 1e-30L; long double rl = l--; printf("l-- small: r=%La l=%La\n", rl, l);
  float g = 16777216.0f; float rg = g++; printf("g++ 2^24: r=%.1f g=%.1f\n", rg, g);
  double z = -0.0; double rz = z++; printf("z++ -0: r=%g z=%g\n", rz, z);
  float h = 0.1f; float rh = h--; printf("h--: r=%a h=%a\n", rh, h);
  struct { float m; } s = {1e-10f}; float rs = s.m++; printf("s.m++: r=%a m=%a\n", rs, s.m);
  double *p = &d; d = 1e-20; rd = (*p)++; d++; printf("*p++: r=%a d=%a\n", rd, d);
  _Atomic float af = 1e-10f; float ra = af++; printf("af++: r=%a af=%a\n", ra, (float)af);
  _Atomic double ad = 1e-20; double rad = ad--; printf("ad--: r=%a ad=%a\n", rad, (double)ad);
  return 0;
}
