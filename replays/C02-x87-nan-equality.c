#include <stdio.h>
int main() {
  long double z = 0.0L, n = z / z, one = 1.0L;
  printf("%d %d %d %d %d %d\n", n == n, n != n, n == one, n != one, one == one, one != one);
  return 0;
}
