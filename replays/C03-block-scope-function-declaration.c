// C11 6.2.1p4/p7: a block-scope function declaration is the innermost
// declaration of the identifier until the end of the block.
// expected (gcc): exit status 7.  chibicc: "not a function" (the block-scope
// `int f(void);` leaves f bound to the enclosing local).
int f(void) { return 7; }
int main(void) {
  int f = 3;
  {
    int f(void);
    return f();
  }
}
