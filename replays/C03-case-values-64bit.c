#include <stdio.h>
int f(long x) {
  switch (x) {
  case 0x100000001L: return 1;
  case 1: return 2;
  case -5: return 3;
  case 0x7000000000L ... 0x7000000005L: return 4;
  case -100 ... -90: return 5;
  default: return 0;
  }
}
int g(unsigned u) { switch (u) { case 4294967295u: return 1; case 0: return 2; case 10 ... 20: return 3; } return 0; }
int h(int i) { switch (i) { case -1: return 1; case -20 ... -10: return 2; case 2147483647: return 3; } return 0; }
int k(unsigned long u) { switch (u) { case 0xffffffffffffffffUL: return 1; case 0x8000000000000000UL: return 2;} return 0; }
int main() {
  printf("%d %d %d %d %d %d %d\n", f(0x100000001L), f(1), f(-5), f(0x7000000003L), f(-95), f(2), f(0x7000000006L));
  printf("%d %d %d %d\n", g(4294967295u), g(0), g(15), g(21));
  printf("%d %d %d %d\n", h(-1), h(-15), h(2147483647), h(-21));
  printf("%d %d %d\n", k(-1UL), k(0x8000000000000000UL), k(5));
  return 0;
}
