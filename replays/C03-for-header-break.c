// break/continue written in the header of a `for` statement (GNU statement
// expression in the condition, the increment or the init clause) are not in
// that loop's body: they belong to the enclosing loop/switch (C11 6.8.6.2,
// 6.8.6.3 "shall appear only in or as a loop body"; gcc, the reference for
// statement expressions, binds them so for for/while/do alike; clang binds
// all three to the loop itself).  chibicc follows gcc for `while (c)` and
// `do .. while (c)` but binds them to the loop itself in a `for` header
// (stmt() installs the loop's labels before it parses the header), so
// `for (;c;) S` and `while (c) S` differ.
// gcc prints:   cond: 0 1 | end r=0     inc: 0 1 | end r=0    cont: 0 1 2 | n=3    sw: 1
#include <stdio.h>
int main(void) {
  int r, k, n;
  printf("cond:");
  for (r = 0; r < 3; r++) {
    for (k = 0; ({ if (k == 2) break; 1; }); k++)
      printf(" %d", k);
    printf(" | after-inner");            // must not be reached: the break leaves the r loop
  }
  printf(" | end r=%d\n", r);

  printf("inc:");
  for (r = 0; r < 3; r++) {
    for (k = 0; k < 5; ({ if (k == 1) break; k++; }))
      printf(" %d", k);
    printf(" | after-inner");
  }
  printf(" | end r=%d\n", r);

  printf("cont:");
  n = 0;
  for (r = 0; r < 3; r++) {
    printf(" %d", r);
    for (k = 0; ({ if (k == 1) continue; k < 3; }); k++)   // continue -> r++ of the outer loop
      n++;
    printf(" | after-inner");
  }
  printf(" | n=%d\n", n);

  n = 0;
  switch (1) {
  case 1:
    for (k = 0; ({ if (k == 1) break; 1; }); k++)          // break leaves the switch
      n++;
    n += 100;
  }
  printf("sw: %d\n", n);
  return 0;
}
