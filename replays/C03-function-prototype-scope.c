// C11 6.2.1p4: a tag or enumerator declared in the parameter list of a
// function declarator that is not part of a definition has function
// prototype scope: it ends with the declarator. In the parameter list of a
// definition it is visible in the body.
// chibicc (before the repair): exit 1 (h() returns 7, sizeof(struct S) is 64);
// gcc: exit 0.
enum { N = 1 };
struct S { char c[2]; };
void g(int a[sizeof(enum { N = 7 })]);
void g2(struct S { char c[64]; } *p);
int h(void) { return N; }
int k(enum { A = 3, B } x) { return x == B; }
int main(void) {
  if (h() != 1) return 1;
  if (sizeof(struct S) != 2) return 1;
  if (!k(4)) return 1;
  return 0;
}
