// C11 6.8.4p3 / 6.8.5p5: every selection statement (if, switch) and every
// iteration statement (while, do, for) is a block whose scope is a strict
// subset of the scope of the enclosing block, and each of its sub-statements
// is a block too.  A tag or enumerator declared inside the controlling
// expression (sizeof / cast / compound literal of a struct or enum specifier)
// or inside a sub-statement that is not a compound statement therefore goes
// out of scope at the end of the statement.  chibicc's stmt() enters a scope
// only for `for`; for if/switch/while/do the declaration lands in the
// enclosing block, stays visible after the statement and hides the outer
// declaration of the same name (wrong enumerator value, wrong struct size).
// gcc -std=gnu11 prints:
//   if-head 2 3 | if-body 2 3 | else-sees-then 2 3 | switch-head 2 3 | switch-body 2 3
//   while-head 2 3 | while-body 2 3 | do-head 2 3 | do-body 2 3 | do-cond-sees-body 2 | for 2 3
#include <stdio.h>
enum { LIMIT = 2 };
struct rec { char c[3]; };
int zero;

static void if_head(void) {
  if (sizeof(enum { LIMIT = 5 }) + sizeof(struct rec { char c[40]; }) > 1000) ;
  printf("if-head %d %d | ", LIMIT, (int)sizeof(struct rec));
}
static void if_body(void) {
  if (zero) (void)(sizeof(enum { LIMIT = 6 }) + sizeof(struct rec { char c[41]; }));
  printf("if-body %d %d | ", LIMIT, (int)sizeof(struct rec));
}
static void else_sees_then(void) {
  int a = 0, b = 0;
  if (zero) (void)(sizeof(enum { LIMIT = 7 }) + sizeof(struct rec { char c[42]; }));
  else { a = LIMIT; b = sizeof(struct rec); }
  printf("else-sees-then %d %d | ", a, b);
}
static void switch_head(void) {
  switch (sizeof(enum { LIMIT = 8 }) + sizeof(struct rec { char c[43]; })) { default: ; }
  printf("switch-head %d %d | ", LIMIT, (int)sizeof(struct rec));
}
static void switch_body(void) {
  switch (zero) default: (void)(sizeof(enum { LIMIT = 9 }) + sizeof(struct rec { char c[44]; }));
  printf("switch-body %d %d\n", LIMIT, (int)sizeof(struct rec));
}
static void while_head(void) {
  while (sizeof(enum { LIMIT = 10 }) + sizeof(struct rec { char c[45]; }) > 1000) ;
  printf("while-head %d %d | ", LIMIT, (int)sizeof(struct rec));
}
static void while_body(void) {
  while (zero) (void)(sizeof(enum { LIMIT = 11 }) + sizeof(struct rec { char c[46]; }));
  printf("while-body %d %d | ", LIMIT, (int)sizeof(struct rec));
}
static void do_head(void) {
  do ; while (sizeof(enum { LIMIT = 12 }) + sizeof(struct rec { char c[47]; }) > 1000);
  printf("do-head %d %d | ", LIMIT, (int)sizeof(struct rec));
}
static void do_body(void) {
  do (void)(sizeof(enum { LIMIT = 13 }) + sizeof(struct rec { char c[48]; })); while (zero);
  printf("do-body %d %d | ", LIMIT, (int)sizeof(struct rec));
}
static void do_cond_sees_body(void) {
  int n = 0;
  do (void)sizeof(enum { LIMIT = 0 }); while (n++ < 5 && LIMIT == 0);   // LIMIT is the outer one: one iteration
  printf("do-cond-sees-body %d | ", n + 1);
}
static void for_stmt(void) {
  int i;
  for (i = sizeof(enum { LIMIT = 14 }); i < 0 && sizeof(struct rec { char c[49]; }); i++) ;
  printf("for %d %d\n", LIMIT, (int)sizeof(struct rec));
}
int main(void) {
  if_head(); if_body(); else_sees_then(); switch_head(); switch_body();
  while_head(); while_body(); do_head(); do_body(); do_cond_sees_body(); for_stmt();
  return 0;
}
