// C11 6.2.1p7: the scope of a struct tag begins just after the tag appears in
// the specifier that declares it, so the member `struct T *next` of a
// block-scope `struct T { ... }` points to the NEW type even when an outer
// scope declares another struct T; C11 6.7.2.3p7: `struct T;` in an inner
// scope declares a new incomplete type.
// expected (gcc): exit status 5.  chibicc: "no such member".
struct T { int a; };
int main(void) {
  struct T { struct T *next; int b; } x;
  x.next = &x;
  x.b = 5;
  return x.next->b;
}
