#include <stdio.h>
struct T { int a; };
union U { int a; };
int main() {
  {
    struct T;
    struct T *p;
    struct T { char c[100]; };
    printf("block-struct %d\n", (int)sizeof(*p));
  }
  {
    union U;
    union U *q;
    union U { char c[50]; };
    printf("block-union %d\n", (int)sizeof(*q));
  }
  {
    struct T *r;          /* no `struct T;`: refers to the outer type */
    printf("outer %d\n", (int)sizeof(*r));
  }
  return 0;
}
