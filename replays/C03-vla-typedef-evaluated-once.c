// C11 6.7.8p3, 6.7.6.2p5: the size expression of a variably modified
// typedef is evaluated once, each time the typedef declaration is reached;
// objects declared with the typedef name have that size.
// chibicc (before the repair): exit 1 (f called once per object, x has 5 elements);
// gcc: exit 0.
int calls;
int f(void) { calls++; return 3; }
int main(void) {
  typedef int A[f()];
  A x; A y;
  if (calls != 1 || sizeof(x) != 12 || sizeof(y) != 12) return 1;
  int n = 2;
  typedef int B[n];
  n = 5;
  B z;
  if (sizeof(z) != 2 * sizeof(int)) return 1;
  for (int i = 1; i < 4; i++) {
    typedef int C[i][f()];
    C u; C *p = &u;
    if (sizeof(u) != i * 3 * sizeof(int) || sizeof(*p) != sizeof(u)) return 1;
  }
  return calls != 4;
}
