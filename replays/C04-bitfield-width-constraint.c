// C11 6.7.2.1p4: the width of a bit-field is a nonnegative constant that does not
// exceed the width of the declared type; zero only without a declarator.
// gcc/clang reject each of the three structs; chibicc accepts all of them.
#include <stdio.h>
#ifdef NEG
struct N { int x; int f:-32; int y; };
#endif
#ifdef ZERO
struct Z { int a:3; int z:0; int b:5; };
#endif
#ifdef WIDE
struct W { int a:40; int b; };
struct C { char c:9; char d; };
#endif
int main(void) {
  int bad = 0;
#ifdef NEG
  struct N n; n.x = 1; n.y = 2;
  printf("N: sizeof=%d x=%d y=%d (y placed over x)\n", (int)sizeof n, n.x, n.y);
  bad |= n.x != 1;
#endif
#ifdef ZERO
  struct Z z = {0}; z.b = 9; z.z = 1;
  printf("Z: z.z=%d b=%d\n", z.z, z.b);
  bad |= 1;
#endif
#ifdef WIDE
  struct W w = {0}; w.a = 1L << 35;
  struct C c = {0}; c.c = 0xff;
  printf("W: a=%ld (40-bit field lost bit 35)  C: c=%d (9-bit signed field holding 255)\n", (long)w.a, (int)c.c);
  bad |= w.a == 0 || c.c != 255;
#endif
  return bad;
}
