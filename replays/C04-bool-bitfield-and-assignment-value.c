#include <stdio.h>
struct S { _Bool b : 1; int i : 3; };
int main() { struct S s = {0}; s.b = 1; int x = s.b, y = 1; int v = (s.i = 9); printf("%d %d %d\n", x, y, v); return 0; }
