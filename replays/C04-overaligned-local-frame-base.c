// C04: a local object declared _Alignas(32) / _Alignas(64) must live at an address that is a multiple of 32 / 64.
// chibicc places it at a multiple of N below %rbp, but %rbp itself is only 16-aligned. gcc: all remainders 0.
#include <stdio.h>
#include <stdint.h>
__attribute__((noinline)) int probe(int depth) {
  char pad = 1;
  _Alignas(32) char a = 2;
  _Alignas(64) int b = 3;
  int bad = ((uintptr_t)&a % 32 != 0) + ((uintptr_t)&b % 64 != 0);
  printf("depth %d: &a %% 32 = %d, &b %% 64 = %d\n", depth, (int)((uintptr_t)&a % 32), (int)((uintptr_t)&b % 64));
  if (depth < 3) { char shift[16]; shift[0] = pad; bad += probe(depth + 1) + shift[0] - 1; }
  return bad;
}
int main(void) {
  int bad = probe(0);
  printf(bad ? "FAIL\n" : "PASS\n");
  return bad != 0;
}
