// C04: a bit-field of a packed struct is read/written through a full unit of its declared type (4 bytes for int) at
// align_down(byte offset, 4), although the packed struct is smaller than that unit: the access reaches beyond the object.
// The struct is placed on the last byte(s) of a page followed by an inaccessible page: chibicc's code faults, gcc's does not.
// (declared before the headers: glibc defines __attribute__ away for compilers that are not GNU C)
struct __attribute__((packed)) P { int f : 3; };            // sizeof 1
struct __attribute__((packed)) Q { char c; int f : 3; };    // sizeof 2
#include <stdio.h>
#include <signal.h>
#include <stdlib.h>
#include <unistd.h>
#include <sys/mman.h>
static void on_segv(int sig) { write(1, "FAIL: access beyond the object (SIGSEGV)\n", 41); _exit(1); }
int main(void) {
  signal(SIGSEGV, on_segv);
  long pg = sysconf(_SC_PAGESIZE);
  char *m = mmap(0, 2 * pg, PROT_READ | PROT_WRITE, MAP_PRIVATE | MAP_ANONYMOUS, -1, 0);
  if (m == MAP_FAILED) return 2;
  mprotect(m + pg, pg, PROT_NONE);
  printf("sizeof(struct P) = %zu, sizeof(struct Q) = %zu\n", sizeof(struct P), sizeof(struct Q));
  struct Q *q = (struct Q *)(m + pg - sizeof(struct Q));
  q->c = 1; q->f = 2;
  struct P *p = (struct P *)(m + pg - sizeof(struct P));
  p->f = 3;
  printf("q->f = %d, p->f = %d\nPASS\n", q->f, p->f);
  return 0;
}
