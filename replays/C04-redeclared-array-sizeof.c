#include <stdio.h>
int a[5]; int a[];
extern int b[3]; int b[];
int c[]; int c[4]; int c[];
int d[]; 
int e[3]; int e[] = {1,2};
int main(void){ printf("%d %d %d %d %d %d\n", (int)sizeof(a), (int)sizeof(b), (int)sizeof(c), (int)sizeof(e), e[1], e[2]); a[4]=7; b[2]=1; c[3]=2; d[0]=1; return a[4]+b[2]+c[3]+d[0]-11; }
