#include <stdio.h>
int main(void){
  int n=3; typedef int T[n]; n=10; T a; T b;
  int m=2; typedef int M[n][m]; n=1; m=7; M c;
  typedef int (*P)[m]; m=3; P p = 0;
  printf("%d %d %d %d %d %d\n", (int)sizeof(a), (int)sizeof(b), (int)sizeof(T), (int)sizeof(c), (int)sizeof(c[0]), (int)sizeof(*p));
  a[2]=5; c[9][1]=4;
  return a[2]+c[9][1]-9;
}
