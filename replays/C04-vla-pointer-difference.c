#include <stdio.h>
int main(void) {
  int n = 5, m = 6;
  int a[m][n];
  int (*p)[n] = a + 4;
  int (*q)[n] = a + 1;
  long d1 = p - q;          /* 3 */
  long d2 = (a + 5) - a;    /* 5 */
  long d3 = q - p;          /* -3 */
  printf("%ld %ld %ld\n", d1, d2, d3);
  return !(d1 == 3 && d2 == 5 && d3 == -3);
}
