// C04: a struct member of variable-length array type is accepted silently (C11 6.7.2.1p9 forbids it). The layout uses the
// 8-byte placeholder size of the VLA type, the member access addresses the array itself: s.b[8..] overlap s.x.
// chibicc: sizeof s = 16, s.x is overwritten (FAIL). gcc (GNU extension, real layout): sizeof s = 20, PASS; clang: error.
#include <stdio.h>
#include <string.h>
int main(void) {
  int n = 16;
  struct { char b[n]; int x; } s;
  s.x = 0x11111111;
  memset(s.b, 0xe1, 16);
  printf("sizeof s = %zu, s.x = %x\n", sizeof s, (unsigned)s.x);
  int bad = s.x != 0x11111111;
  printf(bad ? "FAIL\n" : "PASS\n");
  return bad;
}
