// Objects declared through one typedef name (or typeof) of a variable-length
// array type share the Type object and hence the hidden size variable, which
// every further declarator rebinds: sizeof(x) follows the LATER declaration
// while x was allocated with the earlier size.  gcc/clang print 16 16 24 12 and exit 0.
#include <stdio.h>
#include <string.h>
int main(void) {
  int k = 4;
  typedef int T[k];
  T x;
  k = 100;
  T y;
  int n = 2, m = 3;
  typedef int M[n][m];
  M a;
  n = 50; m = 60;
  M b;
  printf("%d %d %d %d\n", (int)sizeof(x), (int)sizeof(y), (int)sizeof(a), (int)sizeof(a[0]));
  // memset(x, 0, sizeof(x)) would clear 400 bytes of a 16-byte block
  return !(sizeof(x) == 16 && sizeof(a) == 24 && sizeof(a[0]) == 12);
}
