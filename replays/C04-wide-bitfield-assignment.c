#include <stdio.h>
struct A { int x:32; unsigned y:32; long z:63; unsigned long u:64; long v:33; } a;
int main(void){ a.x=-7; a.y=0xfffffffe; a.z=-(1L<<61); a.u=0xfedcba9876543210UL; a.v=-(1L<<31)-5;
 printf("%d %u %ld %lx %ld\n", a.x, a.y, (long)a.z, (unsigned long)a.u, (long)a.v);
 struct A b = {1,2,3,4,5}; b.v = b.v + (1L<<31); printf("%ld\n", (long)b.v); return 0; }
