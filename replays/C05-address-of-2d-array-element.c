// C05 R05.7 (eval2): an lvalue of ARRAY type is, as a value, the address of its first element (C11 6.3.2.1p3), so
// `a2[1]` of `int a2[3][4]` is the address constant a2 + 16 bytes.  eval_rval accepts the three lvalue kinds
// ND_VAR / ND_DEREF / ND_MEMBER, eval2 has array arms only for ND_VAR and ND_MEMBER: an array-typed ND_DEREF
// (`a2[1]`, `t[1].y` is fine, `*pa`) is rejected, so `&a2[1][2]`, `int *q = a2[1];` and `&a2[1][2] + 1` do not compile
// as static initializers.
// expected (gcc, clang): 6 4 7, exit 0
// actual (chibicc):      error "not a compile-time constant"
#include <stdio.h>
int a2[3][4];
int *p = &a2[1][2];
int *q = a2[1];
int *s = &a2[1][2] + 1;
int main(void) {
  printf("%d %d %d\n", (int)(p - &a2[0][0]), (int)(q - &a2[0][0]), (int)(s - &a2[0][0]));
  return !(p == &a2[0][0] + 6 && q == &a2[0][0] + 4 && s == &a2[0][0] + 7);
}
