// gcc: error "array index in initializer exceeds array bounds"; chibicc accepts, designates a[0], prints 1
#include <stdio.h>
int a[4] = { [0x100000000] = 1 };
int main(void) { printf("%d\n", a[0]); return 0; }
