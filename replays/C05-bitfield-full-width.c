// C05 R05.4: the static bit-field merge masks with (1L << bit_width) - 1, which is undefined for
// bit_width == 64 (`long a:64`): on x86 the mask is 0 and the member is stored as 0.
// (the automatic twin `ls` fails the same way in codegen.c's bit-field store: see C04)
// expected (gcc):   5 7 | 7fffffffffffffff
// actual (chibicc): 0 7 | 7fffffffffffffff        (exit 1)
#include <stdio.h>
struct S { long a:64; int b; };
struct S gs = {5, 7};
struct Q { unsigned long a:63; };
struct Q gq = {0x7fffffffffffffffUL};
int main(void) {
  printf("%ld %d | %lx\n", (long)gs.a, gs.b, (unsigned long)gq.a);
  return !(gs.a == 5);
}
