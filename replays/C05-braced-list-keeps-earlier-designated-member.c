#include <stdio.h>
struct P { int a, b; };
static struct P g[1] = { [0].a = 1, [0] = { .b = 2 } };
struct Q { struct P p; int c; };
static struct Q h = { .p.a = 1, .p = { .b = 2 } };
int main(void) {
  struct P l[1] = { [0].a = 1, [0] = { .b = 2 } };
  struct Q m = { .p.a = 1, .p = { .b = 2 } };
  int arr[3] = { [0]=1, [1]=2, [2]=3, [0]=5 };
  printf("%d %d / %d %d / %d %d / %d %d / %d\n", g[0].a, g[0].b, l[0].a, l[0].b, h.p.a, h.p.b, m.p.a, m.p.b, arr[0]);
  return 0;
}
