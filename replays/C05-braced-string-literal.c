// C11 6.7.9p14: a string literal for a char array may be enclosed in braces. gcc prints "4 1 1 1", chibicc "1 0 0 0"
#include <stdio.h>
static char s[] = {"abc"};
int main(void) { char l[5] = {"ab"}; printf("%d %d %d %d\n", (int)sizeof(s), s[0]=='a', l[0]=='a', l[1]=='b'); return 0; }
