// C05 R05.14 (parser): after a nested member designator (`[0].a = 1`, `.in.a = 1`) designation() continues the
// member walk with struct_initializer2(rest, tok, init, mem->next) while tok still stands on the `,` behind the
// designated initializer.  struct_initializer2 starts with first = true, does not skip that comma and hands `,` to
// initializer2 as the start of an element (array_initializer2 skips it: `if (i > 0)`).  Whenever the designated
// member is not the last member of its struct, the valid initializer is rejected.
// expected (gcc, clang): 1 2 3 0 | 1 0 3 | 1 2 3, exit 0
// actual (chibicc):      error "expected an expression"
#include <stdio.h>
struct P { int a, b; };
struct O { struct { int a, b; } in; int c; };
struct A { struct { int a, b; }; int c; };
struct P g[2] = { [0].a = 1, 2, 3 };
struct O o = { .in.a = 1, .c = 3 };
int main(void) {
  struct A x = { .a = 1, 2, 3 };
  printf("%d %d %d %d | %d %d %d | %d %d %d\n", g[0].a, g[0].b, g[1].a, g[1].b, o.in.a, o.in.b, o.c, x.a, x.b, x.c);
  return !(g[0].a == 1 && g[0].b == 2 && g[1].a == 3 && o.in.a == 1 && o.c == 3 && x.b == 2 && x.c == 3);
}
