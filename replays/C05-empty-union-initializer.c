// C05 R05.15 (parser, create_lvar_init): a union without members (GNU extension, accepted by the type parser) has an
// Initializer with zero children.  union_initializer parses into init->children[0] (garbage pointer), and
// create_lvar_init dereferences `mem = ty->members` (NULL) for `mem->idx`: the compiler crashes (SIGSEGV in cc1).
// An empty struct is handled.
// expected (gcc, clang): 0 0, exit 0
// actual (chibicc):      cc1 dies with SIGSEGV (driver exit 1, no diagnostic)
#include <stdio.h>
union U {};
struct E {};
union U e = {};
int main(void) {
  union U l = {};
  struct E s = {};
  printf("%d %d\n", (int)sizeof(e), (int)sizeof(s));
  return (int)sizeof(l);
}
