// C05 R05.8: designation() resumes positional initialisation at begin+1 after a NESTED range
// designator `[begin ... end]` (array_initializer1 and count_array_init_elements resume at end+1).
// expected (gcc):   0 7 7 7 9 0 | 0 7 7 7 9 0 | 0 7 7 7 9 0 | 0 7 7 7 9 0
// actual (chibicc): 0 7 9 7 0 0 | 0 7 9 7 0 0 | 0 7 9 7 0 0 | 0 7 9 7 0 0   (exit 1)
#include <stdio.h>
struct T { int a[6]; };
struct T gt = {.a[1 ... 3] = 7, 9};
int g2[2][6] = {[0][1 ... 3] = 7, 9};
int main(void) {
  struct T lt = {.a[1 ... 3] = 7, 9};
  int l2[2][6] = {[0][1 ... 3] = 7, 9};
  for (int i = 0; i < 6; i++) printf("%d ", gt.a[i]); printf("| ");
  for (int i = 0; i < 6; i++) printf("%d ", lt.a[i]); printf("| ");
  for (int i = 0; i < 6; i++) printf("%d ", g2[0][i]); printf("| ");
  for (int i = 0; i < 6; i++) printf("%d ", l2[0][i]); printf("\n");
  return !(gt.a[4] == 9 && gt.a[2] == 7 && g2[0][4] == 9 && l2[0][4] == 9 && lt.a[4] == 9);
}
