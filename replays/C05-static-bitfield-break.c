// C05 R05.1: write_gvar_data leaves the member loop (`break`) at a bit-field without initializer,
// so every later member of a static struct keeps the zero fill.
// expected (gcc, and chibicc for the automatic twin): static: a=1 b=0 c=3 d=4
// actual (chibicc, pinned tree):                       static: a=1 b=0 c=0 d=0   (exit 1)
#include <stdio.h>
struct S { int a; int b:3; int c; int d; };
struct S gs = {.a=1, .c=3, .d=4};
int main(void) {
  struct S ls = {.a=1, .c=3, .d=4};
  printf("static: a=%d b=%d c=%d d=%d\n", gs.a, gs.b, gs.c, gs.d);
  printf("auto:   a=%d b=%d c=%d d=%d\n", ls.a, ls.b, ls.c, ls.d);
  return !(gs.c == 3 && gs.d == 4);
}
