// C05 R05.2 / R05.4 (write_gvar_data): an initializer is converted to the type of the object as if by assignment
// (C11 6.7.9p11); for _Bool that is 1 iff the value compares unequal to 0 (6.3.1.2).  The static back end stores the
// low byte of the folded value (write_buf(.., 1)) resp. the low bits (bit-field merge): 256 -> 0, 2 -> 2, 0.5 -> 0.
// The automatic back end assigns through a cast and gives 1.
// expected (gcc, clang): 1 1 1 | 1 1 | 1 1 1, exit 0
// actual (chibicc):      0 2 0 | 0 0 | 1 1 1, exit 1
#include <stdio.h>
static _Bool b1 = 256, b2 = 2, b3 = 0.5;
struct B { _Bool x; _Bool y : 1; } sb = { 256, 2 };
int main(void) {
  _Bool l1 = 256, l2 = 2, l3 = 0.5;
  printf("%d %d %d | %d %d | %d %d %d\n", b1, b2, b3, sb.x, sb.y, l1, l2, l3);
  return !(b1 == 1 && b2 == 1 && b3 == 1 && sb.x == 1 && sb.y == 1);
}
