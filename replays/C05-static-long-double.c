// C05 R05.2: no storage arm for long double in write_gvar_data: falls into the integer arm,
// write_buf(..., 16) -> unreachable().
// expected (gcc): compiles, exit 0      actual (chibicc): "internal error at parse.c:NNNN", no output
long double g = 1.0L;
int main(void) { return g != 1.0L; }
