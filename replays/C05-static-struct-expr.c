// C05 R05.1: a static struct whose initializer is an expression of struct type (compound literal;
// accepted by gcc/clang as an extension, value {1,2}) is accepted by chibicc without any diagnostic
// and silently emitted as zeros: write_gvar_data never looks at init->expr of a struct, while
// create_lvar_init (automatic objects) assigns it.
// expected (gcc): 1 2 | 3 4 | 5 6      actual (chibicc): 0 0 | 0 0 | 5 6   (exit 1)
#include <stdio.h>
struct S { int a; int b; };
static struct S gs = (struct S){1, 2};
int main(void) {
  static struct S ss = (struct S){3, 4};
  struct S ls = (struct S){5, 6};
  printf("%d %d | %d %d | %d %d\n", gs.a, gs.b, ss.a, ss.b, ls.a, ls.b);
  return !(gs.a == 1 && gs.b == 2 && ss.a == 3 && ss.b == 4);
}
