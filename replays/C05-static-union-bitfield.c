// static union whose first member is a bit-field: gcc prints "f f", chibicc "ff f" (the whole storage unit receives the unmasked value)
#include <stdio.h>
static union { int a:4; int b; } u = {0xff};
int main(void) { union { int a:4; int b; } l = {0xff};  printf("%x %x\n", u.b, l.b); return 0; }
