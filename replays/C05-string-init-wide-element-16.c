// C05 R05.6: element size 16 variant of C05-string-init-wide-element.c
// expected (gcc): located diagnostic      actual (chibicc): "internal error at parse.c:NNN"
long double y[] = "abc";
int main(void) { return 0; }
