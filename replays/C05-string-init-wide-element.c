// C05 R05.6 (also C13): string_initializer dispatches on element size {1,2,4} only; an array with
// 8- or 16-byte elements initialised by a string literal reaches unreachable().
// expected (gcc): located diagnostic "array of inappropriate type initialized from string constant"
// actual (chibicc): "internal error at parse.c:NNN" (no source position)
// same for: long double y[] = "abc";   (element size 16)
long x[] = "abc";
int main(void) { return 0; }
