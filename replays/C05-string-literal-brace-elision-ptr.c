// Brace elision with string literals (C11 6.7.9p14, p20): for an array of
// pointers a string literal initialises (by brace elision) the first element.
// gcc: x y 3 b c (exit 0); chibicc: "array of inappropriate type initialized
// from string constant"
#include <stdio.h>
struct V { const char *names[2]; int k; };
int main(void) {
  struct V v = { "x", "y", 3 };
  const char *t[2][2] = { "a", "b", "c", "d" };
  printf("%s %s %d %s %s\n", v.names[0], v.names[1], v.k, t[0][1], t[1][0]);
  return !(v.k == 3 && t[1][0][0] == 'c');
}
