// Brace elision with string literals (C11 6.7.9p14, p20): a string literal is the
// initializer of a whole array only when the array has character element type;
// for an array of arrays it initialises (by brace elision) the first element.
#include <stdio.h>
#include <string.h>
struct N { char n[2][4]; int k; };
int main(void) {
  struct N a = { "abc", "def", 1 };          /* n[0]="abc", n[1]="def", k=1 */
  printf("%s %s %d\n", a.n[0], a.n[1], a.k);
  return !(!strcmp(a.n[0], "abc") && !strcmp(a.n[1], "def") && a.k == 1);
}
