// Brace elision (C11 6.7.9p13/p20): an expression of struct type S1 initialises
// the FIRST MEMBER (of type S1) of a larger struct S2; the next initializer goes
// to the next member of S2.
#include <stdio.h>

struct S1 { int a; int b; };
struct S2 { struct S1 s; long p; long q; };     /* first member is an S1 */
struct W { struct S2 s2; int k; };

struct Src { struct S1 a; long fill[2]; };

int main(void) {
  struct Src src = { { 1, 2 }, { -1, -2 } };

  struct W w = { src.a, 7 };                  /* s2.s = src.a; s2.p = 7; rest 0 */
  struct S2 el[2] = { src.a, 5, 6, src.a };   /* el[0] = {src.a,5,6}; el[1] = {src.a,0,0} */

  printf("%d %d %ld %ld %d | ", w.s2.s.a, w.s2.s.b, w.s2.p, w.s2.q, w.k);
  printf("%d %d %ld %ld  %d %d %ld %ld\n", el[0].s.a, el[0].s.b, el[0].p, el[0].q, el[1].s.a, el[1].s.b, el[1].p, el[1].q);
  int bad = !(w.s2.s.a == 1 && w.s2.s.b == 2 && w.s2.p == 7 && w.s2.q == 0 && w.k == 0);
  bad |= !(el[0].p == 5 && el[0].q == 6 && el[1].s.a == 1 && el[1].p == 0 && el[1].q == 0);
  return bad;
}
