// C05 R05.10 (parser): a struct sub-object that an earlier initializer copy-initialised from a struct-valued
// expression (`[0] = y` sets init->expr) is initialised AGAIN by a later list initializer, braced (`[0] = {1, 2}`)
// or brace-elided (`[0] = 1, 2`).  C11 6.7.9p19: the later initializer overrides.  struct_initializer1 /
// the struct_initializer2 arm of initializer2 never clear init->expr, and both back ends emit init->expr when it
// is set, so the later list is ignored and the earlier struct value is stored.
// expected (gcc, clang): 1 2 | 4 5
// actual (chibicc):      7 8 | 7 8        (exit 1)
#include <stdio.h>
struct S { int a, b; };
int main(void) {
  struct S y = {7, 8};
  struct S a[1] = {[0] = y, [0] = {1, 2}};
  struct S d[1] = {[0] = y, [0] = 4, 5};
  printf("%d %d | %d %d\n", a[0].a, a[0].b, d[0].a, d[0].b);
  return !(a[0].a == 1 && a[0].b == 2 && d[0].a == 4 && d[0].b == 5);
}
