// C11 6.7.9p19: a later initializer for a sub-aggregate overrides earlier designated members. gcc prints "0 0 0 0", chibicc "7 7 120 120"
#include <stdio.h>
struct In { int x, y; }; struct O { struct In in; char s[8]; };
static struct O g = { .in.y = 7, .in = {2} };
static struct O g2 = { .s[5]='x', .s="ab" };
int main(void) { struct O l = { .in.y = 7, .in = {2} }; struct O l2 = { .s[5]='x', .s="ab" };
 printf("%d %d %d %d\n", g.in.y, l.in.y, g2.s[5], l2.s[5]); return 0; }
