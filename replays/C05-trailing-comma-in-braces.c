// C05 R05.14 (parser): C11 6.7.9 syntax `{ initializer-list , }` -- a trailing comma is allowed in every braced
// initializer.  The brace arm of initializer2 for scalars and the designated arm of union_initializer demand `}`
// directly behind the element (the non-designated union arm and the array/struct walks consume the comma).
// expected (gcc, clang): 3 4 5, exit 0
// actual (chibicc):      error "expected '}'"
#include <stdio.h>
union U { int a; char b; };
int x = {3,};
union U u = {.a = 4,};
int main(void) {
  union U l = {.b = 5,};
  printf("%d %d %d\n", x, u.a, l.b);
  return !(x == 3 && u.a == 4 && l.b == 5);
}
