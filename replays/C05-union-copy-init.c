// C05 R05.1 (parser side): `union U x = y;` with y of the same union type is not copied as a whole:
// union_initializer hands the expression to the FIRST MEMBER (initializer2 handles the struct case by
// setting init->expr, the union case not), so the address bits of y are stored into x.a.
// expected (gcc):   abcdefg | pqr | abcdefg 3
// actual (chibicc): garbage | garbage | garbage 3        (exit 1)
#include <stdio.h>
#include <string.h>
union U { long a; char b[8]; };
union U gu = {.b = "abcdefg"};
struct W { union U u; int k; };
int main(void) {
  union U lu = gu;
  union U lv = (union U){.b = "pqr"};
  struct W w = { gu, 3 };
  printf("%.7s | %.7s | %.7s %d\n", lu.b, lv.b, w.u.b, w.k);
  return !(strcmp(lu.b, "abcdefg") == 0 && strcmp(lv.b, "pqr") == 0 && strcmp(w.u.b, "abcdefg") == 0);
}
