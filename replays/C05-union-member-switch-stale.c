// switching the designated union member and back keeps the stale sub-object: gcc prints "0 2 0 2", chibicc "1 2 1 2"
#include <stdio.h>
struct U { union { char c[4]; int x; } u; };
static struct U g = { .u.c[0]=1, .u.x=5, .u.c[1]=2 };
int main(void) { struct U l = { .u.c[0]=1, .u.x=5, .u.c[1]=2 };
 printf("%d %d %d %d\n", g.u.c[0], g.u.c[1], l.u.c[0], l.u.c[1]); return 0; }
