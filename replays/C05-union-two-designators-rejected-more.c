#include <stdio.h>
union U { int a; char b; int c[2]; };
struct W { union U u; int z; };
static union U g = { .a = 1, .b = 2 };
static union U g2 = { .b = 2, .c = {3, 4}, };
static struct W w = { { .b = 1, .a = 0x305 }, 7 };
int main(void) {
  union U l = { .a = 0x101, .b = 2 };
  union U l2 = { .c = {1, 2}, .a = 9 };
  printf("%d %d %d %d %d %d %d\n", g.b, g2.c[1], w.u.a, w.z, l.b, l2.a, l.a);
  return 0;
}
