#include <stdio.h>
union U { int a; char b; };
static union U g = { .a = 1, .b = 2 };
int main(void) { union U l = { .a = 0x101, .b = 2 }; printf("%d %d\n", g.b, l.b); return 0; }
