// C05 R05.13 (parser): unnamed members of a struct/union do not take part in initialization (C11 6.7.9p9).
// struct_initializer1 / struct_initializer2 advance the positional cursor with `mem = mem->next` and
// union_initializer takes `init->ty->members` as the default member: an unnamed bit-field receives the value,
// every later value lands one member too early (static and automatic objects alike).
// expected (gcc, clang): 1 2 | 1 2 | 1 2 3 | 4 5 | 100, exit 0
// actual (chibicc):      1 0 | 1 0 | 1 3 0 | 5 0 | 4, exit 1
#include <stdio.h>
struct S { int a; int :3; int b; };
struct T { int a; int :0; int b; int :5; int c; };
union U { int :3; int v; };
struct S g = {1, 2};
struct S arr[2] = {1, 2, 4, 5};
int main(void) {
  struct S l = {1, 2};
  struct T t = {1, 2, 3};
  union U u = {100};
  printf("%d %d | %d %d | %d %d %d | %d %d | %d\n", g.a, g.b, l.a, l.b, t.a, t.b, t.c, arr[1].a, arr[1].b, u.v);
  return !(g.b == 2 && l.b == 2 && t.b == 2 && t.c == 3 && arr[1].a == 4 && arr[1].b == 5 && u.v == 100);
}
