#include <stdio.h>
struct P { int a, b; };
union U { struct P p; int k; };
struct S { char s[4]; union U u; int arr[2][2]; };
int main(void) {
  struct S x = { .s[2] = 'x', .s = "a", .u.p.b = 7, .u = { 5 }, .arr[1][1] = 9, .arr[1] = { 3 } };
  struct S y = { .s[2] = 'x', .s = {"a"}, .u.p.b = 7, .u = { .p = { 5 } }, .arr[1][1] = 9, .arr = { 3 } };
  static struct S z = { .s[2] = 'x', .s = "a", .u.p.b = 7, .u = { 5 }, .arr[1][1] = 9, .arr[1] = { 3 } };
  printf("%d %d %d %d\n", x.s[2], x.u.p.b, x.arr[1][1], x.arr[1][0]);
  printf("%d %d %d %d\n", y.s[2], y.u.p.b, y.arr[1][1], y.arr[0][0]);
  printf("%d %d %d %d\n", z.s[2], z.u.p.b, z.arr[1][1], z.arr[1][0]);
  return 0;
}
