struct SL { long a; }; struct SD { double d; }; struct SC3 { char c[3]; }; struct SLL { long a, b; };
long f1(double, double, double, double, double, double, double, double, struct SL s, int i, double d);
long f2(long, long, long, long, long, struct SL s, int i);
long f3(long, long, long, long, long, long, long, struct SD s, int i, double d);
long f4(long a, long b, long c, long d, long e, long f, long g, long double ld, int i);
long f5(long, long, long, long, long, double, double, double, double, double, double, double, double, double, struct SC3 s, int i);
