#include "abi.h"
long f1(double a, double b, double c, double d, double e, double f, double g, double h, struct SL s, int i, double x) { return s.a * 100 + i * 10 + (long)x; }
long f2(long a, long b, long c, long d, long e, struct SL s, int i) { return s.a * 100 + i; }
long f3(long a, long b, long c, long d, long e, long f, long g, struct SD s, int i, double x) { return (long)s.d * 100 + i * 10 + (long)x + g; }
long f4(long a, long b, long c, long d, long e, long f, long g, long double ld, int i) { return (long)ld * 100 + i * 10 + g; }
long f5(long a, long b, long c, long d, long e, double d0, double d1, double d2, double d3, double d4, double d5, double d6, double d7, double d8, struct SC3 s, int i) { return s.c[0] * 100 + s.c[2] * 10 + i + (long)d8; }
