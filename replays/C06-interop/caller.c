#include <stdio.h>
#include "abi.h"
int main() {
  struct SL sl = {7}; struct SD sd = {3.0}; struct SC3 sc = {{4, 5, 6}};
  printf("%ld %ld %ld %ld %ld\n", f1(1,2,3,4,5,6,7,8, sl, 2, 9.0), f2(1,2,3,4,5, sl, 3), f3(1,2,3,4,5,6,1000, sd, 2, 5.0), f4(1,2,3,4,5,6,1000, 7.0L, 2), f5(1,2,3,4,5, 0,1,2,3,4,5,6,7,8.0, sc, 1));
  return 0;
}
