#include <stdio.h>
#include <stdarg.h>
typedef struct { long double x; } L1;
typedef struct { struct { long double x; } in; } L1n;
L1 r1(long double v); L1n r2(long double v); long double f1(L1 a, int b); long double v1(int n, ...);
#ifdef CALLEE
L1 r1(long double v){ L1 r = {v*2}; return r; }
L1n r2(long double v){ L1n r = {{v*3}}; return r; }
long double f1(L1 a, int b){ return a.x + b; }
long double v1(int n, ...){ va_list ap; va_start(ap,n); L1 a = va_arg(ap, L1); int k = va_arg(ap,int); va_end(ap); return a.x + k; }
#else
int main(void){ L1 a={1.5L}; printf("%Lg %Lg %Lg %Lg\n", f1(a,3), r1(2.0L).x, r2(1.0L).in.x, v1(1, a, 7)); return 0; }
#endif
