#include <stdio.h>
struct Big { long a[6]; };
struct Big g(void) { struct Big b = {{1,2,3,4,5,6}}; return b; }
long use(struct Big b) { return b.a[0]*100000 + b.a[1]*10000 + b.a[2]*1000 + b.a[3]*100 + b.a[4]*10 + b.a[5]; }
int main() { printf("%ld\n", use(g())); return 0; }
