#!/bin/bash
# Replay for the C06 findings on aggregates whose class is not "one class per member":
#   struct A16 { _Alignas(16) long x; }            INTEGER + a padding eightbyte (NO_CLASS: takes no register)
#   struct __attribute__((packed)) P { char c; long l; }   unaligned member: MEMORY (psABI 3.2.3 (1))
#   union  W { long double f; long l; }            INTEGER, X87UP -> MEMORY after the merge (post-merger (5b))
# keys: R06.2/R06.6/R06.7/R06.4 ...s_l_pad... and ...s_d_pad..., R06.2/R06.3/R06.6/R06.7/R06.5/R06.4 ...s_pk_cl..., R06.5 ...returns-u_Ll1...
#
# usage: C06-padding-packed-classes.sh <path to a built chibicc binary (scratch copy, never /repo)>
#
# chibicc's has_flonum(ty, 8, 16, 0) is vacuously true for an eightbyte in which no member starts, so a padding eightbyte is passed
# as an SSE register (the floating arguments behind it shift by one %xmm register), the second eightbyte of the packed struct is taken
# for SSE (and a function that has such a parameter kills the compiler: store_fp() of 1 byte is "unreachable"); return values are sent
# to memory by size > 16 only, so union W comes back in %rax:%rdx while a psABI callee wrote through the hidden pointer.
#
# expected (gcc on both sides):    7 2.5 / 345 / 11 / callee compiles
# actual (main by chibicc, lib by gcc): 7 0 / garbage / crash / callee: internal error at codegen.c
set -u
cc=$(realpath "${1:?path to chibicc}")
d=$(mktemp -d)
trap 'rm -rf "$d"' EXIT
cd "$d"
cat > lib.c <<'EOT'
struct A16 { _Alignas(16) long x; };
struct __attribute__((packed)) P { char c; long l; };
union W { long double f; long l; };
double t(struct A16 p, double d) { return d; }
long tx(struct A16 p, double d) { return p.x; }
long u(struct P p, int k) { return p.c * 100 + p.l * 10 + k; }
union W mk(long v) { union W w; w.f = 0; w.l = v; return w; }
EOT
cat > m1.c <<'EOT'
#include <stdio.h>
struct A16 { _Alignas(16) long x; };
double t(struct A16 p, double d);
long tx(struct A16 p, double d);
int main(void) { struct A16 a; a.x = 7; printf("%ld %g\n", tx(a, 2.5), t(a, 2.5)); return 0; }
EOT
cat > m2.c <<'EOT'
#include <stdio.h>
struct __attribute__((packed)) P { char c; long l; };
long u(struct P p, int k);
int main(void) { struct P p; p.c = 3; p.l = 4; printf("%ld\n", u(p, 5)); return 0; }
EOT
cat > m3.c <<'EOT'
#include <stdio.h>
union W { long double f; long l; };
union W mk(long v);
int main(void) { union W w = mk(11); printf("%ld\n", w.l); return 0; }
EOT
cat > callee.c <<'EOT'
struct __attribute__((packed)) P { char c; long l; };
long u(struct P p, int k) { return p.c + p.l + k; }
EOT
gcc -w -c lib.c -o lib.o 2>/dev/null || exit 2
rc=0
for i in 1 2 3; do
  "$cc" -c m$i.c -o m$i.o && gcc m$i.o lib.o -o t$i 2>/dev/null || exit 2
  gcc -w m$i.c lib.o -o g$i 2>/dev/null || exit 2
  got=$(./t$i 2>&1); want=$(./g$i)
  echo "m$i: chibicc caller: ${got:-<crash>}   gcc caller: $want"
  [ "$got" = "$want" ] || rc=1
done
if "$cc" -c callee.c -o callee.o 2>err.txt; then echo "callee compiles"; else echo "callee: $(head -1 err.txt)"; rc=1; fi
exit $rc
