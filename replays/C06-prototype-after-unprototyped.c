// C11 6.2.7p4 / 6.5.2.2p7: once a prototype of f is visible (here: after an
// unprototyped declaration), the arguments of a call are converted to the
// parameter types. Expected (gcc): PASS, exit 0.
#include <stdio.h>

long f();               // no prototype
long f(long x);         // prototype declaration: composite type is long(long)
double g();             // no prototype
double g(double d) { return d; }   // definition with a prototype
long f(long x) { return x; }

int main(void) {
  int bad = 0;
  long a = f(2.5);      // 2.5 -> 2 in %rdi (not 2.5 in %xmm0)
  if (a != 2) { printf("f(2.5) = %ld, expected 2\n", a); bad |= 1; }
  double b = g(3);      // 3 -> 3.0 in %xmm0 (not 3 in %edi)
  if (b != 3.0) { printf("g(3) = %g, expected 3\n", b); bad |= 2; }
  if (!bad) printf("PASS\n");
  return bad;
}
