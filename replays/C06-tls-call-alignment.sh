#!/bin/bash
# Replay for the C06 finding R06.12:codegen.c:gen_addr:global-tls-fpic:call-__tls_get_addr/depth1
# usage: C06-tls-call-alignment.sh <path to a built chibicc binary (scratch copy, never /repo)>
#
# With -fpic the address of a thread-local variable is obtained by `call __tls_get_addr@PLT`. gen_addr emits the call without looking
# at `depth`: in `tv + x` the value of x has been pushed, so %rsp is 8 mod 16 at the call (psABI 3.2.2 requires 16-byte alignment;
# glibc's slow path of __tls_get_addr saves vector registers with aligned stores). The helper is replaced by one that reports the
# alignment it was entered with.
# expected: "aligned aligned"; pinned tree: "aligned MISALIGNED"
set -u
cc=$(realpath "${1:?path to chibicc}")
d=$(mktemp -d)
trap 'rm -rf "$d"' EXIT
cd "$d"
cat > main.c <<'EOT'
#include <stdint.h>
#include <stdio.h>
int f(void); int g(int x);
static int mis;
static int cell = 40;
void *__tls_get_addr(void *p) { if ((uintptr_t)__builtin_frame_address(0) % 16) mis = 1; return &cell; }
int main(void) {
  f(); printf("%s ", mis ? "MISALIGNED" : "aligned"); mis = 0;
  g(2); printf("%s\n", mis ? "MISALIGNED" : "aligned");
  return 0;
}
EOT
cat > lib.c <<'EOT'
_Thread_local int tv;
int f(void) { return tv; }
int g(int x) { return tv + x; }
EOT
# the thread-local accesses must stay general-dynamic: they live in a shared object (in an executable the linker relaxes the call away)
"$cc" -fpic -c lib.c -o lib.o && gcc -shared lib.o -o libt.so 2>/dev/null && gcc -O0 -fno-omit-frame-pointer main.c -L. -lt -Wl,-rpath,"$d" -o t 2>/dev/null || exit 2
out=$(./t); echo "$out"
[ "$out" = "aligned aligned" ]
