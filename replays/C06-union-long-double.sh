#!/bin/bash
# Replay for the known findings of C06 on unions that overlay a long double with other members
# (keys R06.2/R06.3/R06.7 ...:u_Ll-after-0gp-0sse..., R06.4 ...:reg-class/struct-INTEGER-INTEGER,
#  R06.5 ...:returns-u_Ld:...).
#
# usage: C06-union-long-double.sh <path to a built chibicc binary (scratch copy, never /repo)>
#
# psABI 3.2.3 classifies each eightbyte of an aggregate by merging the classes of all members that
# overlap it: X87/X87UP merged with INTEGER is INTEGER (4d), merged with SSE is MEMORY (4e).
#   union U { long double f; long w[2]; }     INTEGER, INTEGER : passed in two general registers
#   union V { long double f; double d[2]; }   MEMORY           : returned through the hidden pointer
# chibicc decides "memory" by has_ldouble() (any long double member) for arguments and by size > 16
# for return values, so it passes U in memory and returns V in %xmm0:%xmm1.
#
# expected (gcc on both sides): 123 / 5 6
# actual on the pinned tree (main.c by chibicc, lib.c by gcc): garbage in both lines.
set -u
cc=$(realpath "${1:?path to chibicc}")
d=$(mktemp -d)
trap 'rm -rf "$d"' EXIT
cd "$d"
cat > lib.c <<'EOT'
union U { long double f; long w[2]; };
union V { long double f; double d[2]; };
long take(union U u, int k) { return u.w[0] * 100 + u.w[1] * 10 + k; }
union V make(double a) { union V v; v.d[0] = a; v.d[1] = a + 1; return v; }
EOT
cat > main.c <<'EOT'
#include <stdio.h>
union U { long double f; long w[2]; };
union V { long double f; double d[2]; };
long take(union U u, int k);
union V make(double a);
int main(void) {
  union U u; u.w[0] = 1; u.w[1] = 2;
  printf("%ld\n", take(u, 3));
  union V v = make(5.0);
  printf("%g %g\n", v.d[0], v.d[1]);
  return 0;
}
EOT
gcc -c lib.c -o lib.o && "$cc" -c main.c -o main.o && gcc main.o lib.o -o t 2>/dev/null || exit 2
out=$(./t)
echo "$out"
[ "$out" = "$(printf '123\n5 6')" ]
