#include <stdarg.h>
#include "t.h"
double sum(int n, ...) {
  va_list ap; va_start(ap, n); double r = 0;
  for (int i = 0; i < n; i++) {
    int k = va_arg(ap, int);
    switch (k) {
    case 0: { S3 s = va_arg(ap, S3); r += s.c[0] + s.c[1]*2 + s.c[2]*3; break; }
    case 1: { SI s = va_arg(ap, SI); r += s.a; break; }
    case 2: { SS s = va_arg(ap, SS); r += s.d; break; }
    case 3: { SID s = va_arg(ap, SID); r += s.a + s.d*2; break; }
    case 4: { SDI s = va_arg(ap, SDI); r += s.d + s.a*2; break; }
    case 5: { SDD s = va_arg(ap, SDD); r += s.d + s.e*2; break; }
    case 6: { SII s = va_arg(ap, SII); r += s.a + s.b*2; break; }
    case 7: { SF3 s = va_arg(ap, SF3); r += s.f[0] + s.f[1]*2 + s.f[2]*3; break; }
    case 8: { SIF s = va_arg(ap, SIF); r += s.i + s.f*2; break; }
    case 9: { SM s = va_arg(ap, SM); r += s.a + s.b*2 + s.c*3; break; }
    case 10: r += va_arg(ap, double); break;
    case 11: r += va_arg(ap, long); break;
    }
  }
  va_end(ap); return r;
}
