#include <stdio.h>
#include "t.h"
int main(void) {
  S3 a={{1,2,3}}; SI b={10}; SS c={0.5}; SID d={3,1.5}; SDI e={2.5,4}; SDD f={1.25,2.25}; SII g={5,6}; SF3 h={{1,2,3}}; SIF i={7,0.5f}; SM m={1,2,3};
  printf("%g\n", sum(10, 0,a, 1,b, 2,c, 3,d, 4,e, 5,f, 6,g, 7,h, 8,i, 9,m));
  printf("%g\n", sum(8, 6,g, 6,g, 6,g, 3,d, 11,100L, 6,g, 1,b, 0,a));          /* gp exhaustion */
  printf("%g\n", sum(9, 5,f, 5,f, 5,f, 5,f, 4,e, 10,9.5, 2,c, 7,h, 3,d));       /* sse exhaustion */
  return 0;
}
