typedef struct { char c[3]; } S3; typedef struct { long a; } SI; typedef struct { double d; } SS; typedef struct { long a; double d; } SID;
typedef struct { double d; long a; } SDI; typedef struct { double d, e; } SDD; typedef struct { long a, b; } SII; typedef struct { float f[3]; } SF3; typedef struct { int i; float f; } SIF;
typedef struct { long a, b, c; } SM;
double sum(int n, ...);
