// Replay for C06 R06.13:include/stdarg.h:va_arg:non-reserved-identifier/klass
//   $cc -o t C06-va-arg-captures-name.c && ./t      expected (gcc): 42; pinned tree: crash / garbage
// va_arg declares a local `klass` inside its statement expression; a va_list of that name in the user's code is captured.
#include <stdarg.h>
#include <stdio.h>
int f(int n, ...) { va_list klass; va_start(klass, n); int r = va_arg(klass, int); va_end(klass); return r; }
int main(void) { printf("%d\n", f(1, 42)); return 0; }
