#include <stdarg.h>
long double v(int n, ...){ va_list ap; va_start(ap,n); long double r=0; int k=va_arg(ap,int); k+=va_arg(ap,int); k+=va_arg(ap,int);k+=va_arg(ap,int);k+=va_arg(ap,int); k+=va_arg(ap,int); r=va_arg(ap,long double); va_end(ap); return r+k; }
int printf(const char*,...);
int main(void){ printf("%Lf\n", v(0,1,2,3,4,5,6,2.5L)); return 0; }
