// va_arg of an aggregate that the caller passes in registers (psABI classes other than MEMORY):
// chibicc's va_arg always looks in the overflow (stack) area. gcc prints 42 1.5 7 2.5 9 3.5 4.5 5 6.5 7 8 ; chibicc prints garbage.
#include <stdarg.h>
int printf(const char *, ...);
typedef struct { long a; } SI;                 // INTEGER
typedef struct { double d; } SS;               // SSE
typedef struct { long a; double d; } SID;      // INTEGER, SSE
typedef struct { double d; long a; } SDI;      // SSE, INTEGER
typedef struct { double d, e; } SDD;           // SSE, SSE
typedef struct { long a, b; } SII;             // INTEGER, INTEGER
void v(int n, ...) {
  va_list ap; va_start(ap, n);
  SI a = va_arg(ap, SI); SS b = va_arg(ap, SS); SID c = va_arg(ap, SID); SDI d = va_arg(ap, SDI); SDD e = va_arg(ap, SDD);
  va_end(ap);
  printf("%ld %g %ld %g %ld %g %g %g\n", a.a, b.d, c.a, c.d, d.a, d.d, e.d, e.e);
}
void w(int n, ...) { va_list ap; va_start(ap, n); SII f = va_arg(ap, SII); va_end(ap); printf("%ld %ld\n", f.a, f.b); }
int main(void) {
  SI a = {42}; SS b = {1.5}; SID c = {7, 2.5}; SDI d = {3.5, 9}; SDD e = {4.5, 6.5}; SII f = {7, 8};
  v(5, a, b, c, d, e);
  w(1, f);
  return 0;
}
