#include <stdio.h>
#include <stdarg.h>
void show(const char *fmt, ...) { va_list ap; va_start(ap, fmt); vprintf(fmt, ap); va_end(ap); }
double sum(double first, int n, ...) { va_list ap; va_start(ap, n); double s = first; for (int i = 0; i < n; i++) s += va_arg(ap, double); va_end(ap); return s; }
int main() { show("%f %f %f %d\n", 1.5, 2.5, 3.5, 7); printf("%g\n", sum(1.0, 9, 1.,2.,3.,4.,5.,6.,7.,8.,9.)); return 0; }
