// Replay for the C06 R06.11 findings: va_start does not describe the state after the NAMED parameters.
//   cc=<scratch chibicc>; $cc -o t C06-va-start-named.c && ./t     (gcc: every line "ok")
// pinned tree: a) 7 instead of 8 (overflow_arg_area always 16(%rbp): named parameters passed in memory are handed out again)
//              b) 0 instead of 5 (a named long double is counted as a vector register)
//              c) 22 instead of 3 (a named two-eightbyte struct is counted as ONE general-purpose register)
//              d) a named struct { double, double } is counted as a general-purpose register and no vector register
//              e) a MEMORY class struct (24 bytes) is counted as a general-purpose register, and is handed out again by va_arg
//              f) a named struct that did not fit into the remaining registers is counted as a register
#include <stdarg.h>
#include <stdio.h>
typedef struct { long a, b; } S2;
typedef struct { double a, b; } D2;
typedef struct { long a, b, c; } L3;
int fa(int a, int b, int c, int d, int e, int f, int g, ...) { va_list ap; va_start(ap, g); int r = va_arg(ap, int); va_end(ap); return r; }
double fb(long double a, ...) { va_list ap; va_start(ap, a); double r = va_arg(ap, double); va_end(ap); return r; }
int fc(S2 s, ...) { va_list ap; va_start(ap, s); int r = va_arg(ap, int); va_end(ap); return r; }
double fd(D2 s, ...) { va_list ap; va_start(ap, s); int i = va_arg(ap, int); double r = va_arg(ap, double); va_end(ap); return r + i; }
int fe(L3 s, int k, ...) { va_list ap; va_start(ap, k); int r = va_arg(ap, int); for (int i = 0; i < 5; i++) r = va_arg(ap, int); va_end(ap); return r; }
int ff(long a, long b, long c, long d, long e, S2 s, ...) { va_list ap; va_start(ap, s); int r = va_arg(ap, int); r = r * 10 + va_arg(ap, int); va_end(ap); return r; }
int main(void) {
  S2 s = {11, 22}; D2 d = {1.5, 2.5}; L3 l = {100, 200, 300};
  int bad = 0;
  int a = fa(1, 2, 3, 4, 5, 6, 7, 8);           printf("a %s (%d)\n", a == 8 ? "ok" : "WRONG", a); bad |= a != 8;
  double b = fb(1.0L, 5.0);                      printf("b %s (%g)\n", b == 5.0 ? "ok" : "WRONG", b); bad |= b != 5.0;
  int c = fc(s, 3);                              printf("c %s (%d)\n", c == 3 ? "ok" : "WRONG", c); bad |= c != 3;
  double dd = fd(d, 4, 8.5);                     printf("d %s (%g)\n", dd == 12.5 ? "ok" : "WRONG", dd); bad |= dd != 12.5;
  int e = fe(l, 1, 2, 3, 4, 5, 6, 7);            printf("e %s (%d)\n", e == 7 ? "ok" : "WRONG", e); bad |= e != 7;
  int f = ff(1, 2, 3, 4, 5, s, 6, 7);            printf("f %s (%d)\n", f == 67 ? "ok" : "WRONG", f); bad |= f != 67;
  return bad;
}
