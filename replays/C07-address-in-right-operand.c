// C07 / C13: an address constant converted to an integer type may be the
// right operand of +: `1 + (long)&x`. gcc accepts both orders and so does
// the generated code; eval2's ND_ADD hands the slot for the symbol to its
// left operand only and rejects this file ("not a compile-time constant").
//   chibicc -o t C07-address-in-right-operand.c && ./t   (expected exit 0)
int x;
int arr[4];
static long left = (long)&x + 1;
static long right = 1 + (long)&x;
static long nested = 2 + (1 + (long)&arr[1]);
int main(void) {
  if (right != left) return 1;
  if (right != (long)&x + 1) return 2;
  if (nested != (long)arr + 7) return 3;
  return 0;
}
