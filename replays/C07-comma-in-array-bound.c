// C07 R07.5: is_const_expr accepts a comma expression by its right operand alone; the left operand (a call) is dropped.
// Build with chibicc, run: prints "0 3", exit 1 (gcc: "1 3", exit 0: the bound is a VLA size expression, f is called).
#include <stdio.h>
int n;
int f(void) { n++; return 0; }
int main(void) {
  int a[(f(),3)];
  printf("%d %d\n", n, (int)(sizeof a / sizeof *a));
  return n != 1;
}
