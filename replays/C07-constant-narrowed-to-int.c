// C07 R07.16: the 64-bit value of a constant expression is narrowed to int by
// its consumer without a range check / diagnostic.
// Build with chibicc, run: prints "1 -2147483648 -1 1 ..." and exits 1.
// gcc (-std=c11 -pedantic-errors rejects the enumerators; as an extension it
// gives A and B an unsigned / long type) prints 4294967297 2147483648 4294967295
// for the first three columns.  The lines under #ifdef CONSTRAINTS are
// constraint violations gcc rejects ("width of 'w' exceeds its type",
// "requested alignment ... is not a positive power of 2"); chibicc accepts
// them silently as width 1, alignment 8 and alignment 16.
#include <stdio.h>
static unsigned long sz = sizeof(char[0x100000001]);
enum { A = 0x80000000, B = 4294967295 };
static long ea = A;
static long eb = B;
#ifdef CONSTRAINTS
struct S { int w : 0x100000001; };
_Alignas(0x100000008) int al;
struct T { char c; } __attribute__((aligned(0x100000010)));
#endif
int main(void) {
  printf("%lu %ld %ld\n", sz, ea, eb);
  return !(sz == 4294967297UL && ea == 2147483648L && eb == 4294967295L);
}
