// Replay for the C07 findings R07.13 (precision of the floating folder): eval_double folds every
// floating constant expression in double, whatever the type of the node is. A node of type float is
// not rounded to float (literal with suffix f, cast to float, + - * / on float operands), a node of
// type long double is cut to double (return type of eval_double).
//
//   /repo/chibicc -o /tmp/c07f replays/C07-floating-precision.c && /tmp/c07f   (prints MISMATCH lines, exit 1)
//   gcc -w -o /tmp/c07g replays/C07-floating-precision.c && /tmp/c07g          (all ok, exit 0)
//
// Each line compares a static initializer (folded at translation time) with the same
// expression computed at run time from volatile operands.
int printf(const char *, ...);

static double num_f = 0.1f;                       // ND_NUM/float: folder keeps the strtold value, run time rounds to float
static double cast_f = (float)0.1;                // ND_CAST/float: folder 0.1 (53 digits), run time 0.100000001490116...
static double cast_f2 = (float)16777217.0;        // ND_CAST/float: folder 16777217, run time 16777216
static double cast_fi = (float)16777217;          // ND_CAST/float, integer operand: folder 16777217, run time 16777216
static double add_f = 16777216.0f + 1.0f;         // ND_ADD/float: folder 16777217, run time (addss) 16777216
static double sub_f = 16777216.0f - 0.5f;         // ND_SUB/float: folder 16777215.5, run time 16777216
static double mul_f = 0.1f * 3.0f;                // ND_MUL/float
static double div_f = 1.0f / 3.0f;                // ND_DIV/float: folder keeps 53 digits of the quotient
static long cast_fl = (long)(float)16777217.0;    // through eval2 ND_CAST: folder 16777217, run time 16777216
static int cmp_f = (float)0.1 == 0.1;             // folder 1, run time 0
static long double num_ld = 0.1L;                 // return type double: folder 0.1 with 53 digits, run time 64 digits
static long double div_ld = 1.0L / 3.0L;          // likewise
static long double cast_ld = (long double)9223372036854775807L;   // folder 2^63, run time 2^63-1
static long cast_ldl = (long)9223372036854775807.0L;              // folder LONG_MIN (2^63 does not fit), run time LONG_MAX
static int cmp_ld = 0.1L == 0.1;                  // folder 1 (both cut to double), run time 0

int main(void) {
  volatile double d01 = 0.1, d16 = 16777217.0, d16b = 16777216.0;
  volatile float f01 = 0.1f, f16 = 16777216.0f, f1 = 1.0f, fh = 0.5f, f3 = 3.0f;
  volatile int i16 = 16777217;
  volatile long lmax = 9223372036854775807L;
  volatile long double l01 = 0.1L, l1 = 1.0L, l3 = 3.0L, lbig = 9223372036854775807.0L;
  int bad = 0;
#define CHECK(name, cond) do { if (!(cond)) { printf("MISMATCH %s\n", name); bad = 1; } } while (0)
  CHECK("num_f: static double d = 0.1f", num_f == (double)f01);
  CHECK("cast_f: (float)0.1", cast_f == (double)(float)d01);
  CHECK("cast_f2: (float)16777217.0", cast_f2 == (double)(float)d16);
  CHECK("cast_fi: (float)16777217", cast_fi == (double)(float)i16);
  CHECK("add_f: 16777216.0f + 1.0f", add_f == (double)(f16 + f1));
  CHECK("sub_f: 16777216.0f - 0.5f", sub_f == (double)(f16 - fh));
  CHECK("mul_f: 0.1f * 3.0f", mul_f == (double)(f01 * f3));
  CHECK("div_f: 1.0f / 3.0f", div_f == (double)(f1 / f3));
  CHECK("cast_fl: (long)(float)16777217.0", cast_fl == (long)(float)d16);
  CHECK("cmp_f: (float)0.1 == 0.1", cmp_f == ((float)d01 == d01));
  CHECK("num_ld: static long double x = 0.1L", num_ld == l01);
  CHECK("div_ld: 1.0L / 3.0L", div_ld == l1 / l3);
  CHECK("cast_ld: (long double)9223372036854775807L", cast_ld == (long double)lmax);
  CHECK("cast_ldl: (long)9223372036854775807.0L", cast_ldl == (long)lbig);
  CHECK("cmp_ld: 0.1L == 0.1", cmp_ld == (l01 == d01));
  (void)d16b;
  if (!bad)
    printf("all ok\n");
  return bad;
}
