// C07 R07.15: a floating value of at least 2^63 converted to unsigned long by the folder
// (explicit cast: eval2 ND_CAST; implicit: write_gvar_data) goes through int64_t on the host.
// Build with chibicc and with gcc, run: chibicc prints 9223372036854775808 for u1, u2, u4, u5; exit status 1.
#include <stdio.h>
static unsigned long u1 = (unsigned long)1.2e19;
static unsigned long u2 = 1.2e19;
static unsigned long u3 = (unsigned long)9223372036854775808.0;
static unsigned long u4 = (unsigned long)1.2e19L;
static unsigned long u5 = (unsigned long)1.2e19f;
static unsigned long a[(unsigned long)1.2e19 == 12000000000000000000UL ? 1 : 2];
int main(void) {
  double d = 1.2e19, d2 = 9223372036854775808.0;
  long double ld = 1.2e19L;
  float f = 1.2e19f;
  unsigned long r1 = (unsigned long)d, r2 = d, r3 = (unsigned long)d2, r4 = (unsigned long)ld, r5 = (unsigned long)f;
  printf("%lu %lu\n%lu %lu\n%lu %lu\n%lu %lu\n%lu %lu\n%lu\n", u1, r1, u2, r2, u3, r3, u4, r4, u5, r5, sizeof a / sizeof *a);
  return !(u1 == r1 && u2 == r2 && u3 == r3 && u4 == r4 && u5 == r5 && sizeof a == sizeof *a);
}
