// Replay for the C07 known findings R07.1 (>>), R07.2 (results not reduced to the node type,
// casts to _Bool and to 32-bit signed types), R07.3 (mixed-sign conditional) and R07.6
// (floating operands of integer-typed nodes) and R07.8 (eval_double ND_CAST of an unsigned 64-bit operand).
//
//   /repo/chibicc -o /tmp/c07 replays/C07-folder-vs-runtime.c && /tmp/c07     (prints MISMATCH lines, exit 1)
//   gcc -w -o /tmp/c07g replays/C07-folder-vs-runtime.c && /tmp/c07g           (all ok, exit 0)
//
// Each line compares a static initializer (folded at translation time) with the same
// expression computed at run time from volatile operands.
int printf(const char *, ...);

unsigned r071_shr = ~0u >> 1;              // R07.1 ND_SHR: folder 0xffffffff, run time 0x7fffffff
long r072_add = 4294967295u + 1;           // R07.2 ND_ADD: folder 4294967296, run time 0
long r072_sub = 0u - 1;                    // R07.2 ND_SUB: folder -1, run time 4294967295
long r072_mul = 65536u * 65536u;           // R07.2 ND_MUL: folder 4294967296, run time 0
long r072_neg = -1u;                       // R07.2 ND_NEG: folder -1, run time 4294967295
long r072_not = ~0u;                       // R07.2 ND_BITNOT: folder -1, run time 4294967295
long r072_shl = 0x80000000u << 1;          // R07.2 ND_SHL: folder 4294967296, run time 0
int r072_bool = (_Bool)256;                // R07.2 ND_CAST/bool: folder 0, run time 1
int r072_bool2 = (_Bool)2;                 // R07.2 ND_CAST/bool: folder 2, run time 1
long r073_cast = -1 + 0;                   // R07.2 ND_CAST/s32 = R07.3: folder 4294967295, run time -1
int r076_lt = 1.5 < 1.7;                   // R07.6: folder 0, run time 1
int r076_le = 1.7 <= 1.5;                  // folder 1, run time 0
int r076_eq = 1.5 == 1.7;                  // folder 1, run time 0
int r076_ne = 1.5 != 1.7;                  // folder 0, run time 1
int r076_not = !0.5;                       // folder 1, run time 0
int r076_and = 0.5 && 1;                   // folder 0, run time 1
int r076_or = 0.5 || 0;                    // folder 0, run time 1
int r076_cond = 0.5 ? 1 : 2;               // folder 2, run time 1
int r076_castbool = (_Bool)0.5;            // R07.6 ND_CAST to _Bool: folder 0, run time 1
double r078_dcast = (double)9223372036854775808UL;   // R07.8 eval_double ND_CAST: folder -9.2e18, run time 9.2e18

#if -1 + 0 < 0
int r073_pp = 1;
#else
int r073_pp = 0;                           // R07.3 through #if: the preprocessor takes this branch
#endif

static int bad;
static void chk(const char *what, long folded, long runtime) {
  if (folded != runtime) {
    printf("MISMATCH %-28s folded %ld, run time %ld\n", what, folded, runtime);
    bad = 1;
  } else
    printf("ok       %-28s %ld\n", what, folded);
}

int main(void) {
  volatile unsigned u0 = 0, u1 = 1, umax = 4294967295u, u64k = 65536u, uhi = 0x80000000u;
  volatile int m1 = -1, i0 = 0, i256 = 256, i2 = 2;
  volatile unsigned long big = 9223372036854775808UL;
  volatile double a = 1.5, b = 1.7, h = 0.5;
  chk("~0u >> 1", r071_shr, ~u0 >> 1);
  chk("4294967295u + 1", r072_add, (long)(umax + u1));
  chk("0u - 1", r072_sub, (long)(u0 - u1));
  chk("65536u * 65536u", r072_mul, (long)(u64k * u64k));
  chk("-1u", r072_neg, (long)(-u1));
  chk("~0u", r072_not, (long)(~u0));
  chk("0x80000000u << 1", r072_shl, (long)(uhi << 1));
  chk("(_Bool)256", r072_bool, (_Bool)i256);
  chk("(_Bool)2", r072_bool2, (_Bool)i2);
  chk("-1 + 0 as long", r073_cast, (long)(m1 + i0));
  chk("#if -1 + 0 < 0", r073_pp, 1);
  chk("1.5 < 1.7", r076_lt, a < b);
  chk("1.7 <= 1.5", r076_le, b <= a);
  chk("1.5 == 1.7", r076_eq, a == b);
  chk("1.5 != 1.7", r076_ne, a != b);
  chk("!0.5", r076_not, !h);
  chk("0.5 && 1", r076_and, h && 1);
  chk("0.5 || 0", r076_or, h || 0);
  chk("0.5 ? 1 : 2", r076_cond, h ? 1 : 2);
  chk("(_Bool)0.5", r076_castbool, (_Bool)h);
  chk("(double)9223372036854775808UL > 0", r078_dcast > 0, (double)big > 0);
  return bad;
}
