#include <stdio.h>
long g = -1 + 0;
long h = (int)-5;
unsigned long u = (unsigned)-1;
#if -1 + 0 < 0
int pp = 1;
#else
int pp = 0;
#endif
int main() { printf("%ld %ld %lu %d\n", g, h, u, pp); return 0; }
