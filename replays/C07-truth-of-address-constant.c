// C07 / C13: where address constants are allowed (static initializers) the
// truth value of one is 1: the address of an object is not null (C11
// 6.3.1.2, 6.6p7/p9). gcc and clang accept every line and the program exits
// 0; chibicc folds the operand without a slot for its symbol.
// (gcc 12 refuses `_Bool b = &x;` when a `(_Bool)&x` initializer precedes it in
// the file, hence the order below.) chibicc rejects the first of them with "not a compile-time constant".
//   chibicc -o t C07-truth-of-address-constant.c && ./t   (expected exit 0)
int x;
int arr[3];
static _Bool b2 = &x;
static _Bool b3 = arr;
static _Bool b1 = (_Bool)&x;
static int n1 = !&x;
static int n2 = &x && 1;
static int n3 = 0 || &x;
static int n4 = &x ? 2 : 3;
int main(void) {
  if (b1 != 1 || b2 != 1 || b3 != 1) return 1;
  if (n1 != 0 || n2 != 1 || n3 != 1 || n4 != 2) return 2;
  return 0;
}
