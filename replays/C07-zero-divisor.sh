#!/bin/bash
# Replay for the C07 known findings R07.4 (zero divisor in the constant folder) and
# R07.5 (ND_MOD missing from is_const_expr).
#   replays/C07-zero-divisor.sh [path-to-chibicc]      (default /repo/chibicc)
# Expected (gcc): every input is answered with a diagnostic / compiles; no signal.
# Actual on the pinned tree: cc1 dies with SIGFPE (exit 136) resp. SIGSEGV (exit 139).
cc=${1:-/repo/chibicc}
d=$(mktemp -d); trap 'rm -rf "$d"' EXIT
rc=0
try() {   # try <label> <source text>
  printf '%b' "$2" > "$d/z.c"
  "$cc" -cc1 -cc1-input "$d/z.c" -cc1-output "$d/z.s" "$d/z.c" >"$d/out" 2>&1
  r=$?
  if [ $r -ge 128 ]; then echo "CRASH   signal $((r-128))  $1"; rc=1
  else echo "ok      exit $r      $1"; fi
}
try 'int x = 1/0;            (R07.4 ND_DIV signed)'    'int x = 1/0;\n'
try 'unsigned x = 1u/0;      (R07.4 ND_DIV unsigned)'  'unsigned x = 1u/0;\n'
try 'int x = 1%0;            (R07.4 ND_MOD signed)'    'int x = 1%0;\n'
try 'unsigned long x=5ul%0;  (R07.4 ND_MOD unsigned)'  'unsigned long x = 5ul%0;\n'
try 'enum { A = 1/0 };       (R07.4 via enumerator)'   'enum { A = 1/0 };\n'
try '#if 1/0                 (R07.4 via #if)'          '#if 1/0\n#endif\n'
try 'int a[7%4]; sizeof(a)   (R07.5 ND_MOD not const)' 'int a[7%4];\nint f(void) { return sizeof(a); }\n'
# (without the sizeof the pinned tree silently emits `.comm a, 8, 8`: an 8-byte VLA slot instead of 12 bytes)
exit $rc
