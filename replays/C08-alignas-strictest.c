// C11 6.7.5p6: with several alignment specifiers in one declaration the
// strictest one decides. chibicc HEAD lets the last one win.
//   chibicc -o t C08-alignas-strictest.c && ./t     vs gcc
// gcc/clang:  A 16 8 8 / B 16 8 8 / g 0
// chibicc:    A 8 4 4  / B 16 8 8 / g (address of g) % 8, may be non-zero
#include <stddef.h>
int printf(const char *, ...);
struct A { char a; _Alignas(8) _Alignas(4) char c; };
struct B { char a; _Alignas(4) _Alignas(8) char c; };
char pad = 1;
_Alignas(long) _Alignas(1) char g = 2;
int main(void) {
  printf("A %d %d %d\n", (int)sizeof(struct A), (int)_Alignof(struct A), (int)offsetof(struct A, c));
  printf("B %d %d %d\n", (int)sizeof(struct B), (int)_Alignof(struct B), (int)offsetof(struct B, c));
  printf("g %d\n", (int)((unsigned long)&g % 8));
  return 0;
}
