// C11 6.5.3.4p3: _Alignof applied to an array type yields the alignment of
// the element type; that holds for variable-length array types as well.
// chibicc HEAD yields 8 for every VLA type: the align field of a TY_VLA type
// object describes the pointer-sized slot that holds the array's address.
//   chibicc -o t C08-alignof-vla.c && ./t     vs gcc
// gcc/clang:  T 4 1 16 4 / E 4 2
// chibicc:    T 8 8 8 8  / E 8 8
int printf(const char *, ...);
int main(int argc, char **argv) {
  int n = argc + 2;
  int vla[n];
  short vla2[n][n];
  printf("T %d %d %d %d\n", (int)_Alignof(int[n]), (int)_Alignof(char[n]), (int)_Alignof(long double[n]), (int)_Alignof(int[n][3]));
  printf("E %d %d\n", (int)_Alignof(vla), (int)_Alignof(vla2));
  return 0;
}
