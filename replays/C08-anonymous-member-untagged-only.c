// C08 R08.3 struct_members:anonymous-member/untagged-specifier-only
// An anonymous member is a declaration without declarator whose specifier is a struct/union specifier WITHOUT tag
// (C11 6.7.2.1p13). A tagged specifier only declares its tag, a typedef name without declarator declares nothing.
// gcc prints "4 0 4 0 8 4"; chibicc prints "8 4 8 4 8 4" (the first two pairs are wrong).
// Recipe: chibicc -o t C08-anonymous-member-untagged-only.c && ./t ; gcc -w -o g C08-anonymous-member-untagged-only.c && ./g
int printf(const char *, ...);
struct O { struct In { int a; }; int b; };
typedef struct { int a; } T;
struct O2 { T; int b; };
struct O3 { struct { int a; }; int b; };   // a real anonymous member: 8 4 for both compilers
int main(void) {
  printf("%d %d %d %d %d %d\n", (int)sizeof(struct O), (int)(long)&((struct O *)0)->b, (int)sizeof(struct O2), (int)(long)&((struct O2 *)0)->b,
         (int)sizeof(struct O3), (int)(long)&((struct O3 *)0)->b);
  return 0;
}
