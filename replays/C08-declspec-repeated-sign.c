// C08 / R08.1: a repeated `signed` / `unsigned` is not counted (declspec ORs the flag in), so
// specifier lists that C11 6.7.2p2 does not allow are accepted silently.
// gcc -std=c11: "error: duplicate 'signed'" / "duplicate 'unsigned'" for each line; chibicc: exit 0.
signed signed int a;
unsigned long unsigned b;
signed char signed c;
unsigned short int unsigned d;
int main(void) { return 0; }
