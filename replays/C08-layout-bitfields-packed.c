// C08 / R08.3 known findings: layouts where chibicc differs from gcc (x86-64 psABI).
// Build with both compilers and compare:   ./chibicc -o a this.c && ./a ; gcc -std=c11 -w -o b this.c && ./b
// (no libc header is included on purpose: glibc's <sys/cdefs.h> defines __attribute__ away
//  for non-GNU compilers, which would hide the packed cases)
// Expected (gcc 2/1, 4/1, 4/1 ...) is printed next to each line as a comment below.
int printf(const char *, ...);
#define P(T) printf(#T " size %d align %d\n", (int)sizeof(T), (int)_Alignof(T))
typedef struct { char c; int :3; } A;                                   // gcc 2/1   chibicc 4/4  unnamed bit-field raises struct alignment
typedef struct { char a; short :9; } D;                                 // gcc 4/1   chibicc 4/2  same, bit-field that crosses its unit
typedef struct { char c; int :0; } C;                                   // gcc 4/1   chibicc 4/4  zero-width bit-field raises struct alignment
typedef struct __attribute__((packed)) { int a:3; char c; } PK1;        // gcc 2/1, c at 1   chibicc c at 0 (overlaps a)
typedef struct __attribute__((packed)) { char a; int b:30; } PK2;       // gcc 5/1   chibicc 8/1  packed bit-field is re-aligned to its unit
typedef struct __attribute__((packed)) { char a; int :30; } PK2U;       // gcc 5/1   chibicc 8/1
typedef union __attribute__((packed)) { int i; char c; } PU1;           // gcc 4/1   chibicc 4/4  union ignores packed
typedef struct { char a; PU1 u; } SPU1;                                 // gcc 5/1   chibicc 8/4
typedef union __attribute__((packed)) { char c; int x:3; } PU2;         // gcc 1/1   chibicc 4/4
typedef union { char c; int :17; } U3;                                  // gcc 3/1   chibicc 4/4  unnamed bit-field counts as a full int
typedef union __attribute__((packed)) { char c; int :17; } PU3;         // gcc 3/1   chibicc 4/4
typedef union { char c; int :0; } V;                                    // gcc 1/1   chibicc 4/4
typedef union __attribute__((packed)) { char c; int :0; } PV;           // gcc 1/1   chibicc 4/4
int main(void) {
  P(A); P(D); P(C);
  P(PK1); printf("PK1.c off %d\n", (int)(long)&((PK1 *)0)->c);
  PK1 x = {0}; x.a = 3; x.c = 0; printf("PK1 a after c=0: %d\n", x.a);
  P(PK2); P(PK2U); P(PU1); P(SPU1); P(PU2); P(U3); P(PU3); P(V); P(PV);
  return 0;
}
