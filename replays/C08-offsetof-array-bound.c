// C08 R08.5 include/stddef.h:offsetof:integer-constant-expression (root cause shared with C07: is_const_expr() is narrower than eval())
//   ./chibicc -o a C08-offsetof-array-bound.c && ./a
// C11 7.19p3: offsetof expands to an integer constant expression, so it is a valid bound of an array with static storage duration.
// gcc:     g 4 s 8 l 4   (exit 0)
// chibicc: the compiler crashes (cc1: SIGSEGV, driver exit 1): is_const_expr() rejects (size_t)&((T *)0)->m, array_dimensions()
//          builds a VLA type, global_variable() accepts it, and sizeof reads the VLA's size variable, which does not exist.
//          Without the sizeof uses the translation "succeeds" and `gbuf` is emitted as `.comm gbuf, 8, 8` (a pointer slot, not char[4]).
#include <stddef.h>
#include <stdio.h>
struct S { char c; int m; long z; };
char gbuf[offsetof(struct S, m)];
int main(void) {
  static char sbuf[offsetof(struct S, z)];
  char lbuf[offsetof(struct S, m)];
  printf("g %d s %d l %d\n", (int)sizeof gbuf, (int)sizeof sbuf, (int)sizeof lbuf);
  return !(sizeof gbuf == 4 && sizeof sbuf == 8 && sizeof lbuf == 4);
}
