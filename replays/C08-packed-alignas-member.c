// gcc/clang: __attribute__((packed)) removes the padding a member's *type*
// asks for; an explicit _Alignas on a member is still honoured (placement and
// alignment of the enclosing type). chibicc HEAD ignores it in packed types.
// Do not include glibc headers: <sys/cdefs.h> defines __attribute__ away
// when __GNUC__ is not defined.
//   chibicc -o t C08-packed-alignas-member.c && ./t     vs gcc
// gcc:      P 8 4 4 | R 16 4 4 8 12 | S 16 8 8 9 | AN 16 8 8 12 | U 4 4 | UA 8 8
// chibicc:  P 5 1 1 | R 10 1 1 5 9  | S 6 1 1 2  | AN 6 1 1 5   | U 2 1 | UA 4 1
#include <stddef.h>
int printf(const char *, ...);
struct __attribute__((packed)) P { char a; _Alignas(4) int b; };
struct __attribute__((packed)) R { char a; _Alignas(4) int b; int c; char d; };
struct __attribute__((packed)) S { char a; _Alignas(8) char b; int c; };
struct __attribute__((packed)) AN { char a; _Alignas(8) struct { int x; }; char z; };
union __attribute__((packed)) U { char a; _Alignas(4) short b; };
union __attribute__((packed)) UA { char a; _Alignas(8) struct { int x; }; };
int main(void) {
  printf("P %d %d %d\n", (int)sizeof(struct P), (int)_Alignof(struct P), (int)offsetof(struct P, b));
  printf("R %d %d %d %d %d\n", (int)sizeof(struct R), (int)_Alignof(struct R), (int)offsetof(struct R, b), (int)offsetof(struct R, c), (int)offsetof(struct R, d));
  printf("S %d %d %d %d\n", (int)sizeof(struct S), (int)_Alignof(struct S), (int)offsetof(struct S, b), (int)offsetof(struct S, c));
  printf("AN %d %d %d %d\n", (int)sizeof(struct AN), (int)_Alignof(struct AN), (int)offsetof(struct AN, x), (int)offsetof(struct AN, z));
  printf("U %d %d\n", (int)sizeof(union U), (int)_Alignof(union U));
  printf("UA %d %d\n", (int)sizeof(union UA), (int)_Alignof(union UA));
  return 0;
}
