#include <stdio.h>
struct P { int a; char b; };
int main(void) {
  int n = 0;
  unsigned long a = sizeof (int[]){1,2,3};
  unsigned long b = sizeof (struct P){1,2};
  unsigned long c = sizeof (int[]){1,2,3}[0];
  unsigned long d = sizeof (char[]){n++, 2};
  unsigned long e = sizeof(int[4]);
  unsigned long f = sizeof((int[]){1,2});
  printf("%lu %lu %lu %lu %lu %lu %d\n", a, b, c, d, e, f, n);
  return !(a == 12 && b == 8 && c == 4 && d == 2 && e == 16 && f == 8 && n == 0);
}
