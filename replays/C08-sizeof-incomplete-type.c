// C08 R08.4 primary:sizeof-type/incomplete-operand-diagnosed, primary:sizeof-expr/incomplete-operand-diagnosed
// sizeof shall not be applied to an incomplete type (C11 6.5.3.4p1). chibicc accepts every line below and yields the
// negative size marker as an unsigned long; gcc -std=c11 rejects the first four ("invalid application of 'sizeof' to incomplete type").
// Recipe: chibicc -o t C08-sizeof-incomplete-type.c && ./t   -> prints "-4 -1 -1 -4 -4" (exit 0); gcc -std=c11 -c: 4 errors (the last operand is valid C: gcc 20).
// The last one is a valid program in ISO C (the composite type of a is int[5], gcc: 20): chibicc gives each redeclaration
// an object and a type of its own, the later incomplete one shadows the complete one (see C04/C05).
int printf(const char *, ...);
extern int e[];
struct S;
extern struct S s;
int a[5];
int a[];
int main(void) {
  printf("%ld %ld %ld %ld %ld\n", (long)sizeof e, (long)sizeof(struct S), (long)sizeof s, (long)sizeof(int[]), (long)sizeof a);
  return 0;
}
