// C08 R08.5: predefined __SIZEOF_LONG_DOUBLE__ vs sizeof(long double) (psABI: 16)
//   ./chibicc -o a C08-sizeof-long-double-macro.c && ./a
// gcc:     macro 16 sizeof 16 buf_ok 1
// chibicc: macro 8 sizeof 16 buf_ok 0   (before the fix)
#include <stdio.h>
#include <string.h>
int main(void) {
  unsigned char buf[__SIZEOF_LONG_DOUBLE__];
  printf("macro %d sizeof %d buf_ok %d\n", (int)__SIZEOF_LONG_DOUBLE__, (int)sizeof(long double), sizeof buf >= sizeof(long double));
  return 0;
}
