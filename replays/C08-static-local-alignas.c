// C08 / R08.4: _Alignas on a block-scope static object is dropped (declaration() creates the
// object with new_anon_gvar() and never copies attr->align).
// gcc prints "0 0"; chibicc prints non-zero remainders (the objects get .align 1).
int printf(const char *, ...);
int main(void) {
  static char pad0 = 1;
  static _Alignas(64) char a = 1;
  static char pad1 = 1;
  static _Alignas(64) char b = 1;
  printf("%d %d\n", (int)((unsigned long)&a % 64), (int)((unsigned long)&b % 64));
  return pad0 + pad1 - 2;
}
