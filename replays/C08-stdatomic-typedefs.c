// C08 R08.5: typedefs of <stdatomic.h> vs the platform's (gcc's <stdatomic.h> + glibc <stdint.h> on x86-64):
// int_fast16_t / int_fast32_t are long (8 bytes), wchar_t is int (signed).
//   ./chibicc -o a C08-stdatomic-typedefs.c && ./a      (and the same with gcc)
// gcc:     fast16 8 8  fast32 8 8  slot 24 16  wchar_neg 1  consistent 1 1
// chibicc: fast16 2 2  fast32 4 4  slot 8 4    wchar_neg 0  consistent 0 0   (before the fix)
#include <stdatomic.h>
#include <stdint.h>
#include <stddef.h>
#include <stdio.h>
struct slot { char tag; atomic_int_fast16_t a; atomic_uint_fast32_t b; };
int main(void) {
  atomic_wchar_t w = -1;
  printf("fast16 %d %d  fast32 %d %d  slot %d %d  wchar_neg %d  consistent %d %d\n",
         (int)sizeof(atomic_int_fast16_t), (int)sizeof(atomic_uint_fast16_t),
         (int)sizeof(atomic_int_fast32_t), (int)sizeof(atomic_uint_fast32_t),
         (int)sizeof(struct slot), (int)offsetof(struct slot, b), w < 0,
         sizeof(atomic_int_fast16_t) == sizeof(int_fast16_t), sizeof(atomic_uint_fast32_t) == sizeof(uint_fast32_t));
  return 0;
}
