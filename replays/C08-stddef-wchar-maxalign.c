// C08 / R08.5: include/stddef.h disagrees with the compiler's own wide literal type and with the psABI.
// gcc prints "1 1 32 16"; chibicc prints "0 1 8 8".
#include <stddef.h>
int printf(const char *, ...);
int main(void) {
  printf("%d %d %d %d\n", (int)((wchar_t)-1 < 0), (int)((__typeof__(L'x'))-1 < 0),
         (int)sizeof(max_align_t), (int)_Alignof(max_align_t));
  return 0;
}
