// C11 6.10.3.1: an argument is completely macro replaced before it is substituted - once, however
// often the parameter occurs. Visible through __COUNTER__ (gcc, clang: the identifier made by UNIQ
// is ONE name inside ONCE; this is how the Linux kernel's __UNIQUE_ID is passed to __cmp_once).
// gcc -E:     { 0, 0 }   and the program compiles, exit status 0
// chibicc -E: { 0, 1 }   and `t_1 undefined variable` (t_2 declared, t_3 and t_4 used)
#define D(x) x, x
int d[] = { D(__COUNTER__) };
#define CAT_(a, b) a##b
#define CAT(a, b) CAT_(a, b)
#define UNIQ(p) CAT(p, __COUNTER__)
#define ONCE(x, u) ({ int u = (x); u + u; })
int main(void) { return ONCE(2, UNIQ(t_)) - 4; }
