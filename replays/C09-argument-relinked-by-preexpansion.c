// chibicc -E: a 42 "a 42"   gcc -E: a 42 "a M"
// preprocess2(arg->tok) links the argument's own tokens into its result, so the
// later #x stringizes the expanded list (C11 6.10.3.2: # takes the argument as written).
#define M 42
#define H(x) x #x
H(a M)
