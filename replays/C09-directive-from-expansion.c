// chibicc -E: "5"   gcc -E: "# define Q 5 / Q"
// C11 6.10.3.4p3: the result of macro replacement is not processed as a directive
// even if it resembles one. Also: EMPTY # define R 3 (text, not a directive).
#define HASH #
HASH define Q 5
Q
#define EMPTY
EMPTY # define R 3
R
