// chibicc -E: "int a; #define Y 2 / int b = Y;"   gcc -E: "int a; / int b = 2;"
// A macro that expands to nothing at the end of a line: the flags of the macro token are
// written into the token after it (the # of the next line loses at_bol), the directive is
// taken for text and Y stays undefined. Same for FE() (function-like).
#define EMPTY
#define FE()
int a; EMPTY
#define Y 2
int b = Y; FE()
#define Z 3
int c = Z;
