// C09 R09.9: a line break between the tokens of a macro argument is ordinary white space
// (C11 6.10.3p10) and becomes one space in the string made by # (6.10.3.2p2). tokenize()
// records it as at_bol only (has_space = false), read_macro_arg_one copies the token
// unchanged and join_tokens() looks at has_space only, so the space is lost.
// Replay:  chibicc -o t replays/C09-newline-in-stringized-argument.c && ./t ; echo $?
//   expected (gcc): 0, prints "a +b" / "x - y"      actual (chibicc, pinned tree): 1, prints "a+b" / "x- y"
#include <stdio.h>
#include <string.h>
#define S(x) #x
int main(void) {
  const char *p = S(a
+b);
  const char *q = S(x // comment
- y);
  printf("%s\n%s\n", p, q);
  return strcmp(p, "a +b") != 0 || strcmp(q, "x - y") != 0;
}
