// chibicc -E: a ## b / x ## 1 ## y     gcc -E: ab / x1y
// C11 6.10.3.3p3: ## is applied in object-like macros too
#define CAT a ## b
CAT
#define C2 x ## 1 ## y
C2
