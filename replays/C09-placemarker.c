// C11 6.10.3.3p2-3, 6.10.3.5 EXAMPLE 5: an empty argument as operand of ## is a placemarker.
// gcc -E:   int j[] = { 123, 45, 67, 89, 10, 11, 12, };  /  A 12  /  1
// chibicc:  "'##' cannot appear at start of macro expansion" for t(,,12) and t(,,);
//           u(,,12) gives A12 (the unrelated token A is pasted with 12);
//           G(1) is rejected the same way (a __VA_OPT__ that yields nothing is a placemarker)
#define t(x,y,z) x ## y ## z
int j[] = { t(1,2,3), t(,4,5), t(6,,7), t(8,9,), t(10,,), t(,11,), t(,,12), t(,,) };
#define u(x,y,z) A x ## y ## z
u(,,12)
#define G(a,...) __VA_OPT__(q) ## a
G(1)
