// chibicc: int a = 1+ 5; "1+ 5" "0x+ 5"     gcc -E: int a = 1_000; "1_000" "0x_000"
// C11 6.4.8: a pp-number continues over identifier-nondigits (underscore); chibicc ends it
// there, so the rest is an identifier that may be a macro name (the invalid constant 1_000
// silently compiles as 1 + 5).
#define _000 + 5
#define S(x) #x
#define XS(x) S(x)
int a = 1_000;
char *s = XS(1_000);
char *t = XS(0x_000);
