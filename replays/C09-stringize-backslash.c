// C11 6.10.3.2p2: # inserts a \ before each " and \ of a string literal or character constant of the
// operand - and nowhere else.
// gcc -E:     { "\n", "a\b", "\x41 \"\\\\\"" "L'\\0' u8\"q\\\"\""
// chibicc -E: { "\\n", "a\\b", "\\x41 \"\\\\\"" "L'\\0' u8\"q\\\"\""
// compiled: exit status 0 with gcc, 1 with chibicc (the string has two characters, \ and n)
#define S(x) #x
const char *s[] = { S(\n), S(a\b), S(\x41 "\\"), S(L'\0' u8"q\"") };
int main(void) { return S(\n)[0] != 10 || sizeof(S(\n)) != 2; }
