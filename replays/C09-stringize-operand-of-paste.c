// C11 6.10.3.2p2 / 6.10.3.3: `# parameter` is replaced by ONE string literal; when it
// stands right of ##, that literal is the operand of ## (gcc and clang agree).
//   chibicc -E: line 1 is rejected with "pasting forms 'L#', an invalid token";
//               line 2 alone gives `# b`
//   gcc -E -P : L"a"  and  "b"
#define F(x, y) x ## #y
#define G(x, y) x ## #y
const void *p = F(L, a);
const char *q = G(, b);
