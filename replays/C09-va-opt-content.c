// chibicc -E: a / a a x / a ## a y / __VA_ARGS__ y     gcc -E: 1 / 1 1 x / 11 y / 2 y
// the tokens inside __VA_OPT__( ) are not parameter-substituted
#define F(a,...) __VA_OPT__(a)
F(1,2)
#define G(a,...) __VA_OPT__(a a) x
G(1,2)
#define L(a,...) __VA_OPT__(a ## a) y
L(1,2)
#define N(a,...) __VA_OPT__(__VA_ARGS__) y
N(1,2)
