// GNU named variadic parameter with __VA_OPT__ (gcc and clang accept it; gcc warns with -pedantic only).
// gcc -E:     1 a 2 / 1 / x 3
// chibicc -E: 1 2 / 1 / 3        (has_varargs() looks for an argument NAMED __VA_ARGS__)
#define F2(x, r...) x __VA_OPT__(a) r
F2(1,2)
F2(1)
#define F3(r...) __VA_OPT__(x) r
F3(3)
