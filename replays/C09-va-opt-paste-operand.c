// C23 6.10.4.1 (gcc/clang in every mode): a __VA_OPT__( ) group is one operand of ##.
// gcc -E:     pa / p / a / pa b c / k a / k q2
// chibicc -E: p__VA_OPT__(a) / p__VA_OPT__(a) / __VA_OPT__(a) / p__VA_OPT__(a b) c / ka / k q2
//   (the name __VA_OPT__ is pasted / copied as an ordinary token when the group is the RIGHT operand;
//    a group that vanishes as the LEFT operand lets ## paste the token before the group)
#define F5(x, ...) x ## __VA_OPT__(a)
F5(p,1)
F5(p)
F5(,1)
#define G3(x, ...) x ## __VA_OPT__(a b) c
G3(p,1)
#define G(x, ...) x __VA_OPT__(q) ## a
G(k)
#define H(x, ...) x __VA_OPT__(q) ## __VA_ARGS__
H(k,2)
