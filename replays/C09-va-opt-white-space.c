// chibicc -E: "1x b" / "1 x b" / "1+ x b" / "p x b" / "p+x b"    gcc -E -P: "1 x b" / "1 x b" / "1+x b" / "p x b" / "p+x b"
// the first token of a __VA_OPT__( ) group keeps the white space it has after the "(" instead of taking
// the white space of the __VA_OPT__ token whose place it takes (lines 1 and 3 differ from gcc)
#define STR(x) #x
#define XSTR(x) STR(x)
#define F(a,...) a __VA_OPT__(x) b
#define G(a,...) a __VA_OPT__( x) b
#define H(a,...) a+__VA_OPT__( x) b
#define K(a,...) __VA_OPT__(x) b
XSTR(F(1,2))
XSTR(G(1,2))
XSTR(H(1,2))
XSTR(p K(1,2))
XSTR(p+K(1,2))
