// R10.1 skip_line: `chibicc -E replays/C10-endif-extra-tokens.c`
// expected (gcc -E -P): "int a;" / "int b;"      actual (pinned chibicc): "int a; X Y" / "int b;"
// skip_line() warns about the extra tokens but its loop `while (tok->at_bol)` never advances,
// so the rest of the directive line is emitted as program text.
#if 1
int a;
#endif X Y
int b;
