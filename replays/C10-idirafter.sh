#!/bin/sh
# R10.6 -idirafter: parse_args pushes argv[i++] (the option name) instead of argv[++i], and the
# idirafter list is appended to include_paths before add_default_include_paths() runs.
# (1) expected (gcc): from_after / m   actual (pinned chibicc): "onlyafter.h: cannot open file"
# (2) order: a stdio.h in the -idirafter directory must NOT shadow the system one (gcc: right_order);
#     on the pinned tree (2) is masked by (1) (the directory pushed is the string "-idirafter"); with only
#     the argument repaired chibicc prints wrong_order
CC=${1:-./chibicc}; d=$(mktemp -d); trap 'rm -rf "$d"' EXIT
mkdir $d/after
printf 'int from_after;\n' > $d/after/onlyafter.h
printf '#define FROM_AFTER 1\n' > $d/after/stdio.h
printf '#include <onlyafter.h>\nint m;\n' > $d/t1.c
printf '#include <stdio.h>\n#ifdef FROM_AFTER\nint wrong_order;\n#else\nint right_order;\n#endif\n' > $d/t2.c
echo "--- $CC (1)"; $CC -E -idirafter $d/after $d/t1.c | tail -2
echo "--- gcc (1)";  gcc -E -P -idirafter $d/after $d/t1.c | tail -2
echo "--- $CC (2)"; $CC -E -idirafter $d/after $d/t2.c | tail -1
echo "--- gcc (2)";  gcc -E -P -idirafter $d/after $d/t2.c | tail -1
