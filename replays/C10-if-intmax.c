// R10.13 if-operand/*: in a controlling expression all signed integer types act as intmax_t and all unsigned ones as
// uintmax_t (C11 6.10.1p4).  eval_const_expr leaves the number tokens with their C types (int, unsigned int, unsigned short),
// so the constant folder converts and reduces in 32 (16) bits.
// replay: ./chibicc -E replays/C10-if-intmax.c   vs   gcc -E -P replays/C10-if-intmax.c
// expected (gcc): int a1; ... int a9;   (no line `wrong`)
// actual (chibicc HEAD c568581): only `int wrong;` (u'a' - 98 is evaluated in int)
#if -1 < 0xFFFFFFFF
int a1;
#endif
#if 0xFFFFFFFF + 1
int a2;
#endif
#if (2147483647 + 1) > 0
int a3;
#endif
#if 1u << 32
int a4;
#endif
#if ~0u == 0xFFFFFFFFFFFFFFFF
int a5;
#endif
#if 0x7FFFFFFF * 2 > 0
int a6;
#endif
#if ('a' << 31) > 0
int a7;
#endif
#if (u'a' << 32) != 0
int a8;
#endif
#if (U'a' << 32) != 0
int a9;
#endif
#if -1 < 1u || -1 < 0xFFFFFFFFu || -1 < 0x8000000000000000 || u'a' - 98 < 0
int wrong;
#endif
