#!/bin/sh
# R10.7 main.c:file_exists:directory-satisfies-the-search: file_exists() is !stat(): a directory named like the header ends the include search.
# expected (gcc -E -P -Id1 -Id2 c.c): int e2foo;      actual (chibicc HEAD c568581): nothing, exit status 0
CC=${1:-./chibicc}; d=$(mktemp -d); trap 'rm -rf "$d"' EXIT
mkdir -p $d/d1/foo $d/d2; echo 'int e2foo;' > $d/d2/foo; echo '#include <foo>' > $d/c.c
echo "--- $CC"; $CC -E -I$d/d1 -I$d/d2 $d/c.c 2>&1 | sed "s|$d/||g"; echo "rc=$?"
echo "--- gcc"; gcc -E -P -I$d/d1 -I$d/d2 $d/c.c 2>&1 | sed "s|$d/||g"
