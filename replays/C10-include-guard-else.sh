#!/bin/sh
# R10.2 detect_include_guard ignores #else / #elif at nesting depth 0: a header of the shape
#   #ifndef G / #define G / A / #else / B / #endif
# is reported as guarded, so its second #include is suppressed although textual inclusion yields B.
# expected (gcc): first second m ; first2 second2     actual (pinned chibicc): "int second;" / "int second2;" missing
CC=${1:-./chibicc}; d=$(mktemp -d); trap 'rm -rf "$d"' EXIT
printf '#ifndef G_H\n#define G_H\nint first;\n#else\nint second;\n#endif\n' > $d/g.h
printf '#ifndef K_H\n#define K_H\nint first2;\n#elif 1\nint second2;\n#endif\n' > $d/k.h
printf '#include "g.h"\n#include "g.h"\n#include "k.h"\n#include "k.h"\nint m;\n' > $d/t.c
echo "--- $CC"; $CC -E $d/t.c
echo "--- gcc";  gcc -E -P $d/t.c
