#!/bin/sh
# R10.2 detect_include_guard: openers are tested on the `#` token (`equal(tok, "if")`), so nested
# conditionals are never skipped and the LAST `#endif` of the file is taken for the guard's.
# A header with text after its guard's #endif and a trailing `#if 1/#endif` is treated as fully guarded.
# expected (gcc): "int twice;" appears twice        actual (pinned chibicc): once
CC=${1:-./chibicc}; d=$(mktemp -d); trap 'rm -rf "$d"' EXIT
printf '#ifndef G_H\n#define G_H\nint once;\n#endif\nint twice;\n#if 1\n#endif\n' > $d/g.h
printf '#include "g.h"\n#include "g.h"\nint m;\n' > $d/t.c
echo "--- $CC"; $CC -E $d/t.c
echo "--- gcc";  gcc -E -P $d/t.c
