#!/bin/sh
# R10.1 skip_line:end-marker-diagnosed-as-extra-token: `#include H` with H a macro: read_include_filename re-reads the macro-expanded copy
# of the line (copy_line); after the file name comes the end marker of the copy, a TK_EOF that is not at_bol (new_eof copies the last token of
# the line).  skip_line tests only at_bol and reports the marker as an "extra token".
# expected (gcc -E -P main.c): int h; int m;  and no diagnostic
# actual (chibicc HEAD 4342e4f): "main.c:2: #include H ... extra token" on stderr (text is right)
CC=${1:-./chibicc}; CC=$(realpath "$CC"); d=$(mktemp -d); trap 'rm -rf "$d"' EXIT
cd $d
echo 'int h;' > h.h
printf '#define H "h.h"\n#include H\nint m;\n' > main.c
echo "--- $CC"; $CC -E main.c 2>&1
echo "--- gcc"; gcc -E -P main.c 2>&1 | grep -v '^ *$'
