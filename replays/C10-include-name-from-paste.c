// C11 6.10.2p4: the tokens after #include are macro-replaced and must then match
// one of the two forms. A token made by ## (or #, __LINE__, __COUNTER__) inside
// the <...> keeps at_bol=true from the scratch tokenize(), and read_include_filename
// takes it for the beginning of the next line:
//   chibicc -E: "expected '>'"        gcc -E: includes <stdio.h>
#define INC(a, b) <a##b.h>
#include INC(std, io)
int main(void) { puts("ok"); return 0; }
