#!/bin/sh
# R10.7 search_include_paths:cursor-stale-for-unsearched-name: a name that starts with `/` is returned by search_include_paths without a
# search and without touching the #include_next cursor (include_next_idx); the #include arm then records the value an unrelated
# earlier lookup left there in the File of the included tokens.  A file that was not found through the include path has no
# position in it: its #include_next searches the whole path (gcc: from the first directory).
# expected (gcc -E -P -Id1 -Id2 m.c): int d2b; int d1a;
# actual (chibicc HEAD 75a2d2b): <abs>/x.h:1: #include_next <a.h>: a.h: cannot open file (b.h was found in d2, the search resumed behind d2)
CC=${1:-./chibicc}; d=$(mktemp -d); trap 'rm -rf "$d"' EXIT
mkdir $d/d1 $d/d2 $d/abs
echo 'int d1a;' > $d/d1/a.h; echo 'int d2a;' > $d/d2/a.h; echo 'int d2b;' > $d/d2/b.h
echo '#include_next <a.h>' > $d/abs/x.h
printf '#include <b.h>\n#include "%s/abs/x.h"\n' $d > $d/m.c
echo "--- $CC"; $CC -E -I$d/d1 -I$d/d2 $d/m.c 2>&1 | sed "s|$d/||g"
echo "--- gcc"; gcc -E -P -I$d/d1 -I$d/d2 $d/m.c 2>&1 | sed "s|$d/||g"
