#!/bin/sh
# R10.7 search_include_paths: a cache hit returns before `include_next_idx = i + 1`, so the
# #include_next cursor is the one left by the previous, unrelated lookup.
# expected (gcc): y2 y1 z y2 y1 m      actual (pinned chibicc): "y.h: cannot open file" at the second #include <y.h>
CC=${1:-./chibicc}; d=$(mktemp -d); trap 'rm -rf "$d"' EXIT
mkdir $d/e1 $d/e2
printf '#include_next <y.h>\nint y1;\n' > $d/e1/y.h
printf 'int y2;\n' > $d/e2/y.h
printf 'int z;\n' > $d/e2/z.h
printf '#include <y.h>\n#include <z.h>\n#include <y.h>\nint m;\n' > $d/t.c
echo "--- $CC"; $CC -E -I$d/e1 -I$d/e2 $d/t.c
echo "--- gcc";  gcc -E -P -I$d/e1 -I$d/e2 $d/t.c
