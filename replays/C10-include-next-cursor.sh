#!/bin/sh
# R10.7 search_include_next: when the file is found in directory i the cursor stays at i (the loop
# returns before its increment), so an #include_next inside the file just found searches directory i
# again and finds that same file: endless self-inclusion.
# expected (gcc): a3 a2 a1 m           actual (pinned chibicc): never terminates (timeout rc 124, or SIGSEGV once memory is exhausted)
CC=${1:-./chibicc}; d=$(mktemp -d); trap 'rm -rf "$d"' EXIT
mkdir $d/d1 $d/d2 $d/d3
printf '#include_next <x.h>\nint a1;\n' > $d/d1/x.h
printf '#include_next <x.h>\nint a2;\n' > $d/d2/x.h
printf 'int a3;\n' > $d/d3/x.h
printf '#include <x.h>\nint m;\n' > $d/t.c
echo "--- $CC"; (ulimit -v 4000000; timeout 10 $CC -E -I$d/d1 -I$d/d2 -I$d/d3 $d/t.c > $d/out 2>&1; echo "rc=$? (124 = still running after 10 s, 139 = out of memory)"); tail -4 $d/out
echo "--- gcc";  gcc -E -P -I$d/d1 -I$d/d2 -I$d/d3 $d/t.c
