#!/bin/sh
# R10.7 include_next-cursor-*: #include_next must continue the search behind the directory in which the file that contains the
# directive was found.  The cursor is one global (include_next_idx) that every search_include_paths call overwrites, so a header
# that includes another header before its #include_next resumes behind the directory of THAT header.
# expected (gcc -E -P -Id1 -Id2 -Id3 m.c): int d3b; int d2a;
# actual (chibicc HEAD c568581): d1/a.h:2: #include_next <a.h>: a.h: cannot open file (b.h was found in d3, the search resumed behind d3)
CC=${1:-./chibicc}; d=$(mktemp -d); trap 'rm -rf "$d"' EXIT
mkdir $d/d1 $d/d2 $d/d3
printf '#include <b.h>\n#include_next <a.h>\n' > $d/d1/a.h
echo 'int d2a;' > $d/d2/a.h; echo 'int d3b;' > $d/d3/b.h; echo 'int d3a;' > $d/d3/a.h
echo '#include <a.h>' > $d/m.c
echo "--- $CC"; $CC -E -I$d/d1 -I$d/d2 -I$d/d3 $d/m.c 2>&1 | sed "s|$d/||g"
echo "--- gcc"; gcc -E -P -I$d/d1 -I$d/d2 -I$d/d3 $d/m.c 2>&1 | sed "s|$d/||g"
