#!/bin/sh
# R10.7 include-option/file-from-include-path-*: a -include file that cc1 finds through the include path (search_include_paths) is tokenised
# without its File.include_next_idx being set (it stays 0), so `#include_next` in it starts at directory 0 again and finds the file itself.
# expected (gcc -E -P -Id1 -Id2 -include w.h main.c): int d2_w; int d1_w; int m;
# actual (chibicc HEAD 4342e4f): int d2_w; int d1_w; int d1_w; int m;   (d1/w.h included twice)
CC=${1:-./chibicc}; CC=$(realpath "$CC"); d=$(mktemp -d); trap 'rm -rf "$d"' EXIT
cd $d; mkdir d1 d2
printf '#include_next <w.h>\nint d1_w;\n' > d1/w.h
echo 'int d2_w;' > d2/w.h
echo 'int m;' > main.c
echo "--- $CC"; $CC -E -Id1 -Id2 -include w.h main.c 2>&1
echo "--- gcc"; gcc -E -P -Id1 -Id2 -include w.h main.c 2>&1 | grep -v '^ *$'
