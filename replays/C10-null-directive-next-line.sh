#!/bin/sh
# R10.2 non-directive-nextline-*: a `#` alone on its line is a null directive (C11 6.10.7) and the next line is ordinary text.
# preprocess2, skip_cond_incl, skip_cond_incl2 and detect_include_guard test the spelling of tok->next without looking at its
# at_bol flag, so the first word of the NEXT line (if/ifdef/ifndef/elif/else/endif/include/define/undef/line/pragma/error or a
# pp-number) is taken for the name of the directive.
# expected (gcc -E -P): t1: the function body with `if (x) return 0;`   t2: int right_a;   t3: int after_c;   t4: int right_e;
#                       t5: define X 1 / int X;                         t6: if / endif / m / endif / n
# actual (chibicc HEAD): t1: "extra token"/"no expression"-style error  t2: "unterminated conditional directive"
#                        t3: int wrong_c; int after_c;                  t4: "stray #else"      t5: (nothing) / int 1;   t6: error
CC=${1:-./chibicc}; d=$(mktemp -d); trap 'rm -rf "$d"' EXIT
printf 'int main(void) {\n  int x = 1;\n#\n  if (x) return 0;\n  return 1;\n}\n' > $d/t1.c
printf '#if 0\n#\nif this is skipped text\nint wrong_a;\n#else\nint right_a;\n#endif\n' > $d/t2.c
printf '#if 0\n#\nelse\nint wrong_c;\n#endif\nint after_c;\n' > $d/t3.c
printf '#if 0\n#if 1\n#\nendif\n#else\nint wrong_e;\n#endif\nint mid_e;\n#else\nint right_e;\n#endif\n' > $d/t4.c
printf '#\ndefine X 1\nint X;\n' > $d/t5.c
printf '#ifndef G\n#define G\n#\nif\n#endif\n#\nendif\n' > $d/g.h
printf '#include "g.h"\nm\n#include "g.h"\nn\n' > $d/t6.c
for t in t1 t2 t3 t4 t5 t6; do
  echo "--- $t $CC"; $CC -E $d/$t.c 2>&1 | sed "s|$d/||"
  echo "--- $t gcc";  gcc -E -P $d/$t.c 2>&1 | sed "s|$d/||"
done
