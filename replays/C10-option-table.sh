#!/bin/sh
# R10.6 take_arg table vs handlers.
# (a) -D -U -L -MQ -cc1-input -cc1-output read argv[++i] but are not in take_arg's table, so the
#     pre-scan does not guarantee the argument: a trailing `-D` hands NULL to define() -> SIGSEGV
#     (gcc: "macro name missing after '-D'", rc 1).
# (b) -I is in the table but only the joined form -Idir has a handler: `-I dir` adds "" to the search
#     list and takes `dir` as an input file (gcc accepts `-I dir`).
CC=${1:-./chibicc}; d=$(mktemp -d); trap 'rm -rf "$d"' EXIT
mkdir $d/inc
printf 'int from_inc;\n' > $d/inc/h.h
printf '#include <h.h>\nint m;\n' > $d/t.c
for o in -D -U -L -MQ; do echo "--- $CC -E t.c -I$d/inc $o"; $CC -E $d/t.c -I$d/inc $o >/dev/null 2>&1; echo "rc=$? (139 = SIGSEGV)"; done
echo "--- gcc -E t.c -D"; gcc -E -P $d/t.c -I$d/inc -D >/dev/null; echo "rc=$?"
echo "--- $CC -E -I inc t.c"; $CC -E -I $d/inc $d/t.c; echo "rc=$?"
echo "--- gcc -E -I inc t.c"; gcc -E -P -I $d/inc $d/t.c
