#!/bin/sh
# R10.2 pragma-operand-taken-from-next-line/once: `#pragma` at the end of a line followed by a line beginning with `once` is taken for `#pragma once`.
# expected (gcc -E -P): "#pragma" / "once" / "int x;" twice      actual (chibicc HEAD c568581): int x; once (the file is marked include-once, `once` is dropped)
CC=${1:-./chibicc}; d=$(mktemp -d); trap 'rm -rf "$d"' EXIT
printf '#pragma\nonce\nint x;\n' > $d/p.h; printf '#include "p.h"\n#include "p.h"\n' > $d/d.c
echo "--- $CC"; $CC -E $d/d.c 2>&1 | sed "s|$d/||g"
echo "--- gcc"; gcc -E -P $d/d.c 2>&1 | sed "s|$d/||g"
