#!/bin/sh
# R10.8 pragma-once/keyed-by-spelling: the `#pragma once` table (and the guard memo) is keyed by the path STRING.  The compiler itself
# spells one file in several ways: cc1 reads a -include file under the name given on the command line (`a.h`), the dispatcher builds
# dirname(includer)/name (`./a.h`), a nested quoted include builds `./sub/../a.h`.  The entry recorded under one spelling is not found
# under another and the file is included twice although it says `#pragma once`.
# expected (gcc -E -P): `int once_a;` once in both runs
# actual (chibicc HEAD 4342e4f): `int once_a;` twice in both runs
CC=${1:-./chibicc}; CC=$(realpath "$CC"); d=$(mktemp -d); trap 'rm -rf "$d"' EXIT
cd $d; mkdir sub
printf '#pragma once\nint once_a;\n' > a.h
printf '#include "a.h"\nint m;\n' > main.c
printf '#include "../a.h"\n' > sub/b.h
printf '#include "a.h"\n#include "sub/b.h"\nint m2;\n' > main2.c
echo "--- $CC -include a.h main.c"; $CC -E -include a.h main.c 2>&1
echo "--- gcc"; gcc -E -P -include a.h main.c 2>&1 | grep -v '^ *$'
echo "--- $CC main2.c (a.h, then sub/b.h -> ../a.h)"; $CC -E main2.c 2>&1
echo "--- gcc"; gcc -E -P main2.c 2>&1 | grep -v '^ *$'
