#!/bin/sh
# R11.12 tokenize() on a buffer that ends at its NUL without a newline (the body of a -D macro is handed
# to tokenize exactly as it stands in argv) reads the memory behind the terminator in three places:
# (1) the line-comment skip `while (*p != '\n') p++;` has no NUL test: -D'X=1 //c' scans argv, the
#     environment and whatever follows for a line feed. expected (gcc): X is 1; pinned chibicc: Segmentation fault
# (2) string_literal_end steps over the character after a backslash without looking at it: for the unclosed
#     literal "abc\ that character is the terminator, and the scan continues in the NEXT command line
#     argument. expected: a diagnostic (unclosed string literal; chibicc gives it when nothing with a quote
#     follows); with -I'"' as the next argument pinned chibicc accepts a 7-byte string "abc\0-I" (prints 7)
# (3) read_char_literal/read_escaped_char do the same for '\ : with -I"'" as the next argument the
#     unclosed constant is accepted (prints 4), otherwise "unclosed char literal"
CC=${1:-./chibicc}; d=$(mktemp -d); trap 'rm -rf "$d"' EXIT
printf 'int printf(const char *, ...);\nint main(void) { printf("%%d\\n", (int)sizeof(X)); return 0; }\n' > $d/t.c
echo "--- $CC (1) -D'X=1 //c'"; $CC -D'X=1 //c' -o $d/t1 $d/t.c; echo "rc=$?"; [ -x $d/t1 ] && $d/t1
echo "--- gcc (1)"; gcc -D'X=1 //c' -o $d/g1 $d/t.c && $d/g1
echo "--- $CC (2) -D'X=\"abc\\' '-I\"'"; $CC -D'X="abc\' '-I"' -o $d/t2 $d/t.c 2>&1 | grep -v '^ld: '; [ -x $d/t2 ] && $d/t2
echo "--- $CC (2) without the following argument"; $CC -D'X="abc\' -o $d/t2b $d/t.c 2>&1 | grep -v '^ld: '
echo "--- $CC (3) -D\"X='\\\\\" \"-I'\""; $CC -D"X='\\" "-I'" -o $d/t3 $d/t.c 2>&1 | grep -v '^ld: '; [ -x $d/t3 ] && $d/t3
echo "--- $CC (3) without the following argument"; $CC -D"X='\\" -o $d/t3b $d/t.c 2>&1 | grep -v '^ld: '
