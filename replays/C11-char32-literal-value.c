// U'\xffffffff' has type unsigned int and value 4294967295; the tokenizer stores -1 (read_char_literal: int c -> tok->val),
// which the constant folder uses as a 64-bit value. Build with chibicc, run: prints "0 -1 | 1 4294967295", exit 1 (gcc: "1 4294967295 | 1 4294967295", exit 0).
#include <stdio.h>
static int x = U'\xffffffff' == 4294967295;
static long z = U'\xffffffff';
int main(void) {
  int r = U'\xffffffff' == 4294967295;
  long rz = U'\xffffffff';
  printf("%d %ld | %d %ld\n", x, z, r, rz);
  return !(x == r && z == rz);
}
