// C11 R11.10: a double / float constant is converted with strtold and narrowed later, so it is rounded twice.
// chibicc prints "3ff0000000000000 3ff0000000000000 3f800000 3f800000";
// gcc (and strtod / strtof on the spelling) "3ff0000000000001 3ff0000000000001 3f800001 3f800001".
#include <stdio.h>
#include <string.h>
int main(void) {
  double d1 = 1.00000000000000011102230246251565404236316680908203126; // just above 1 + 2^-53
  double d2 = 0x1.00000000000008000004p0;
  float f1 = 0x1.000001000000000004p0f;                                  // just above 1 + 2^-24
  float f2 = 1.00000005960464477539062500001f;
  unsigned long u1, u2;
  unsigned int v1, v2;
  memcpy(&u1, &d1, 8); memcpy(&u2, &d2, 8); memcpy(&v1, &f1, 4); memcpy(&v2, &f2, 4);
  printf("%lx %lx %x %x\n", u1, u2, v1, v2);
  return 0;
}
