// convert_pp_number accepts whatever strtold accepts, which is more than the floating-constant
// grammar of C11 6.4.4.2: a pp-number that is neither an integer constant nor a floating
// constant must be diagnosed (6.4p3 / 6.4.4).
//   08, 09     invalid octal digits     -> chibicc: double 8.0 / 9.0 (sizeof 8)
//   100f       integer with f suffix    -> chibicc: float (chibicc's own test/generic.c relies on it)
//   0x1.8      hex float without p-exp  -> chibicc: double 1.5
// Replay: gcc -std=c11 -c C11-invalid-numeric-constants.c   -> 5 errors (invalid digit "8" in octal
//         constant, invalid suffix "f" on integer constant, hexadecimal floating constants require an exponent)
//         chibicc -o t C11-invalid-numeric-constants.c && ./t -> prints "8 9 4" and "8 1.5"
int printf(const char *, ...);
int main(void) {
  printf("%d %d %d\n", (int)sizeof(08), (int)(09 + 0), (int)sizeof(100f));
  printf("%d %g\n", (int)sizeof(0x1.8), (double)0x1.8);
  return 0;
}
