// C11 6.4.4.4p9 / 6.4.4p2 are constraints: an octal or hexadecimal escape
// above the range of the literal's element type, and an integer constant no
// type holds, need a diagnostic.  chibicc (before the fixes) accepts all of
// them silently and keeps the low bits / a saturated value:
//   ./chibicc -o t replays/C11-out-of-range-escapes-and-constants.c && ./t
//   prints  0 2345 23456789 0 2345 0 0 | 18446744073709551615 18446744073709551615 | -9223372036854775808 8
// gcc -std=c11 warns on every line of main ("octal/hex escape sequence out of
// range", "integer constant is too large for its type", "integer constant is
// so large that it is unsigned"); with -pedantic-errors they are errors.
#include <stdio.h>
int main(void) {
  printf("%d %x %x %x %x %x %x | ", "\400"[0], u"\x12345"[0], L'\x123456789', '\x100', u'\x12345',
         u8"\x100"[0], U'\x100000000');
  printf("%lu %lu | ", 18446744073709551616u, 0x10000000000000000);
  printf("%ld %d\n", 9223372036854775808, (int)sizeof(9223372036854775808));
  return 0;
}
