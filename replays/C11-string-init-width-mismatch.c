// C11 R11.14: string_initializer reads the bytes of a string literal with the element width of the ARRAY
// being initialised (switch on init->ty->base->size), whatever the width of the literal's own code units.
// C11 6.7.9p14/p15: a character string literal initialises an array of character type, a wide (L, u, U)
// literal an array whose element type is compatible with the literal's; anything else is a constraint
// violation that must be diagnosed.
//   unsigned int   a[] = "abc";   4 literal bytes read as 4 x 32 bit: 12 bytes past the literal's buffer
//   unsigned short b[] = "ab";    3 literal bytes read as 3 x 16 bit
//   char           c[] = L"ab";   only the low bytes of the 32-bit code units are kept: {'a', 0, 0}
//   char           d[] = u"abc";  {'a', 0, 'b', 0}
// Replay: gcc -std=c11 -c C11-string-init-width-mismatch.c -> 4 errors ("cannot initialize array of
//         'unsigned int' from a string literal with type array of 'char'", ... "array of 'char' from a string
//         literal with type array of 'int'")
//         chibicc -o t C11-string-init-width-mismatch.c && ./t -> accepted; prints
//         "16 636261 | 6 6261 | 3 97 0 0 | 4 97 0" (a[1..3] are whatever follows the literal on the heap)
int printf(const char *, ...);
unsigned int a[] = "abc";
int main(void) {
  unsigned short b[] = "ab";
  char c[] = L"ab";
  char d[] = u"abc";
  printf("%d %x | %d %x | %d %d %d %d | %d %d %d\n", (int)sizeof a, a[0], (int)sizeof b, b[0],
         (int)sizeof c, c[0], c[1], c[2], (int)sizeof d, d[0], d[1]);
  return 0;
}
