// C11 6.4.5p2: a UTF-8 string literal (u8"") adjacent to a wide string literal (u"", U"", L"")
// is a constraint violation; gcc: "error: unsupported non-standard concatenation of string literals".
// chibicc's getStringKind() tests strcmp(tok->loc, "u8") -- the whole rest of the source file
// against "u8" -- so a u8"" literal is classified by its first letter as a UTF-16 literal:
//   u"b" u8"a"  is accepted and becomes u"b8" (the `8` of the prefix is read as the contents);
//   u8"a" u"b"  is accepted; char[2] and unsigned short[2] are joined with byte copies into a
//               3-byte buffer (2-byte heap overflow inside the compiler), sizeof == 3.
// Replay: gcc -std=c11 C11-u8-wide-concat.c            -> 2 errors
//         chibicc -o t C11-u8-wide-concat.c && ./t     -> prints "6: 62 38 0" and "3"
int printf(const char *, ...);
int main(void) {
  unsigned short *p = u"b" u8"a";
  printf("%d: %x %x %x\n", (int)sizeof(u"b" u8"a"), p[0], p[1], p[2]);
  printf("%d\n", (int)sizeof(u8"a" u"b"));
  return 0;
}
