// C11 R11.6: U'\xfffffff0' has type unsigned int but Token.val is the negative int the escape reader returned,
// so the constant folder sees -16 where the generated code sees 4294967280.
// chibicc prints "0 1 0"; gcc prints "1 1 1".
#include <stdio.h>
static int folded = U'\xfffffff0' == 4294967280;
static long widened = U'\xffffffff';
int main(void) {
  int run_time = U'\xfffffff0' == 4294967280;
  printf("%d %d %d\n", folded, run_time, widened == 4294967295);
  return 0;
}
