// C12 R12.17: parse.c eval2() evaluates both operands of a host operator by calls that can end the run with a
// diagnostic (`eval(node->lhs) * eval(node->rhs)`). C leaves the order of the two calls open: the host compiler
// (stage 1) calls the left one first, chibicc (stage 2, the self-compiled compiler) the right one. With two
// non-constant operands the two compilers therefore answer the same input with a different diagnostic:
//
//   make chibicc stage2/chibicc
//   for op in '+' '-' '*' '&' '|' '^' '<<' '>>' '==' '!=' '<' '<='; do
//     for t in int double; do
//       ./chibicc        -DT=$t "-DOP=$op" -c -o /dev/null C12-evaluation-order-constant-folder.c 2>s1.txt
//       ./stage2/chibicc -DT=$t "-DOP=$op" -c -o /dev/null C12-evaluation-order-constant-folder.c 2>s2.txt
//       cmp -s s1.txt s2.txt || echo "differs: $t $op"
//     done
//   done
//
// stage 1: caret under `a` ("not a compile-time constant"), stage 2: caret under `b`; both exit 1.
// (T=double only reaches the folder for the comparisons; the arithmetic operators on double use eval_double,
// which already evaluates into locals in source order.)
T a, b;
static int x = a OP b;
