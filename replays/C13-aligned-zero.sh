#!/bin/sh
# R13.11 attribute_list: `__attribute__((aligned(N)))` stores const_expr() into ty->align unchecked.  With N == 0
# and an aggregate without members nothing raises the alignment again, and struct_decl / union_decl finish with
# align_to(bits, ty->align * 8) = (n + 0 - 1) / 0.  expected: compiled (gcc: warning "requested alignment '0' is
# not a positive power of 2", exit 0) or a located diagnostic; pinned chibicc: Floating point exception (status 136).
CC=${1:-./chibicc}; d=$(mktemp -d); trap 'rm -rf "$d"' EXIT
printf 'struct __attribute__((aligned(0))) S {};\nstruct S s;\nint main(void) { return sizeof(struct S) != 0; }\n' > $d/a.c
printf 'union __attribute__((aligned(0))) U {};\nunion U u;\nint main(void) { return 0; }\n' > $d/b.c
for f in a b; do
  echo "--- $CC -cc1 $f.c"; $CC -cc1 -cc1-input $d/$f.c -cc1-output $d/$f.s $d/$f.c; echo "rc=$?"
  echo "--- gcc -c $f.c"; gcc -c -o $d/$f.o $d/$f.c 2>&1 | head -2; echo "gcc rc=$?"
done
