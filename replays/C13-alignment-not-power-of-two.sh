#!/bin/sh
# R13.36 declspec / attribute_list: `_Alignas(N)` and `__attribute__((aligned(N)))` store const_expr() into an align
# field without a power-of-two test.  The value reaches `.align N` unchanged; for N = 3 the assembler stops with
# "alignment not a power of 2" and the compiler has given no diagnostic (C11 6.7.5p3 requires one for _Alignas).
# expected: a located diagnostic (gcc: "requested alignment '3' is not a positive power of 2"); pinned chibicc: no
# diagnostic of its own, `as` rejects the output, exit status 1.
CC=${1:-./chibicc}; d=$(mktemp -d); trap 'rm -rf "$d"' EXIT
printf '_Alignas(3) int x = 1;\nint main(void) { return 0; }\n' > $d/a.c
printf 'struct S { char a; } __attribute__((aligned(3)));\nstruct S s = {1};\nint main(void) { return 0; }\n' > $d/b.c
for f in a b; do
  echo "--- $CC -c $f.c"; $CC -c -o $d/$f.o $d/$f.c; echo "rc=$?"
  echo "--- $CC -S $f.c | grep .align 3"; $CC -S -o - $d/$f.c | grep -n 'align 3'
  echo "--- gcc -c $f.c"; gcc -c -o $d/$f.o $d/$f.c 2>&1 | head -2
done
