// int[3] is compatible with int[3] and with int[] (C11 6.7.6.2p6); is_compatible() demands that BOTH lengths are unknown.
// chibicc: "controlling expression type not compatible with any generic association type"; gcc: compiles, exit status 0.
int main(void) {
  int (*q)[3] = 0;
  int (*r)[] = 0;
  return _Generic(q, int(*)[3]: 0) + _Generic(r, int(*)[3]: 0) +
         _Generic(q, int(*)[4]: 1, default: 0) +
         !__builtin_types_compatible_p(int[3], int[3]);
}
