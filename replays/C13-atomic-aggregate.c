// C13 R13.3 gen_expr ND_EXCH / ND_CAS -> reg_ax(sz)/reg_dx(sz) with sz = size of the pointee: add_type only checks "pointer",
// nothing restricts the pointee to 1/2/4/8 bytes.
//   default:  __builtin_atomic_exchange on a 3-byte struct   -> "internal error at codegen.c:76" (reg_ax)
//   -DCAS:    compound assignment to an _Atomic long double  -> "internal error at codegen.c:66" (reg_dx); valid C11, gcc compiles
struct S { char a[3]; } s, u;
int main(void) {
#ifdef CAS
  _Atomic long double ld = 1;
  ld += 1;
#else
  __builtin_atomic_exchange(&s, u);
#endif
  return 0;
}
