// C13 R13.2 add_type ND_EXCH: the "pointer expected" diagnostic is reported through node->cas_addr->tok, but cas_addr is only
// set for ND_CAS nodes (NULL here).  Expected: located error "pointer expected".  chibicc -cc1: SIGSEGV (139).
int main(void) { int x = 0; return __builtin_atomic_exchange(x, 1); }
