// C13 R13.3 write_gvar_data -> read_buf/write_buf(mem->ty->size): struct_members accepts a bit-field of any type, so
// mem->ty->size is not limited to 1/2/4/8.  Invalid program; expected (gcc): located error "bit-field 'x' has invalid type".
// chibicc -cc1: "internal error at parse.c:1400", exit 1 (no file:line of the input).
struct { long double x : 3; } g = {1};
int main(void) { return 0; }
