// C13 R13.1 eval_rval / eval2: eval() passes label=NULL, `case (long)&x:` reaches `*label = ...` in eval_rval (ND_VAR of a global)
// and `case (long)&&L:` reaches it in eval2 (ND_LABEL_VAL).  Invalid program; expected (gcc): located error
// "case label does not reduce to an integer constant".  chibicc -cc1: SIGSEGV (139), no diagnostic.
// Compile with -DLABELVAL for the eval2 site.
int x;
int main(void) {
#ifdef LABELVAL
  L: switch (1) { case (long)&&L: return 1; }
#else
  switch (1) { case (long)&x: return 1; }
#endif
  return 0;
}
