// A compound literal is a postfix-expression (C11 6.5.2p1): it can be subscripted and followed by . -> ++.
// chibicc: postfix() returns right after the literal -> "expected ','" on line 5; gcc: compiles, exit status 0.
struct S { int a, b; };
struct S gs = {1, 2};
int *gp = &(int[]){10, 20, 30}[1];
int main(void) {
  int x = (int[]){1, 2, 3}[1];
  int z = (struct S){4, 5}.a;
  int w = (&(struct S){7, 8})->b;
  int v = (struct S){.b = 9}.b++;
  return !(x == 2 && z == 4 && w == 8 && v == 9 && *gp == 20);
}
