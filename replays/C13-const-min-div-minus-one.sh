#!/bin/sh
# R13.11 eval2 ND_DIV / ND_MOD: the constant-expression evaluator divides on the host after checking the divisor
# against 0 only.  The signed division of the most negative 64-bit value by -1 traps on x86-64 exactly like a
# zero divisor.  expected: the program is compiled (gcc: warning "integer overflow in expression", exit 0) or a
# located diagnostic; pinned chibicc: Floating point exception (cc1 status 136; the driver turns it into exit 1
# without any message).
CC=${1:-./chibicc}; d=$(mktemp -d); trap 'rm -rf "$d"' EXIT
printf 'long x = (-9223372036854775807L - 1) / -1;\nint main(void) { return 0; }\n' > $d/a.c
printf 'long x = (-9223372036854775807L - 1) %% -1;\nint main(void) { return x != 0; }\n' > $d/b.c
printf '#if (-9223372036854775807 - 1) / -1\n#endif\nint main(void) { return 0; }\n' > $d/c.c
for f in a b c; do
  echo "--- $CC -cc1 $f.c"; $CC -cc1 -cc1-input $d/$f.c -cc1-output $d/$f.s $d/$f.c; echo "rc=$?"
  echo "--- gcc -c $f.c"; gcc -c -o $d/$f.o $d/$f.c 2>&1 | head -2; echo "gcc rc=$?"
done
