// C13 R13.1 struct_designator: a designator is searched past an anonymous *union* member (Member.name NULL; only
// anonymous structs are skipped).  Valid C11.  Expected (gcc): compiles, program exits 0.  chibicc -cc1: SIGSEGV (139).
struct T { union { int a; int b; }; int c; };
struct T t = { .c = 3 };
int main(void) { return t.c - 3; }
