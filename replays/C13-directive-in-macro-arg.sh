#!/bin/sh
# R13.9 skip_line / copy_line / the `#pragma` loop of preprocess2 advance `tok = tok->next` until tok->at_bol and never
# look for TK_EOF. In the main token stream the end marker is at_bol (the file ends in a newline), but the tokens of a
# macro argument are re-scanned by preprocess2 as a list that ends in a TK_EOF *copy of the closing parenthesis*
# (read_macro_arg_one: new_eof(tok)), which is at_bol only if `)` starts a line. A directive inside the argument whose
# line runs into `)` walks past that marker: its successor is NULL.
# expected: a diagnostic (a directive inside macro arguments is undefined behaviour, gcc processes it);
# pinned chibicc: Segmentation fault in all three cases (the driver turns it into a silent exit 1).
CC=${1:-./chibicc}; d=$(mktemp -d); trap 'rm -rf "$d"' EXIT
printf '#define F(x) x\nint a = F(\n#pragma foo )\n;\n' > $d/pragma.c                 # do { tok = tok->next; } while (!tok->at_bol);
printf 'int y;\n' > $d/inc.h
printf '#define F(x) x\nint a = F(1\n#include "inc.h" junk )\n;\n' > $d/skip_line.c    # skip_line: while (!tok->at_bol) tok = tok->next;
printf '#define F(x) x\nint a = F(1\n#if 1 )\n;\n' > $d/copy_line.c                    # copy_line: for (; !tok->at_bol; tok = tok->next)
for f in pragma skip_line copy_line; do
  echo "--- $CC -cc1 $f.c"; (cd $d && $CC -cc1 -cc1-input $f.c -cc1-output $f.s $f.c); echo "rc=$?"
done
