// C13 R13.25 / R13.17 an aggregate without members as a parameter / an argument (fixed in /repo by 6a226fc; kept as the input R13.25 was confirmed with).  has_flonum() is vacuously true for it, so it is
// classified like a small floating-point aggregate.  GNU C (empty struct), accepted by gcc and by chibicc's parser.
// Expected (gcc -c): compiles.
//   default:  callee side: the prologue calls store_fp(fp++, offset, MIN(8, 0)) -> "internal error at codegen.c:<line of unreachable() in store_fp>", exit 1
//   -DCALLER: caller side: push_struct() pushes 0 bytes, the register loop pops one SSE register for it, depth ends at -1:
//             "Assertion `depth == 0' failed", SIGABRT (wait status 134)
// (also struct { float a[0]; }, union {}, struct { struct {} e; })
struct E {};
#ifdef CALLER
void f(struct E e);
void g(void) { struct E e; f(e); }
#else
void f(struct E e) {}
#endif
int main(void) { return 0; }
