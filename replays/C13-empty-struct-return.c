// C13 R13.4 copy_struct_reg / copy_ret_buffer: has_flonum() is vacuously true for an aggregate without members, so the
// "all floating" branch asserts size == 4 || 8 <= size with size 0.  GNU C (empty struct), accepted by gcc and by chibicc's parser.
// Expected (gcc): compiles.  chibicc -cc1: "Assertion `ty->size == 4 || 8 <= ty->size' failed", SIGABRT (wait status 134).
//   default:  callee side, copy_struct_reg at `return e;`
//   -DCALLER: caller side, copy_ret_buffer at the call
struct E {};
#ifdef CALLER
struct E f(void);
int main(void) { f(); return 0; }
#else
struct E f(void) { struct E e; return e; }
#endif
