// C13 R13.3 write_gvar_data -> write_buf(ty->size) with TY_LDOUBLE (16): only float and double are written as floating values,
// a long double initializer falls through to the integer path.  Valid C.  Expected (gcc): compiles.
// chibicc -cc1: "internal error at parse.c:1413", exit 1.
long double g = 1.0L;
int main(void) { return 0; }
