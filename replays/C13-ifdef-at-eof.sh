#!/bin/sh
# R13.9 preprocess2: `#ifdef` / `#ifndef` read tok->next->next without looking at tok->next. When the directive
# is the last thing in the file (no macro name), tok->next is the TK_EOF token, its successor is NULL and
# skip_line(NULL) dereferences it.  expected: a located diagnostic (gcc: "no macro name given in #ifdef directive");
# pinned chibicc: Segmentation fault (the driver turns it into a silent exit 1).
CC=${1:-./chibicc}; d=$(mktemp -d); trap 'rm -rf "$d"' EXIT
printf '#ifdef\n' > $d/a.c
printf 'int x;\n#ifndef' > $d/b.c
for f in a b; do
  echo "--- $CC -cc1 $f.c"; $CC -cc1 -cc1-input $d/$f.c -cc1-output $d/$f.s $d/$f.c; echo "rc=$?"
  echo "--- gcc -fsyntax-only $f.c"; gcc -fsyntax-only $d/$f.c 2>&1 | head -2
done
