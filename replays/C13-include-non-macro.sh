#!/bin/sh
# R13.20 read_include_filename: `#include foo` with a word that is not a macro (or a macro whose expansion starts with such a
# word).  The third pattern macro-expands the line and calls itself with the result; a word that is not a macro is its own
# expansion, so the same arm is taken at every level until the stack overflows.
# expected: a located diagnostic (gcc: #include expects "FILENAME" or <FILENAME>); chibicc: Segmentation fault.
CC=${1:-./chibicc}; d=$(mktemp -d); trap 'rm -rf "$d"' EXIT
printf '#include foo\nint main(){return 0;}\n' > $d/a.c
printf '#define H bar.h\n#include H\nint main(){return 0;}\n' > $d/b.c
for f in a b; do
  echo "--- $CC -cc1 $f.c"; $CC -cc1 -cc1-input $d/$f.c -cc1-output $d/$f.s $d/$f.c; echo "rc=$?"
  echo "--- gcc -fsyntax-only $f.c"; gcc -fsyntax-only $d/$f.c 2>&1 | head -2
done
