#!/bin/sh
# R13.37 include_file: no limit on the nesting of #include.  A file that includes itself (directly or through
# another file) is spliced in front of the remaining input again and again: cc1 grows until memory is exhausted
# (killed / SIGSEGV under a limit) and prints no diagnostic.  expected: a located diagnostic (gcc: "#include nested
# depth 200 exceeds maximum of 200"); pinned chibicc: no diagnostic, runs until the limit (status 139 / 124 here).
CC=${1:-./chibicc}; d=$(mktemp -d); trap 'rm -rf "$d"' EXIT
printf '#include "self.c"\nint main(void) { return 0; }\n' > $d/self.c
printf '#include "b.h"\n' > $d/a.h; printf '#include "a.h"\n' > $d/b.h; printf '#include "a.h"\nint main(void) { return 0; }\n' > $d/mutual.c
for f in self mutual; do
  echo "--- $CC -cc1 $f.c (ulimit -v 2000000, timeout 60)"
  (ulimit -v 2000000; timeout 60 $CC -cc1 -cc1-input $d/$f.c -cc1-output $d/$f.s $d/$f.c; echo "rc=$?")
  echo "--- gcc -c $f.c"; gcc -c -o $d/$f.o $d/$f.c 2>&1 | grep -m1 error
done
