#!/bin/sh
# R13.18 read_line_marker expands the rest of a `#line` line with preprocess(), the entry point for a whole translation
# unit, which ends with the check "unterminated conditional directive" (cond_incl != NULL).  Inside an open `#if` group that
# is the normal state, so a valid program is rejected.  expected: accepted (gcc compiles it); chibicc: exit 1 with
# "unterminated conditional directive" pointing at the `#if`.
CC=${1:-./chibicc}; d=$(mktemp -d); trap 'rm -rf "$d"' EXIT
printf '#if 1\n#line 5\nint x;\n#endif\nint main(){return 0;}\n' > $d/a.c
printf '#ifndef GUARD\n#define GUARD\n# 7 "other.h"\nint y;\n#endif\nint main(){return 0;}\n' > $d/b.c
for f in a b; do
  echo "--- $CC -cc1 $f.c"; $CC -cc1 -cc1-input $d/$f.c -cc1-output $d/$f.s $d/$f.c; echo "rc=$?"
  echo "--- gcc -fsyntax-only $f.c"; gcc -fsyntax-only $d/$f.c 2>&1 | head -2; echo "rc=$?"
done
