// C13 R13.3 string_initializer: switch (init->ty->base->size) handles 1, 2, 4 only; nothing restricts the element type of an array
// initialized from a string literal.  Invalid program; expected (gcc): located error "array of inappropriate type initialized
// from string constant".  chibicc -cc1: "internal error at parse.c:948".
long x[] = "abc";
int main(void) { return 0; }
