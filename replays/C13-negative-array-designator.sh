#!/bin/sh
# R13.19 array_designator checks the index of `[N] =` only against the array length; a negative N (also 4294967295, which
# becomes -1 in the int) is handed back to array_initializer1 / designation, which use it as the index of init->children:
# the compiler reads (and lets the nested initializer write) outside its own array.
# expected: a located diagnostic (gcc: array index in initializer exceeds array bounds); chibicc: Segmentation fault.
CC=${1:-./chibicc}; d=$(mktemp -d); trap 'rm -rf "$d"' EXIT
printf 'int a[3] = {[-1] = 1};\nint main(){return 0;}\n' > $d/a.c                       # array_initializer1
printf 'int a[2][3] = {[0][-1] = 1};\nint main(){return 0;}\n' > $d/b.c                 # designation
printf 'struct S {int a[3];} s = {.a[-100000] = 1};\nint main(){return 0;}\n' > $d/c.c  # designation after a member
printf 'int main(){int a[] = {[-1] = 1}; return a[0];}\n' > $d/d.c                      # local, length from the initializer
for f in a b c d; do
  echo "--- $CC -cc1 $f.c"; $CC -cc1 -cc1-input $d/$f.c -cc1-output $d/$f.s $d/$f.c; echo "rc=$?"
  echo "--- gcc -fsyntax-only $f.c"; gcc -fsyntax-only $d/$f.c 2>&1 | head -2
done
