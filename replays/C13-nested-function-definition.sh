#!/bin/sh
# R13.29 parse.c function(): a function definition inside a block (compound_stmt hands every function declarator to function()) ends with
# current_fn = NULL; the next `return expr;` of the enclosing function dereferences it.  expected: output (gcc accepts nested functions as an
# extension) or a located diagnostic; chibicc -cc1: Segmentation fault.
CC=${1:-./chibicc}; d=$(mktemp -d); trap 'rm -rf "$d"' EXIT
printf 'int main(void) { int g(void) { return 1; } return g(); }\n' > $d/a.c
echo "--- $CC -cc1 a.c"; $CC -cc1 -cc1-input $d/a.c -cc1-output $d/a.s $d/a.c; echo "rc=$?"
echo "--- gcc -fsyntax-only a.c"; gcc -fsyntax-only $d/a.c 2>&1 | head -2; echo "gcc rc=$?"
