// C13 R13.26 Type.vla_size is NULL until compute_vla_size() has run on the type; that happens for block-scope declarations only.
// offsetof() of include/stddef.h expands to ((size_t)&(((type *)0)->member)), which is_const_expr() does not accept, so an array
// whose bound is offsetof(...) becomes a TY_VLA type -- at file scope, in a cast, as a static local -- that never gets a size variable.
// new_var_node(ty->vla_size) then builds an ND_VAR node with var == NULL and add_type() dies in node->var->ty.
// Expected (gcc -c): compiles (an integer constant expression by 7.19p3).  chibicc -cc1: SIGSEGV (wait status 139), no diagnostic.
//   default:   primary(), `sizeof buf`           (sizeof <expression of VLA type>)
//   -DADD:     new_add(), `p + 1`                (pointer to VLA + integer)
//   -DSUB:     new_sub(), `p - 1` and `p - q`    (pointer to VLA - integer, pointer - pointer)
#include <stddef.h>
struct S { int a; int m; };
#if defined(ADD)
char (*p)[offsetof(struct S, m)];
void *f(void) { return p + 1; }
#elif defined(SUB)
char (*p)[offsetof(struct S, m)], (*q)[offsetof(struct S, m)];
void *f(void) { return p - 1; }
long g(void) { return p - q; }
#else
char buf[offsetof(struct S, m)];
int f(void) { return sizeof buf; }
#endif
int main(void) { return 0; }
