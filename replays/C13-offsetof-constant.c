// C13 R13.16 offsetof() (7.19p3: an integer constant expression) as include/stddef.h of the compiler expands it,
// ((size_t)&(((type *)0)->member)), where a constant expression is required.
// Expected (gcc): compiles, exit 0.
//   default:  eval2() demands a relocation label for an array member even when the object sits at a constant address:
//             chibicc: "not a compile-time constant" at the enumerator, exit 1
//   -DBOUND:  is_const_expr() does not know &, -> and *: the array becomes a VLA of "size 8"; chibicc compiles, the program exits 1
//             (see C13-offsetof-array-bound.c for the crashes that follow from the same cause)
#include <stddef.h>
struct S { int a; int m; char arr[10]; };
#ifdef BOUND
char buf[offsetof(struct S, m)];
int main(void) { return sizeof(struct { char c[offsetof(struct S, m)]; }) != 4; }
#else
enum { E = offsetof(struct S, arr[3]) };
int main(void) { return E != 11; }
#endif
