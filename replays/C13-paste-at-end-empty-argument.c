#define F(x) x ##
F()
int main(void){return 0;}
