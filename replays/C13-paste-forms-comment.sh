#!/bin/sh
# R13.9 paste: `/ ## /` forms `//`, which the tokenizer skips as a comment: the pasted buffer holds no token at all, the first
# element of its token list is the TK_EOF marker and paste() reads tok->next->kind through the marker's NULL successor.
# expected: a located diagnostic (gcc: pasting "/" and "/" does not give a valid preprocessing token);
# chibicc: Segmentation fault (through the driver: exit 1 without any message).
CC=${1:-./chibicc}; d=$(mktemp -d); trap 'rm -rf "$d"' EXIT
printf '#define P(a,b) a##b\nint x = 4 P(/,/) 2;\nint main(){return 0;}\n' > $d/a.c
echo "--- $CC -cc1 a.c"; $CC -cc1 -cc1-input $d/a.c -cc1-output $d/a.s $d/a.c; echo "rc=$?"
echo "--- gcc -fsyntax-only a.c"; gcc -fsyntax-only $d/a.c 2>&1 | head -2
