#!/bin/sh
# R13.29 parse.c stmt: `return expr;` reads current_fn->ty->return_ty.  current_fn is NULL until function() stores it; a statement expression in a
# file-scope initializer / array bound / sizeof reaches stmt() before that.  expected: a located diagnostic (gcc: "braced-group within expression
# allowed only inside a function"); chibicc -cc1: Segmentation fault.
CC=${1:-./chibicc}; d=$(mktemp -d); trap 'rm -rf "$d"' EXIT
printf 'int x = ({ return 1; 2; });\n' > $d/a.c
printf 'int a[sizeof(({return 1; 1;}))];\n' > $d/b.c
for f in a b; do
  echo "--- $CC -cc1 $f.c"; $CC -cc1 -cc1-input $d/$f.c -cc1-output $d/$f.s $d/$f.c; echo "rc=$?"
  echo "--- gcc -fsyntax-only $f.c"; gcc -fsyntax-only $d/$f.c 2>&1 | head -2
done
