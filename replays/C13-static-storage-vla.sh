#!/bin/sh
# C13 (found while replaying C08-offsetof-array-bound.c): an array whose bound is not a constant expression is given a VLA type
# also when the object has static storage duration (file scope, block-scope static); global_variable() / declaration() do not
# diagnose it.  expected: a located diagnostic (gcc: "variably modified 'b' at file scope", "storage size of 'b' isn't constant").
# chibicc: a.c is accepted, `b` is emitted as an 8-byte pointer slot and the program crashes at run time; b.c and c.c crash the
# compiler (cc1: SIGSEGV, status 139) in sizeof, which reads the VLA's size variable.
CC=${1:-./chibicc}; d=$(mktemp -d); trap 'rm -rf "$d"' EXIT
printf 'int n = 3;\nchar b[n];\nint main(void) { b[0] = 1; return b[0] - 1; }\n' > $d/a.c
printf 'int n = 3;\nchar b[n];\nint main(void) { return sizeof b; }\n' > $d/b.c
printf 'int f(int n) { static char b[n]; return sizeof b; }\n' > $d/c.c
for f in a b c; do
  echo "--- $CC -cc1 $f.c"; $CC -cc1 -cc1-input $d/$f.c -cc1-output $d/$f.s $d/$f.c; echo "rc=$?"
  echo "--- gcc -c $f.c"; gcc -c -o $d/$f.o $d/$f.c 2>&1 | grep error | head -1
done
