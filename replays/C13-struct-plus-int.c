// C13 R13.1 new_add / new_sub: `struct + 1` (and `1 - ptr`, `struct - 1`) reach lhs->ty->base->kind with base == NULL.
// Invalid program; expected (gcc): located error "invalid operands to binary +".  chibicc -cc1: SIGSEGV (139).
// Compile with -DSUB for the new_sub site.
struct S { int a; } s;
#ifdef SUB
int main(void) { return sizeof(s - 1); }
#else
int main(void) { return sizeof(s + 1); }
#endif
