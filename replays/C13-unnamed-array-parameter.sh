#!/bin/sh
# R13.30 parse.c func_params: a parameter of array (or function) type is replaced by a fresh pointer type that takes over ty->name but not
# ty->name_pos.  In a definition with an unnamed such parameter create_param_lvars() reports "parameter name omitted" at param->name_pos == NULL.
# expected: a located diagnostic (gcc: "parameter name omitted"); chibicc -cc1: Segmentation fault.  `void f(int) {}` is diagnosed properly.
CC=${1:-./chibicc}; d=$(mktemp -d); trap 'rm -rf "$d"' EXIT
printf 'void f(int[3]) {}\n' > $d/a.c
printf 'void f(int(void)) {}\n' > $d/b.c
printf 'void f(int) {}\n' > $d/c.c
for f in a b c; do
  echo "--- $CC -cc1 $f.c"; $CC -cc1 -cc1-input $d/$f.c -cc1-output $d/$f.s $d/$f.c; echo "rc=$?"
done
echo "--- gcc -std=c11 -fsyntax-only a.c"; gcc -std=c11 -pedantic-errors -fsyntax-only $d/a.c 2>&1 | head -2
