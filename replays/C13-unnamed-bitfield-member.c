// C13 R13.1 get_struct_member: member lookup walks over an unnamed bit-field whose Member.name is NULL.
// Valid C11 (6.7.2.1p12). Expected (gcc): compiles, exit 0.  chibicc -cc1: SIGSEGV (wait status 139), no diagnostic.
//   ./chibicc -cc1 -cc1-input C13-unnamed-bitfield-member.c -cc1-output /dev/null C13-unnamed-bitfield-member.c; echo $?
struct S { int :3; int x; };
int main(void) { struct S s; s.x = 1; return s.x - 1; }
