// R13.38 declarator / abstract_declarator: `(` behind the pointers is always read as a nested declarator.
// An unnamed function declarator -- `int (void)`, `int ()`, `int (T)` with T a typedef name (C11 6.7.6.3p11) -- is
// valid as a parameter declaration and as a type name.  expected (gcc): compiles, prints "42 42 8 42 42".
// pinned chibicc: line `void g(int (void));`: "expected ')'" (exit 1); with only h(): `int ()` is silently
// declared as a plain int parameter.
int printf(const char *, ...);
void g(int (void));
void h(int());
typedef int T;
void m(int (T));
void g(int f(void)) { printf("%d ", f()); }
void h(int f()) { printf("%d ", f()); }
void m(int f(T)) { printf("%d ", f(4)); }
int k(void) { return 42; }
int tw(T x) { return 2 * x; }
__typeof__(int (void)) *fp2 = k;
__typeof__(int ()) *fp3 = k;
int main(void) {
  g(k); h(k); m(tw);
  printf("%d %d\n", fp2(), fp3());
  return 0;
}
