#!/bin/bash
# Replay for known findings R14.8:main.c:main:cmd-M-asm-suffix:* and R14.8:main.c:main:cmd-M-x-asm:*
#
# usage: C14-M-asm-input.sh <path to a built chibicc binary (scratch copy, never /repo)>
#
# parse_args(): only -E forces the input language to C (`if (opt_E) opt_x = FILE_C;`). main()'s arm for
# assembler inputs handles -S and -c and otherwise assembles into a temporary and links. With -M (print
# the dependencies, implies -E) and an assembler input - by suffix or by -x assembler - the driver therefore
# assembles and links: no rule is printed, and an executable nobody asked for appears as ./a.out
# (or the -o operand becomes an ELF file instead of a makefile fragment).
#
# expected (gcc): `cc -M start.s` creates no file, exit 0.
# actual on the pinned tree: `chibicc -M start.s`: exit 0, prints nothing, ./a.out is created;
#                            `chibicc -M -o deps.mk start.s`: deps.mk is an ELF executable.
set -u
cc=$(realpath "${1:?path to chibicc}")
d=$(mktemp -d)
trap 'rm -rf "$d"' EXIT
cd "$d"
printf '  .globl main\n  .text\nmain:\n  mov $0, %%eax\n  ret\n  .section .note.GNU-stack,"",@progbits\n' > start.s
bad=0
"$cc" -M start.s > out1 2> err1; rc=$?
echo "chibicc -M start.s: exit $rc; files: $(ls | tr '\n' ' ')"
[ -e a.out ] && bad=1
rm -f a.out
"$cc" -M -o deps.mk start.s > out2 2> err2; rc=$?
kind=$( [ -e deps.mk ] && file -b deps.mk | cut -d, -f1 || echo "no file")
echo "chibicc -M -o deps.mk start.s: exit $rc; deps.mk is: $kind"
case "$kind" in *ELF*) bad=1;; esac
if [ "$bad" = 0 ]; then echo "OK: -M starts neither the assembler nor the linker"; exit 0; fi
echo "DEFECT: -M with an assembler input assembles and links (unrequested executable)"; exit 1
