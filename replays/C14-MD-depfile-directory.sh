#!/bin/bash
# Replay for known findings R14.8:main.c:cc1:MD+o-dir:* and R14.8:main.c:cc1:cmd-c+MD+o-dir:*
#
# usage: C14-MD-depfile-directory.sh <path to a built chibicc binary (scratch copy, never /repo)>
#
# print_dependencies(): with -MD/-MMD and `-o DIR/x.o` the dependency file name is replace_extn(opt_o, ".d"),
# and replace_extn() takes basename(): the directory of the -o operand is dropped. The .d file is created in
# the current directory instead of beside the object file; the requested DIR/x.d never exists.
#
# expected (gcc): `cc -MD -c -o build/x.o a.c` writes build/x.o and build/x.d, nothing in the current directory.
# actual on the pinned tree: build/x.o and ./x.d (a build that includes build/*.d silently loses its dependencies,
#                            and two objects with the same base name in different directories share one ./x.d).
set -u
cc=$(realpath "${1:?path to chibicc}")
d=$(mktemp -d)
trap 'rm -rf "$d"' EXIT
cd "$d"
mkdir build
printf 'int a(void) { return 1; }\n' > a.c
"$cc" -MD -c -o build/x.o a.c; rc=$?
echo "chibicc -MD -c -o build/x.o a.c: exit $rc; cwd: $(ls | tr '\n' ' '); build: $(ls build | tr '\n' ' ')"
if [ "$rc" = 0 ] && [ -e build/x.d ] && [ ! -e x.d ]; then echo "OK: the dependency file lies beside the -o output"; exit 0; fi
echo "DEFECT: the dependency file of -MD -o build/x.o is ./x.d, not build/x.d"; exit 1
