#!/bin/bash
# Replay for known finding R14.8:main.c:main:link-asm:unrequested-output-start.v1.o
#
# usage: C14-asm-input-link.sh <path to a built chibicc binary (scratch copy, never /repo)>
#
# main(): for a `.s` input the driver runs `assemble(input, output)` with output = -o name or
# <input stem>.o whenever -S is not given - also when neither -c nor -S is given (link mode). The object
# is written into the current directory under a name nobody asked for and is NOT added to the linker's
# inputs.
#
# expected (gcc, and the pinned tree after fix-asm-input-link.diff):
#   `cc main.c helper.s` links both, exit 0, only a.out is created;
#   `cc -o app helper2.s` (helper2.s defines main) produces an executable `app`.
# actual on the pinned tree:
#   `chibicc main.c helper.s`: ld fails with "undefined reference to `helper'", exit 1, helper.o left behind;
#   `chibicc -o app helper2.s`: exit 0, `app` is a relocatable object file, not an executable.
set -u
cc=$(realpath "${1:?path to chibicc}")
d=$(mktemp -d)
trap 'rm -rf "$d"' EXIT
cd "$d"
cat > main.c <<'E'
int helper(void);
int main(void) { return helper() - 42; }
E
printf '  .globl helper\n  .text\nhelper:\n  mov $42, %%eax\n  ret\n  .section .note.GNU-stack,"",@progbits\n' > helper.s
printf '  .globl main\n  .text\nmain:\n  mov $0, %%eax\n  ret\n  .section .note.GNU-stack,"",@progbits\n' > helper2.s
bad=0
"$cc" main.c helper.s 2> err1; rc=$?
echo "chibicc main.c helper.s: exit $rc; files: $(ls | tr '\n' ' ')"
[ "$rc" = 0 ] && [ -x a.out ] && ./a.out && [ ! -e helper.o ] || { bad=1; grep -m1 'undefined reference' err1; }
rm -f a.out helper.o
"$cc" -o app helper2.s 2> err2; rc=$?
kind=$( [ -e app ] && file -b app | cut -d, -f1 || echo "no file")
echo "chibicc -o app helper2.s: exit $rc; app is: $kind"
case "$kind" in *executable*|*"shared object"*) ;; *) bad=1;; esac
if [ "$bad" = 0 ]; then echo "OK: assembler inputs are linked"; exit 0; fi
echo "DEFECT: a .s input in link mode is assembled into an unrequested object and never linked"; exit 1
