#!/bin/bash
# Replay for known finding R14.4:main.c:run_subprocess:fork-failure-reads-uninitialised-status
#
# usage: C14-fork-failure.sh <path to a built chibicc binary (scratch copy, never /repo)>
#
# run_subprocess() does `if (fork() == 0) {...}` and then `while (wait(&status) > 0); if (status != 0) exit(1);`.
# When fork() fails there is no child, wait() returns -1 at once without writing `status`, and the test
# reads the uninitialised variable.
#
# expected (what a driver should do, and what the pinned tree does after fix-fork-failure.diff):
#   a diagnostic such as "fork failed: Resource temporarily unavailable" and exit status 1
# actual on the pinned tree:
#   no diagnostic at all; the exit status is stack garbage: 1 with the Makefile's -O0 build,
#   0 (success reported, no output file written) when chibicc is built with CFLAGS="-std=c11 -O2 -fno-common";
#   valgrind: "Conditional jump or move depends on uninitialised value(s) at run_subprocess (main.c:410)".
set -u
cc=${1:?path to chibicc}
d=$(mktemp -d)
trap 'rm -rf "$d"' EXIT
cat > "$d/nofork.c" <<'EOF'
#include <errno.h>
#include <sys/types.h>
pid_t fork(void) { errno = EAGAIN; return -1; }
EOF
gcc -shared -fPIC -o "$d/nofork.so" "$d/nofork.c" || exit 2
echo 'int main(void) { return 0; }' > "$d/t.c"
LD_PRELOAD="$d/nofork.so" "$cc" -c "$d/t.c" -o "$d/t.o" 2> "$d/err"
rc=$?
echo "exit status: $rc   stderr bytes: $(wc -c < "$d/err")   output written: $([ -e "$d/t.o" ] && echo yes || echo no)"
if command -v valgrind >/dev/null; then
  LD_PRELOAD="$d/nofork.so" valgrind -q "$cc" -c "$d/t.c" -o "$d/t.o" 2>&1 | grep -A2 'uninitialised' | head -4
fi
if [ -s "$d/err" ] && [ "$rc" != 0 ]; then
  echo "OK: fork failure is diagnosed"; exit 0
fi
echo "DEFECT: fork failure is not diagnosed (status read uninitialised)"; exit 1
