#!/bin/bash
# Replay for known finding R14.4:main.c:run_subprocess:failed-child-masked-by-status-of-another-child
#
# usage: C14-inherited-child-status.sh <path to a built chibicc binary (scratch copy, never /repo)>
#
# run_subprocess(): `while (wait(&status) > 0); if (status != 0) exit(1);` reaps EVERY child of the driver and
# decides on the status the LAST wait delivered. A process keeps its children across exec: when the driver is
# exec'ed by a shell or wrapper that has started a helper before (`helper & exec chibicc ...`, a build tool that
# forks a logger / job-server client and then execs the compiler), the helper is a child of the driver. If it
# exits (status 0) after the stage the driver started, the status of that stage is overwritten: a cc1 that ended
# in a diagnostic is taken for a success, `as` assembles the empty temporary, the driver exits 0 and the object
# of the translation unit that failed to compile is overwritten with an empty object. (The driver also blocks
# until the helper has exited.)
#
# expected (gcc): `sh -c 'sleep 1 & exec cc -c -o bad.o bad.c'` prints the diagnostic, exit 1, bad.o untouched.
# actual on the pinned tree: the diagnostic is printed, exit 0, bad.o replaced by an empty ELF object.
set -u
cc=$(realpath "${1:?path to chibicc}")
d=$(mktemp -d)
trap 'rm -rf "$d"' EXIT
cd "$d"
printf 'int main(void) { return 0 }\n' > bad.c          # syntax error: missing ';'
bad=0
ref=0
command -v gcc >/dev/null && { echo 'previous good object' > bad.o; sh -c 'sleep 1 & exec gcc -c -o bad.o bad.c' 2>/dev/null; ref=$?; echo "gcc      (helper child alive): exit $ref"; }

echo 'previous good object' > bad.o
cp bad.o bad.o.orig
"$cc" -c -o bad.o bad.c 2>/dev/null; rc=$?
echo "chibicc  (no other child)    : exit $rc"
[ "$rc" != 0 ] && cmp -s bad.o bad.o.orig || bad=1

sh -c 'sleep 1 & exec "$0" -c -o bad.o bad.c' "$cc" 2>/dev/null; rc=$?
echo "chibicc  (helper child alive): exit $rc; bad.o: $(cmp -s bad.o bad.o.orig && echo untouched || echo OVERWRITTEN)"
[ "$rc" != 0 ] && cmp -s bad.o bad.o.orig || bad=1

if [ "$bad" = 0 ]; then echo "OK: the failure of a stage is seen whatever other children the driver owns"; exit 0; fi
echo "DEFECT: the status of a failed stage is overwritten by the status of another child of the driver"; exit 1
