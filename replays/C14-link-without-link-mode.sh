#!/bin/bash
# Replay for known findings R14.8:main.c:main:cmd-c-obj:* and R14.8:main.c:main:cmd-S-obj:*
#
# usage: C14-link-without-link-mode.sh <path to a built chibicc binary (scratch copy, never /repo)>
#
# main(): object / archive / shared-library inputs and -l / -Wl, operands are collected into ld_args in
# every mode, and after the loop `if (ld_args.len > 0) run_linker(...)` runs whatever the mode is. With
# -c, -S (or -E / -M together with a -l operand) the driver therefore links although the command line says
# "do not link".
#
# expected (gcc): `cc -c g.c main.o` compiles g.c into g.o, warns that main.o is unused, creates nothing else;
#                 `cc -c m.c -lm` compiles m.c, exit 0.
# actual on the pinned tree: `chibicc -c g.c main.o`: exit 0 and an unrequested ./a.out;
#                            `chibicc -c m.c -lm`: ld fails with "undefined reference to `main'", exit 1.
set -u
cc=$(realpath "${1:?path to chibicc}")
d=$(mktemp -d)
trap 'rm -rf "$d"' EXIT
cd "$d"
printf 'int main(void) { return 0; }\n' > m.c
printf 'int g(void) { return 1; }\n' > g.c
gcc -c m.c -o main.o
bad=0
"$cc" -c g.c main.o 2> err1; rc=$?
echo "chibicc -c g.c main.o: exit $rc; files: $(ls | tr '\n' ' ')"
[ "$rc" = 0 ] && [ -e g.o ] && [ ! -e a.out ] || bad=1
rm -f a.out g.o
"$cc" -S g.c main.o 2> err2; rc=$?
echo "chibicc -S g.c main.o: exit $rc; files: $(ls | tr '\n' ' ')"
[ "$rc" = 0 ] && [ -e g.s ] && [ ! -e a.out ] || bad=1
rm -f a.out g.s
"$cc" -c m.c -lm 2> err3; rc=$?
echo "chibicc -c m.c -lm: exit $rc; files: $(ls | tr '\n' ' ')"
[ "$rc" = 0 ] && [ -e m.o ] && [ ! -e a.out ] || { bad=1; grep -m1 'undefined reference' err3; }
if [ "$bad" = 0 ]; then echo "OK: the linker runs only in link mode"; exit 0; fi
echo "DEFECT: the linker is run under -c / -S whenever an object, library or linker option is on the command line"; exit 1
