#!/bin/bash
# Replay for known findings R14.16:main.c:main:same-*:input-overwritten-by-*
#
# usage: C14-output-is-input.sh <path to a built chibicc binary (scratch copy, never /repo)>
#
# main() never compares the name of an output with the names of the inputs: when the operand of -o names an input,
# or when the output name derived from an input whose language was forced by -x is the input itself
# (`-xc -S unit.s` -> unit.s), the command line is accepted, exit status 0, and the user's source file is replaced
# by the output (assembly text, an object file, the preprocessed text, a dependency rule, the linked program).
#
# expected (gcc 12): "fatal error: input file 'x.c' is the same as output file", exit 1, x.c untouched
#                    (for `-xc -S unit.s` the message comes from cc1).
# `-c -xc unit.o` (derived <stem>.o is the input) is destroyed silently by gcc 12 as well; it is listed because the
# clause "an invocation does not destroy its inputs" is violated all the same.
# Not defects (fail safe): `-c -o x.s x.s` and `-o f.o main.c f.o` - GNU as / ld refuse an output that is one of
# their own operands.
set -u
cc=$(realpath "${1:?path to chibicc}")
d=$(mktemp -d)
trap 'rm -rf "$d"' EXIT
cd "$d"
SRC='#define ONE 1
int f(void) { return ONE; }'
printf 'int f(void); int main(void) { return f() - 1; }\n' > main.c
bad=0
try() {  # label victim args...
  label=$1; victim=$2; shift 2
  printf '%s\n' "$SRC" > "$victim"
  before=$(md5sum < "$victim")
  "$cc" "$@" >/dev/null 2>err.txt; rc=$?
  after=$(md5sum < "$victim" 2>/dev/null)
  if [ "$before" = "$after" ] && [ "$rc" != 0 ]; then st="refused, input untouched"
  elif [ "$before" = "$after" ]; then st="exit 0, input untouched"
  else st="INPUT REPLACED (exit $rc)"; bad=$((bad + 1)); fi
  echo "$label: chibicc $*: $st"
}
try S-xc-derived unit.s -S -xc unit.s
try c-xc-derived unit.o -c -xc unit.o
try c+o x.c -c -o x.c x.c
try S+o-joined x.c -S -ox.c x.c
try E+o x.c -E -o x.c x.c
try M+o x.c -M -o x.c x.c
try link+o-second-input x.c -o x.c main.c x.c
# the idiom that must keep working: standard input to standard output
echo 'int main() {}' | "$cc" -S -o - -xc - | grep -q 'main:' || { echo "DEFECT: -S -o - -xc - no longer works"; bad=$((bad + 1)); }
if [ "$bad" = 0 ]; then echo "OK: no input file is replaced by an output"; exit 0; fi
echo "DEFECT: $bad command lines replace an input file by the output"; exit 1
