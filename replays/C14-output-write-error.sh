#!/bin/bash
# Replay for known findings R14.13:main.c:cc1:stream-from-open_file-write-errors-never-examined,
# R14.13:main.c:print_tokens:... and R14.13:main.c:print_dependencies:...
#
# usage: C14-output-write-error.sh <path to a built chibicc binary (scratch copy, never /repo)>
#
# cc1() / print_tokens() / print_dependencies() write the output through a stdio stream and never look at its error
# state: fwrite()/fprintf() results, ferror() and the result of fclose() are all ignored (print_tokens and
# print_dependencies do not even close the stream). /dev/full accepts open() and fails every write with ENOSPC.
#
# expected (gcc): `cc -S -o /dev/full ok.c`: error "No space left on device", non-zero exit (same for -E and -M).
# actual on the pinned tree: exit 0 in all three modes although nothing was written.
set -u
cc=$(realpath "${1:?path to chibicc}")
[ -c /dev/full ] || { echo "SKIP: no /dev/full"; exit 0; }
d=$(mktemp -d)
trap 'rm -rf "$d"' EXIT
cd "$d"
printf 'int main(void) { return 0; }\n' > ok.c
bad=0
for mode in -S -E -M; do
  "$cc" $mode -o /dev/full ok.c 2> err; rc=$?
  echo "chibicc $mode -o /dev/full ok.c: exit $rc"
  [ "$rc" != 0 ] || bad=1
done
if [ "$bad" = 0 ]; then echo "OK: a failed write of the output is an error"; exit 0; fi
echo "DEFECT: the output could not be written (ENOSPC) and chibicc reports success"; exit 1
