#!/bin/bash
# Replay for known finding R14.13:tokenize.c:read_file:fread-error-read-as-end-of-file
#
# usage: C14-unreadable-input-is-empty.sh <path to a built chibicc binary (scratch copy, never /repo)>
#
# read_file(): the read loop stops when fread() returns 0 and ferror() is never consulted. fopen(path, "r") succeeds on
# a directory; the first fread() then fails with EISDIR and returns 0 - which is read as end of file. The "file" is
# an empty translation unit.
#
# expected (gcc): `cc -c d.c` with d.c a directory: error "d.c is a directory", non-zero exit, no d.o;
#                 `#include "sub"` with sub a directory: error, non-zero exit.
# actual on the pinned tree: exit 0, d.o is created; the #include of a directory is silently an empty header.
set -u
cc=$(realpath "${1:?path to chibicc}")
d=$(mktemp -d)
trap 'rm -rf "$d"' EXIT
cd "$d"
mkdir d.c sub
printf '#include "sub"\nint main(void) { return 0; }\n' > inc.c
bad=0
"$cc" -c d.c 2> err1; rc=$?
echo "chibicc -c d.c (a directory): exit $rc; files: $(ls | tr '\n' ' ')"
[ "$rc" != 0 ] && [ ! -e d.o ] || bad=1
"$cc" -c -I. inc.c 2> err2; rc=$?
echo "chibicc -c inc.c (#include of a directory): exit $rc"
[ "$rc" != 0 ] && [ ! -e inc.o ] || bad=1
if [ "$bad" = 0 ]; then echo "OK: an input that cannot be read is an error"; exit 0; fi
echo "DEFECT: a read error (EISDIR) is taken for end of file: the directory compiles as an empty translation unit / header"; exit 1
