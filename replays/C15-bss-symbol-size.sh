#!/bin/sh
# C15 / R15.1 symbol-size/bss, symbol-size/tbss
# emit_data writes `.type x, @object` / `.size x, n` only for initialised objects; objects that go
# to .bss/.tbss (every uninitialised object under -fno-common, every uninitialised _Thread_local)
# get an ELF symbol of type NOTYPE and size 0.
#   usage: C15-bss-symbol-size.sh /path/to/chibicc
#   chibicc: "0 NOTYPE  GLOBAL DEFAULT counter" / "0 TLS ... tl" ; gcc: "16 OBJECT GLOBAL counter" / "4 TLS tl"
#   linking the shared object into a non-PIE program makes ld warn
#   "type and size of dynamic symbol `counter' are not defined"
CC=${1:-/repo/chibicc}
d=$(mktemp -d); trap 'rm -rf "$d"' EXIT
printf 'int counter[4];\n_Thread_local int tl;\n' > "$d/a.c"
"$CC" -fno-common -c -o "$d/a.o" "$d/a.c" && readelf -sW "$d/a.o" | grep -E ' (counter|tl)$'
gcc -fno-common -c -o "$d/g.o" "$d/a.c" && readelf -sW "$d/g.o" | grep -E ' (counter|tl)$'
