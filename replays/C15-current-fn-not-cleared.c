// C15 / R15.3 recording-context/cleared-after-body
// parse.c function() never resets current_fn after a body, so the file-scope reference `= f`
// below is recorded as a reference made *by f itself* (the previous function) instead of
// marking f as a root; f is an unreferenced static inline -> never emitted.
//   chibicc -o t C15-current-fn-not-cleared.c   -> ld: undefined reference to `f'
//   gcc     -o t C15-current-fn-not-cleared.c && ./t   -> exit status 0
static inline int f(void) { return 1; }
int (*p)(void) = f;
int main(void) { return p() - 1; }
