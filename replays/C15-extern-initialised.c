// C15 / R15.5 global_variable is_definition/extern/initialised
// C11 6.9.2p1: a file-scope declaration with an initializer is a definition, `extern` or not.
// global_variable() sets is_definition = !attr->is_extern, so emit_data skips x.
//   chibicc -o t C15-extern-initialised.c   -> ld: undefined reference to `x'
//   gcc -w  -o t C15-extern-initialised.c && ./t   -> exit status 0
extern int x = 3;
int main(void) { return x - 3; }
