#!/bin/sh
# C15 / R15.8 function linkage/declaration-sequence/inline-then-external-declaration
# C11 6.7.4p7: a definition is an inline definition only if EVERY file-scope declaration of the function says
# `inline` without `extern`.  `inline int f(void){..}` followed by `extern inline int f(void);` (the C99 idiom to
# emit the external definition in exactly one unit) is an external definition.  function() decides is_static from
# the first declaration (`inline` alone -> is_static) and a redeclaration never revises it: f is emitted .local.
#   usage: C15-extern-inline-redeclaration.sh /path/to/chibicc
#   chibicc: f is not emitted at all (or `t f` when the unit references it), the link fails with "undefined reference to `f'"; gcc: `T f`, exit status 0
CC=${1:-/repo/chibicc}
d=$(mktemp -d); trap 'rm -rf "$d"' EXIT
cd "$d" || exit 2
echo 'inline int f(void) { return 1; } extern inline int f(void);' > a.c
echo 'int f(void); int main(void) { return f() - 1; }' > m.c
rc=0
for cc in "$CC" gcc; do
  $cc -c -o a.o a.c || exit 2; $cc -c -o m.o m.c || exit 2
  echo "== $cc"; nm a.o | grep ' f$'
  if gcc -o p m.o a.o 2>err; then ./p; echo "exit status $?"; else grep 'undefined reference' err; [ "$cc" = "$CC" ] && rc=1; fi
done
exit $rc
