#!/bin/sh
# C15 / R15.4 gen_addr ND_VAR/tls/extern
# Without -fPIC gen_addr addresses every thread-local variable with the local-exec sequence
# (`mov %fs:0,%rax; add $x@tpoff,%rax`).  x@tpoff is a link-time constant only for a variable in the executable's
# own TLS block; an `extern _Thread_local` variable may be defined by a shared object and needs initial-exec
# (`mov x@gottpoff(%rip),%rax; add %fs:0,%rax`, relaxed by ld when the definition is in the executable).
#   usage: C15-extern-tls-shared-object.sh /path/to/chibicc
#   chibicc: ld: unresolvable R_X86_64_TPOFF32 relocation against symbol `tv'; gcc: exit status 0
CC=${1:-/repo/chibicc}
d=$(mktemp -d); trap 'rm -rf "$d"' EXIT
cd "$d" || exit 2
echo '_Thread_local int tv = 42;' > lib.c
echo 'extern _Thread_local int tv; int main(void) { return tv - 42; }' > m.c
gcc -shared -fPIC -o libtv.so lib.c || exit 2
rc=0
for cc in "$CC" gcc; do
  echo "== $cc"
  if $cc -o p m.c -L. -ltv 2>err; then LD_LIBRARY_PATH=. ./p; echo "exit status $?"; else grep -i 'unresolvable\|error' err; [ "$cc" = "$CC" ] && rc=1; fi
done
exit $rc
