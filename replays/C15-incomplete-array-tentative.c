// C15 / R15.5 scan_globals array-type/incomplete-array-completed, array-type/composite-type-of-survivor
// (1) `int arr[];` still incomplete at the end of the unit is defined with one element (C11 6.9.2p5); chibicc
//     emits `.comm arr, -4, 4` (the assembler ignores the size: arr stays undefined).
// (2) `int a[]; int a[5];` is one object of type int[5]; scan_globals keeps the earliest tentative definition
//     (`int a[]`, size -4) and drops the complete one.
//   chibicc -o t C15-incomplete-array-tentative.c   -> as: size (-4) out of range; ld: undefined reference to `arr', `a'
//   gcc     -o t C15-incomplete-array-tentative.c && ./t   -> exit status 0
int arr[];
int a[];
int a[5];
int main(void) { a[4] = 7; return arr[0] + a[4] - 7; }
