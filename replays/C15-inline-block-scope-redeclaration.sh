#!/bin/sh
# C15 / R15.8 function linkage/block-scope-redeclaration/every-file-scope-declaration-inline
# C11 6.7.4p7: a definition is an inline definition if every FILE-SCOPE declaration of the function says `inline`
# without `extern`.  A declaration inside a function body (`int g(void){ int f(void); .. }`) does not count.
# function() revises is_inline_only / is_static on any redeclaration that lacks `inline`, also a block-scope one:
# the inline definition becomes an external definition (`T f`), and two units doing this do not link.
#   usage: C15-inline-block-scope-redeclaration.sh /path/to/chibicc
#   chibicc: `T f` in both objects, "multiple definition of `f'"; gcc: `U f` in both, links with the unit that provides f, exit status 0
CC=${1:-/repo/chibicc}
d=$(mktemp -d); trap 'rm -rf "$d"' EXIT
cd "$d" || exit 2
echo 'inline int f(void) { return 3; } int g1(void) { int f(void); return f(); }' > a.c
echo 'inline int f(void) { return 3; } int g2(void) { int f(void); return f(); }' > b.c
echo 'int g1(void); int g2(void); extern int f(void) { return 3; } int main(void) { return g1() + g2() - 6; }' > m.c
rc=0
for cc in "$CC" gcc; do
  $cc -c -o a.o a.c || exit 2; $cc -c -o b.o b.c || exit 2; $cc -c -o m.o m.c || exit 2
  echo "== $cc"; nm a.o b.o | grep ' f$'
  if gcc -o p m.o a.o b.o 2>err; then ./p; echo "exit status $?"; else grep 'multiple definition' err; [ "$cc" = "$CC" ] && rc=1; fi
done
exit $rc
