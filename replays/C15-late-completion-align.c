// C15 R15.15: a tentative definition whose struct type is completed later in the
// translation unit is emitted with the alignment of the incomplete type (1).
//   chibicc -S -o - C15-late-completion-align.c | grep -E '\.comm s|\.comm t'   -> ".comm s, 16, 1" (expected 8)
//   chibicc -fno-common -S ... -> ".align 1" before "s:" and "t:"
//   gcc -S -fcommon: ".comm s,16,8"; gcc -fno-common: ".align 8"
// With the odd-sized object in front the program returns 1 under -fno-common (address of s is odd).
struct S;
char pad = 1;
struct S s;
static struct S t;
struct S { long a; long b; };
int main(void) {
  t.a = 0;
  return ((unsigned long)&s % 8 != 0) || ((unsigned long)&t % 8 != 0);
}
