// C15 / R15.11 function composite-type/prototype-after-unprototyped (and .../definition)
// C11 6.2.7p3/p4: after `double g(); double g(double x);` the type of g is the composite type, i.e. the
// prototype; calls convert their arguments to the parameter types (6.5.2.2p7).  function() never updates
// fn->ty on a redeclaration: g keeps the unprototyped type, g(3) passes the int 3 in %edi and g reads %xmm0.
//   chibicc -o p C15-prototype-after-unprototyped.c && ./p   -> prints garbage (-nan / 0.000000), exit status 1
//   gcc: prints "6.000000 8.000000", exit status 0
#include <stdio.h>
double g();
double g(double x) { return x * 2; }
double h();
double h(double x);
int main(void) {
  double a = g(3), b = h(4);
  printf("%f %f\n", a, b);
  return !(a == 6 && b == 8);
}
double h(double x) { return x * 2; }
