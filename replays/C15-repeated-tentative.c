// C15 / R15.5 scan_globals repeated-tentative/one-survives
// Two tentative definitions of one object: scan_globals finds "another definition" for each of
// them (the other tentative one) and removes both, so x is never defined.
//   chibicc -o t C15-repeated-tentative.c   -> ld: undefined reference to `x'
//   gcc     -o t C15-repeated-tentative.c && ./t   -> exit status 0
int x;
int x;
int main(void) { x = 3; return x - 3; }
