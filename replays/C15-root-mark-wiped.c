// C15 / R15.3 is_root/redeclaration-keeps-root-mark
// The file-scope reference marks f as a root (current_fn is still NULL: no body parsed yet),
// but function() recomputes fn->is_root = !(static && inline) when the definition arrives,
// so the mark is lost and f is never emitted.
//   chibicc -o t C15-root-mark-wiped.c   -> ld: undefined reference to `f'
//   gcc     -o t C15-root-mark-wiped.c && ./t   -> exit status 0
static inline int f(void);
int (*p)(void) = f;
static inline int f(void) { return 1; }
int main(void) { return p() - 1; }
