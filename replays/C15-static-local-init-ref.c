// C15 / R15.10 primary static-initialiser-reference/marks-root
// A block-scope static object is an anonymous global: emit_data emits it whether or not the function
// whose body declares it is emitted.  primary() records the function named in its initialiser only on
// the refs list of the enclosing function (current_fn is set), so when the enclosing function is an
// unreferenced static inline function, f is never marked live while `.quad f` is in .data.
//   chibicc -o t C15-static-local-init-ref.c   -> ld: undefined reference to `f'
//   gcc     -o t C15-static-local-init-ref.c && ./t   -> exit status 0
static inline int f(void) { return 1; }
static inline int g(void) { static int (*p)(void) = f; return p(); }
int main(void) { return 0; }
