// C15 / R15.6 declaration static-local/thread-local-flag
// A block-scope `static _Thread_local` object is created by new_anon_gvar without is_tls:
// it lands in .bss and is shared by all threads.
//   chibicc -o t C15-static-local-tls.c -lpthread && ./t   -> prints 4
//   gcc     -o t C15-static-local-tls.c -lpthread && ./t   -> prints 2
#include <pthread.h>
#include <stdio.h>
static int bump(void) { static _Thread_local int n; return ++n; }
static void *th(void *a) { bump(); bump(); return 0; }
int main(void) {
  pthread_t t;
  bump();
  pthread_create(&t, 0, th, 0);
  pthread_join(t, 0);
  printf("%d\n", bump());
  return 0;
}
