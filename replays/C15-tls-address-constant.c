// C15 / R15.12 eval_rval ND_VAR/thread-local-address-constant, eval2 ND_VAR/thread-local-address-constant
// C11 6.6p9: an address constant designates an object of STATIC storage duration.  The address of a
// _Thread_local object differs per thread; eval_rval()/eval2() hand out var->name as relocation label
// without testing is_tls, so `.quad t` is emitted against a TLS symbol (the linker stores the offset of t
// in the TLS segment) and p points nowhere near any thread's t.
//   chibicc -o p C15-tls-address-constant.c && ./p   -> prints "0 0 0", exit status 1
//   gcc: error: initializer element is not constant
// (same evaluator arm, automatic storage: `int main(){ int a[3]; static int *p = a; }` is accepted by eval2
//  and fails at link time with "undefined reference to `a'"; R15.12 eval2 ND_VAR/automatic-object-address-constant)
#include <stdio.h>
_Thread_local int t = 5;
_Thread_local int a[3];
_Thread_local struct { int x, y[2]; } s;
int *p = &t;
int *q = a;
int *r = s.y;
int main(void) {
  printf("%d %d %d\n", p == &t, q == a, r == s.y);
  return !(p == &t && q == a && r == s.y);
}
