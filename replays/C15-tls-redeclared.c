// C15 / R15.5 scan_globals thread-local/no-initialiser-dropped-beside-definition, .../repeated-no-initialiser/only-one-survives
// `_Thread_local int x;` can be declared again like any file-scope object.  global_variable() never flags a
// thread-local object tentative (there are no thread-local common symbols), and scan_globals() merges
// tentative objects only: every declaration reaches emit_data and `x:` is defined twice.
//   chibicc -o t C15-tls-redeclared.c   -> Error: symbol `x' is already defined (also for `z`)
//   gcc     -o t C15-tls-redeclared.c && ./t   -> exit status 0
_Thread_local int x;
_Thread_local int x = 3;
_Thread_local int z;
_Thread_local int z;
int main(void) { z = 1; return x - 3 + z - 1; }
