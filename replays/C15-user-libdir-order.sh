#!/bin/sh
# C15 / R15.9 main search-path:user-directories-before-built-in
# run_linker() puts its built-in -L/usr/lib... directories on the ld command line BEFORE the user's -L directories
# (ld_extra_args).  ld searches -L directories left to right, so `-Ldir -lutil` finds the system's libutil before
# dir/libutil.a: a program linking its own build of a library whose name also exists in /usr/lib gets the wrong one.
#   usage: C15-user-libdir-order.sh /path/to/chibicc
#   chibicc: undefined reference to `my_private_sym'; gcc: exit status 0   (needs a system libutil, part of glibc)
CC=${1:-/repo/chibicc}
d=$(mktemp -d); trap 'rm -rf "$d"' EXIT
cd "$d" || exit 2
mkdir dir
echo 'int my_private_sym(void) { return 0; }' > dir/u.c
echo 'int my_private_sym(void); int main(void) { return my_private_sym(); }' > m.c
gcc -c -o dir/u.o dir/u.c && ar rcs dir/libutil.a dir/u.o || exit 2
rc=0
for cc in "$CC" gcc; do
  echo "== $cc"
  if $cc -o p m.c -Ldir -lutil 2>err; then ./p; echo "exit status $?"; else grep 'undefined reference' err; [ "$cc" = "$CC" ] && rc=1; fi
done
exit $rc
