#!/bin/sh
# C15 / R15.9 link-order/xlinker-group
# parse_args() collects the words of `-Xlinker <word>` in ld_extra_args, which run_linker() emits in front
# of ALL inputs; inputs, -l<lib> and -Wl,<words> keep their command-line position.  A positional linker
# option given through -Xlinker therefore no longer encloses the operands it was written around:
#   cc m.c -L. -Xlinker --start-group -la -lb -Xlinker --end-group
# becomes `ld ... --start-group --end-group m.o -la -lb ...`: two static archives that need each other
# (liba: fa -> fb, fa2; libb: fb -> fa2) are scanned once and the link fails with an undefined reference.
#   usage: C15-xlinker-position.sh /path/to/chibicc
#   chibicc: "undefined reference to `fa2'" for the -Xlinker form, 21 for the -Wl, form; gcc: 21 / 21
CC=${1:-/repo/chibicc}
d=$(mktemp -d); trap 'rm -rf "$d"' EXIT
cd "$d" || exit 2
echo 'int fb(int); int fa(int x) { return fb(x) + 1; }' > a1.c
echo 'int fa2(int x) { return x * 2; }' > a2.c
echo 'int fa2(int); int fb(int x) { return fa2(x) + 10; }' > b1.c
printf '#include <stdio.h>\nint fa(int); int main(void) { printf("%%d\\n", fa(5)); return 0; }\n' > m.c
rc=0
for cc in "$CC" gcc; do
  for f in a1 a2 b1; do $cc -c -o $f.o $f.c || exit 2; done
  rm -f liba.a libb.a; ar rcs liba.a a1.o a2.o; ar rcs libb.a b1.o
  echo "== $cc -Xlinker --start-group -la -lb -Xlinker --end-group"
  if $cc -o p1 m.c -L. -Xlinker --start-group -la -lb -Xlinker --end-group 2>err; then ./p1; else grep 'undefined reference' err; [ "$cc" = "$CC" ] && rc=1; fi
  echo "== $cc -Wl,--start-group -la -lb -Wl,--end-group"
  if $cc -o p2 m.c -L. -Wl,--start-group -la -lb -Wl,--end-group 2>err; then ./p2; else grep 'undefined reference' err; fi
  rm -f p1 p2 *.o
done
exit $rc
