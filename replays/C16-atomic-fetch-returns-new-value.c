#include <stdio.h>
#include <stdatomic.h>
int main() { _Atomic int a = 5; int r = atomic_fetch_add(&a, 1); printf("%d\n", r); return r != 5; }
