// C16: read-modify-write on _Atomic float / _Atomic double objects.
// Expected output (gcc -latomic):
//   2.5 5 6 2.25
//   1 4.5 4.5
//   0 4.5 4.5
//   2.25 8
//   6 1.5
// Before the fix the program does not terminate (the compare-exchange loop of
// `d += 1.0` compares the object with the ADDRESS of the expected value) - run
// it under `timeout 5`.
#include <stdio.h>
#include <stdatomic.h>
_Atomic double d = 1.5;
_Atomic float f = 2.5f;
int main(void) {
  d += 1.0;
  printf("%g", d);
  f *= 2;
  printf(" %g", (double)f);
  f++;
  printf(" %g", (double)f);
  _Atomic double *p = &d;
  *p -= 0.25;
  printf(" %g\n", d);

  double e = 2.25;
  int ok = atomic_compare_exchange_strong(&d, &e, 4.5);
  printf("%d %g %g\n", ok, d, 2 * e);
  e = 1.0;
  ok = atomic_compare_exchange_strong(&d, &e, 9.0);
  printf("%d %g %g\n", ok, d, e);

  d = 2.25;
  double o = atomic_exchange(&d, 8);
  printf("%g %g\n", o, d);
  float of = atomic_exchange(&f, 1.5f);
  printf("%g %g\n", (double)of, (double)f);
  return 0;
}
