#include <stdio.h>
#include <pthread.h>
struct S { int pad; _Atomic int x; } s;
void *w(void *p) { for (int i = 0; i < 1000000; i++) s.x += 1; return 0; }
int main() { pthread_t t[4]; for (int i = 0; i < 4; i++) pthread_create(&t[i], 0, w, 0); for (int i = 0; i < 4; i++) pthread_join(t[i], 0); printf("%d\n", s.x); return s.x != 4000000; }
