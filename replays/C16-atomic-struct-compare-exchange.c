// C16 R16.10: compare-and-swap on an _Atomic struct / union object of 1, 2, 4 or 8 bytes. A struct operand is evaluated to its
// address and load() of a struct type leaves that address in %rax: ND_CAS compares the ADDRESS of the expected-value object with the
// content of the atomic object and offers the ADDRESS of the new value. The exchange never succeeds (a retry loop spins forever).
// Build with chibicc and with gcc (-latomic), run: gcc prints "cas=1 s={3,4} e={1,2}" and exits 0; chibicc prints
// "cas=0 s={1,2} e={1,2}" and exits 1.
#include <stdatomic.h>
#include <stdio.h>
typedef struct { int a, b; } S;
_Atomic S s = {1, 2};
int main(void) {
  S e = {1, 2}, n = {3, 4};
  int r = atomic_compare_exchange_strong(&s, &e, n);
  S cur = s;
  printf("cas=%d s={%d,%d} e={%d,%d}\n", r, cur.a, cur.b, e.a, e.b);
  return r == 1 && cur.a == 3 && cur.b == 4 ? 0 : 1;
}
