// C16 R16.10: atomic_exchange on an _Atomic struct object of 8 bytes. ND_EXCH stores the ADDRESS of the new value into the object and
// leaves the fetched bytes in %rax, which the consumer of the struct-typed expression dereferences as an address.
// Build with chibicc and with gcc (-latomic), run: gcc prints "old={1,2} s={3,4}" and exits 0; the chibicc binary dies with SIGSEGV.
#include <stdatomic.h>
#include <stdio.h>
typedef struct { int a, b; } S;
_Atomic S s = {1, 2};
int main(void) {
  S n = {3, 4};
  S o = atomic_exchange(&s, n);
  S cur = s;
  printf("old={%d,%d} s={%d,%d}\n", o.a, o.b, cur.a, cur.b);
  return !(o.a == 1 && o.b == 2 && cur.a == 3 && cur.b == 4);
}
