// Replay: a store to an 8-byte _Atomic struct must be one 8-byte instruction.
// Build: <cc> -c -DWRITER store_struct.c -o w.o ; gcc -O1 -pthread store_struct.c w.o -o t ; ./t
// The writer (compiled by the compiler under test) alternates two values with
// atomic_store() and plain assignment; the reader (always gcc) takes single
// 8-byte snapshots and counts values nobody stored. Also a compare-exchange
// loop (writer side) runs against it.
#ifdef WRITER
#include <stdatomic.h>
typedef struct { int a, b; } S;
void writer_loop(_Atomic S *p, long n) {
  S x = {0, 0}, y = {-1, -1};
  for (long i = 0; i < n; i++) {
    atomic_store(p, x);
    *p = y;
  }
}
#else
#include <pthread.h>
#include <stdio.h>
#include <stdint.h>
typedef struct { int a, b; } S;
void writer_loop(S *p, long n);
static _Alignas(8) S obj;
static volatile int done;
static void *w(void *arg) { writer_loop(&obj, 20000000); done = 1; return 0; }
int main(void) {
  pthread_t t;
  pthread_create(&t, 0, w, 0);
  long torn = 0, n = 0;
  while (!done) {
    uint64_t v = __atomic_load_n((uint64_t *)&obj, __ATOMIC_SEQ_CST);
    n++;
    if (v != 0 && v != ~(uint64_t)0) torn++;
  }
  pthread_join(t, 0);
  printf("%s: %ld torn of %ld snapshots\n", torn ? "TORN" : "OK", torn, n);
  return torn != 0;
}
#endif
