// A store to a bit-field must not rewrite bytes of a neighbouring member (C11 3.14: a bit-field
// and an adjacent non-bit-field member, or bit-fields separated by a zero-width bit-field, are
// distinct memory locations). chibicc loads, merges and stores the whole storage unit of the
// bit-field's declared type; when that unit also holds (part of) a neighbour, indivisible
// updates of the neighbour made by another thread are undone.
//
//   chibicc -DV=<1..8> -o t C16-bitfield-store-atomic-neighbour.c -lpthread && ./t    (gcc: PASS for every V)
#include <stdio.h>
#include <pthread.h>
#ifndef V
#define V 1
#endif
#if V == 1
struct S { _Atomic unsigned char cnt; int bf : 3; };
#elif V == 2
struct S { int bf : 3; _Atomic unsigned char cnt; };
#elif V == 3
struct S { _Atomic unsigned char cnt; short bf : 8; };
#elif V == 4
struct S { _Atomic char cnt; long bf : 5; };
#elif V == 5
struct S { unsigned long bf : 5; _Atomic short cnt; };
#elif V == 6
struct S { unsigned bf0 : 3; unsigned bf : 7; _Atomic unsigned short cnt; };
#elif V == 7
struct __attribute__((packed)) S { _Atomic unsigned char cnt; int bf : 3; };
#elif V == 8
// two bit-field memory locations separated by a zero-width bit-field; the "counter" is the
// second one, updated by a single thread only, the other thread stores to the first one
struct S { int bf : 3; char : 0; int cnt : 3; };
#endif
static struct S s;
#define N 4000003
static void *inc(void *arg) {
  for (int i = 0; i < N; i++)
#if V == 8
    s.cnt = (s.cnt + 1) & 3;      // the only writer of this memory location
#else
    s.cnt++;
#endif
  return 0;
}
static void *bf(void *arg) {
  for (int i = 0; i < N; i++)
    s.bf = i & 3;
  return 0;
}
int main(void) {
  pthread_t a, b;
  pthread_create(&a, 0, inc, 0);
  pthread_create(&b, 0, bf, 0);
  pthread_join(a, 0);
  pthread_join(b, 0);
#if V == 8
  int want = N & 3;
#else
  __typeof__(s.cnt) w0 = 0;
  for (int i = 0; i < N; i++) w0++;
  long want = w0;
#endif
  printf("V=%d cnt=%ld want=%ld\n", V, (long)s.cnt, (long)want);
  if (s.cnt != want) { printf("FAIL: updates of cnt were undone by the bit-field store\n"); return 1; }
  printf("PASS\n");
  return 0;
}
