#include <stdio.h>
#include <stdatomic.h>
struct S { _Atomic int x; } s;
int main() {
  _Atomic long x = 0; long e = 0; int a = -2, b = 1;
  int ok = atomic_compare_exchange_strong(&x, &e, a + b);
  _Atomic long y = 5; long oldy = atomic_exchange(&y, a + b);
  _Atomic char c = 1; int oldc = atomic_exchange(&c, (char)-1);
  _Atomic unsigned char uc = 200; int olduc = atomic_exchange(&uc, (unsigned char)7);
  printf("%d %ld %ld %ld %d %d\n", ok, (long)x, oldy, (long)y, oldc, olduc);
  return 0;
}
