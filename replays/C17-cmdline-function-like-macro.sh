#!/bin/sh
# C17: -D'F(x)=x+1' must define the function-like macro F (gcc: prints 3, then "A defined").
# chibicc enters an object-like macro literally named "F(x)" (and "A B"): F / A stay undefined.
# usage: C17-cmdline-function-like-macro.sh <compiler>     exit 0 = behaves like gcc
cc=${1:-/repo/chibicc}
t=$(mktemp -d); trap 'rm -rf "$t"' EXIT
cat > "$t/a.c" <<'EOT'
#include <stdio.h>
int main(void) {
#ifdef F
  printf("%d\n", F(2));
#else
  printf("F undefined\n");
#endif
#ifdef A
  printf("A defined\n");
#else
  printf("A undefined\n");
#endif
  return 0;
}
EOT
$cc "-DF(x)=x+1" "-DA B" -o "$t/a" "$t/a.c" 2>/dev/null || exit 2
out=$("$t/a")
echo "$out"
[ "$out" = "3
A defined" ]
