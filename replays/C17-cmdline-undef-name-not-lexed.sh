#!/bin/sh
# C17: the name given to -U is a macro name and must be lexed like the name of #undef:
#   -DFOO=1 '-UFOO '            (trailing blank)         gcc: FOO undefined afterwards
#   -D'\u00c4B=2' '-U\u00c4B'   (universal character)    gcc: the name is undefined afterwards
# chibicc lexes the -D name (define_macro tokenizes it, \u is decoded) but deletes the raw -U
# string from the macro table: nothing is deleted and both names keep their definition.
# usage: C17-cmdline-undef-name-not-lexed.sh <compiler>     exit 0 = behaves like gcc
cc=${1:-/repo/chibicc}
t=$(mktemp -d); trap 'rm -rf "$t"' EXIT
cat > "$t/a.c" <<'EOT'
#include <stdio.h>
int main(void) {
#ifdef FOO
  printf("FOO defined\n");
#else
  printf("FOO undefined\n");
#endif
#ifdef \u00c4B
  printf("UCN defined\n");
#else
  printf("UCN undefined\n");
#endif
  return 0;
}
EOT
$cc -DFOO=1 "-UFOO " '-D\u00c4B=2' '-U\u00c4B' -o "$t/a" "$t/a.c" 2>/dev/null || exit 2
out=$("$t/a")
echo "$out"
[ "$out" = "FOO undefined
UCN undefined" ]
