#!/bin/sh
# usage: sh C17-directive-name-on-next-line.sh /path/to/chibicc
# `#define`, `#undef`, `#ifdef`, `#ifndef` with nothing after the directive name on their line name no macro (gcc: "no macro name given in
# #define directive", exit 1).  chibicc takes the first token of the NEXT line as the name: prints
#   int x = 1;      (FOO was defined as 1 by `#define` <newline> `FOO 1`, the text line `FOO 1` is swallowed)
#   int y = FOO;    (FOO was undefined by `#undef` <newline> `FOO`)
#   int z = 1;      (`#ifdef` <newline> `FOO` tested FOO)
# A correct preprocessor rejects each of the three inputs.
CC=${1:-/repo/chibicc}
d=$(mktemp -d)
printf '#define\nFOO 1\nint x = FOO;\n' > $d/d.c
printf '#define FOO 1\n#undef\nFOO\nint y = FOO;\n' > $d/u.c
printf '#define FOO 1\n#ifdef\nFOO\nint z = 1;\n#endif\n' > $d/i.c
bad=0
for f in d u i; do
  if $CC -E $d/$f.c 2>/dev/null | grep '^int'; then bad=1; fi
done
rm -rf $d
[ $bad = 0 ] && echo "all three rejected"
exit $bad
