#include "/repo/chibicc.h"
// stubs
void error(char *fmt, ...) { fprintf(stderr, "error: %s\n", fmt); exit(3); }
char *format(char *fmt, ...) { char *b = malloc(64); va_list ap; va_start(ap, fmt); vsnprintf(b, 64, fmt, ap); va_end(ap); return b; }
static uint64_t fnv(char *s, int len) { uint64_t h = 0xcbf29ce484222325; for (int i = 0; i < len; i++) { h *= 0x100000001b3; h ^= (unsigned char)s[i]; } return h; }
int main() {
  // find two keys in the same bucket mod 16
  char *a = "k0", *b = NULL;
  for (int i = 1; i < 1000; i++) { char *k = format("k%d", i); if (fnv(k, strlen(k)) % 16 == fnv(a, 2) % 16) { b = k; break; } }
  printf("a=%s b=%s\n", a, b);
  HashMap *m = calloc(1, sizeof(HashMap));
  hashmap_put(m, a, (void *)1);
  hashmap_put(m, b, (void *)2);
  hashmap_delete(m, a);
  hashmap_put(m, b, (void *)3);
  hashmap_delete(m, b);
  void *v = hashmap_get(m, b);
  printf("after delete, get(b) = %p (expected nil)\n", v);
  return v != NULL;
}
