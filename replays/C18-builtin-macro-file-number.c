// C18 R18.11: tokens of predefined / -D macros belong to new_file("<built-in>", 1, ...): number 1 is the main file's .file entry.
//   chibicc -DFOO=3 -S -o - replays/C18-builtin-macro-file-number.c | grep -n '\.loc\|\.file'
//     -> `.loc 1 1` for the nodes of __STDC_VERSION__ and FOO (used on lines 7 and 8): attributed to line 1 of THIS file
//   gcc -g -DFOO=3 -S: every .loc of main names line 7 or 8
int main(void) {

  return __STDC_VERSION__ +
         FOO; }
