// R18.1 byte-copied-while-newlines-pending: text on a continuation line is numbered as the first physical line of the logical line.
// chibicc -o t C18-continuation-line.c && ./t  -> "5 7";  gcc -> "6 7"  (__LINE__ below stands on physical line 6)
#include <stdio.h>
int main(void) {
  int a = \
__LINE__;
  int b = __LINE__;
  printf("%d %d\n", a, b);
  return 0;
}
