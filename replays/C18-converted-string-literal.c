// R18.5 tokenize_string_literal: chibicc -c -o /dev/null C18-converted-string-literal.c
// -> "<chibicc dir>/include/stddef.h:0: "a" L"b" int;  variable name omitted" : wrong file (last file tokenised) and line 0; the token is on line 5 of this file (gcc: 5:1)
#include <stddef.h>
int z = 3;
"a" L"b" int;
