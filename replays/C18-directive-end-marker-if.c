// C18 R18.9: the EOF token that ends the copied line of a directive is a copy of the first token of the NEXT line.
//   chibicc -c -o /dev/null replays/C18-directive-end-marker-if.c  -> "...:8: #endif ... expected ')'"; the error is on line 5 (gcc: 5)
int a;

#if (1


#endif
int b;
