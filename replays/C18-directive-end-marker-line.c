// C18 R18.9: `#line` without operand: "invalid line marker" is located at the first token of the next line.
//   chibicc -c -o /dev/null replays/C18-directive-end-marker-line.c  -> "...:7: int b; ... invalid line marker"; the directive is on line 4 (gcc: 4)
int a;
#line


int b;
