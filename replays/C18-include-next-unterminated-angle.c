// C18 R18.9: same defect as C18-include-unterminated-angle.c, reached from `#include_next`.
// chibicc -c -o /dev/null C18-include-next-unterminated-angle.c -> "...c:4: int x; ^ expected '>'"; the directive is on line 3.
#include_next <stdio.h
int x;
