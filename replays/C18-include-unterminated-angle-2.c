// see C18-include-unterminated-angle.c: expected `./C18-include-unterminated-angle.h:5:`, chibicc says `C18-include-unterminated-angle-2.c:5:`
#include "C18-include-unterminated-angle.h"


int main(void) { return 0; }
