// C18 R18.9 (a diagnostic about a directive is located on the directive): `#include <name` without the closing `>`.
// chibicc -c -o /dev/null C18-include-unterminated-angle.c -> "C18-include-unterminated-angle.c:6: int x; ^ expected '>'";
// the directive is on line 5 (gcc: 5).  As the last line of a header the message even names the INCLUDING file:
// chibicc -c -o /dev/null C18-include-unterminated-angle-2.c -> "C18-include-unterminated-angle-2.c:5:", expected "./C18-include-unterminated-angle.h:5:".
#include <stdio.h
int x;
int y;
