#ifndef C18_H
#define C18_H
int h;
#endif
#include <stdio.h
