// R18.4 preprocess line_no+=line_delta: chibicc -c -o /dev/null C18-line-delta-in-diagnostic.c
// -> "C18-line-delta-in-diagnostic.c:1001: int x = = 3;" : physical file name with a line that does not exist (physical line 5). gcc: presumed 1000, consistently.

#line 1000
int x = = 3;
