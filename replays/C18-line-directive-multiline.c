// R18.6 read_line_marker counted-from-the-line-the-directive-ends-on: the #line delta is counted from the line of the
// directive's first token; a comment with new-lines inside the directive ends it two lines later.
// chibicc -o t C18-line-directive-multiline.c && ./t -> 103 ; gcc -> 100   (this tree's next-line-is-N+1 convention: 101)
#include <stdio.h>
int main(void) {
#line 100 /* x

 */
  int a = __LINE__;
  printf("%d\n", a);
  return 0;
}
