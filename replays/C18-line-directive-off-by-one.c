// R18.6 read_line_marker next-line-is-N+1: `#line 500` must make the NEXT line 500 (C11 6.10.4p3).
// chibicc -o t C18-line-directive-off-by-one.c && ./t -> 501 ; gcc -> 500   (test/line.c enshrines 501)
#include <stdio.h>
int main(void) {
#line 500
  int a = __LINE__;
  printf("%d\n", a);
  return 0;
}
