// C18 R18.6: the operand of #line is a digit sequence read as a DECIMAL number (C11 6.10.4p3).
// chibicc converts it like an integer constant: 010 is octal 8.
//   chibicc -o t replays/C18-line-operand-octal.c && ./t   -> 9   (8 + chibicc's known #line off-by-one)
//   gcc     -o t replays/C18-line-operand-octal.c && ./t   -> 10
#include <stdio.h>
#line 010
int main(void) { printf("%d\n", __LINE__); return 0; }
