// C18 R18.5: a ## result that does not scan is diagnosed by the scanner inside the scratch buffer: line 1 under the name of this file.
//   chibicc -c -o /dev/null replays/C18-paste-scratch-scanner-error.c  -> "...:1: /* ... unclosed block comment"; the invocation is on line 6 (gcc: 6)
#define C(a,b) a##b


int x = C(/,*) 3;
