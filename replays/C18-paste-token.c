// R18.5 paste line-inherited: chibicc -c -o /dev/null C18-paste-token.c -> "C18-paste-token.c:1: 1x  invalid numeric constant" ; the paste is on line 5
#define CAT(a,b) a##b


int CAT(1,x) = 3;
