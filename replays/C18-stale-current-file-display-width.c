// C18 R18.10: verror_at measures the width of the source line with display_width -> decode_utf8, which raises error_at on a byte that
// is not UTF-8: the diagnostic that was being printed (here a syntax error on line 6, by error_tok) is replaced by one relative to the
// file tokenised last.   chibicc -c -o /dev/null replays/C18-stale-current-file-display-width.c
//     -> "<this file>:6: ..." then "/repo/include/stddef.h:1: ... invalid UTF-8 sequence" (expected: expected-';' style message for line 6 only)
#include <stddef.h>
char *x = "ÿ" y;
