// C18 R18.10, warn_tok: same as C18-stale-current-file-display-width.c for a warning (extra token after #endif on line 7).
//   chibicc -c -o /dev/null replays/C18-stale-current-file-warning.c
//     -> prints the location prefix of line 7 and then dies with "/repo/include/stddef.h:1: ... invalid UTF-8 sequence"; gcc warns and succeeds
#include <stddef.h>
#if 1
int x;
#endif /* ÿ */ junk
