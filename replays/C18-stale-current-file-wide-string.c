// C18 R18.10: error_at is relative to current_file, which only tokenize() sets. tokenize_string_literal() (called from
// join_adjacent_string_literals after preprocessing) decodes UTF-8 and can reach error_at: the diagnostic names the file tokenised last.
//   chibicc -c -o /dev/null replays/C18-stale-current-file-wide-string.c
//     -> /usr/include/wchar.h:1: ... invalid UTF-8 sequence     (expected: this file, line 6; gcc: this file, line 6)
#include <wchar.h>
wchar_t *s = L"a" "\xff_raw:ÿ";
