// R18.5 new_num_token line-inherited: chibicc -c -o /dev/null C18-synth-num-token.c -> "C18-synth-num-token.c:1: 5" ; error is on line 5 (gcc: 5:11)
int main(void) {
  return 0;
}
int x = 5 __LINE__;
