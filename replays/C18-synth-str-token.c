// R18.5 new_str_token line-inherited: chibicc -c -o /dev/null C18-synth-str-token.c -> "C18-synth-str-token.c:1: "C18-synth-str-token.c"" ; error is on line 5 (gcc: 5:11)
int main(void) {
  return 0;
}
int x = 5 __FILE__;
