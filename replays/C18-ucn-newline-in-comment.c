// R18.2 convert_universal_chars computed-byte-is-no-new-line/encode_utf8: backslash-u-000a is turned into a real new-line before
// the lines are counted, even inside a comment (where it is no universal character name; C11 6.4.3p2 forbids it elsewhere).
// chibicc -o t C18-ucn-newline-in-comment.c && ./t -> 8 ; gcc -> 7
#include <stdio.h>
int main(void) {
  /* a \u000a b */
  printf("%d\n", __LINE__);
  return 0;
}
