// C19 R19.1: `chibicc -E` prints only the first piece of adjacent string literals:
// preprocess() runs join_adjacent_string_literals() before cc1 hands the list to print_tokens(),
// the merged token keeps (loc,len) of the first literal and the others are unlinked.
// Replay:  chibicc -E replays/C19-adjacent-string-literals.c   vs   gcc -E -P ...
//   expected: int n = sizeof("a" "bc");        actual: int n = sizeof("a");
// chibicc -o t replays/C19-adjacent-string-literals.c && ./t          -> exit 4
// chibicc -E ... -o t.i.c && chibicc -o t2 t.i.c && ./t2             -> exit 2
int main(void) {
  int n = sizeof("a" "bc");
  return n;
}
