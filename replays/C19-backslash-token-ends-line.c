// C19 R19.8: a lone backslash token that is the last token of its line (backslash, blank,
// newline in the source: not a line splice) is printed as the last character of an output line.
// Read back, backslash-newline IS a splice: the token and the line end disappear.
// Replay:
//   chibicc -E replays/C19-backslash-token-ends-line.c | chibicc -E -xc -
// chibicc -E prints          read back
//   int a = 1; \               int a = 1; int b;
//   int b;
// (gcc -E prints the same text.) The source is rejected by the compiler proper (stray `\`);
// the -E output compiles. The line after the backslash is a blank before the newline.
#define ID(x) x
int a = 1; ID(\) 
int b;
