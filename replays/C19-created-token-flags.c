// C19 R19.2: tokens created during expansion do not take the white-space flag of the
// token they stand for (they keep at_bol=true/has_space=false of a fresh tokenisation).
// Replay:  chibicc -E replays/C19-created-token-flags.c   vs   gcc -E -P replays/C19-created-token-flags.c
// expected (gcc)                      actual (chibicc, pinned tree)
//   const char *a = "a 13";             const char *a = "a13";       dynamic macro (__LINE__) loses has_space
//   const char *p = "1 \"b\"";          const char *p = "1\"b\"";    token made by # loses has_space
//   const char *q = "1 yz";             const char *q = "1yz";       token made by ## loses has_space
// (and -E breaks the line before each such token: `int d = 1<newline>16;`)
#define S(x) #x
#define XS(x) S(x)
#define S2(x) 1 #x
#define C(a,b) 1 a##b
const char *a = XS(a __LINE__);
const char *p = XS(S2(b));
const char *q = XS(C(y,z));
int d = 1 __LINE__;
