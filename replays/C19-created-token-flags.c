// C19 R19.2: tokens created during expansion do not take the white-space flag of the
// token they stand for (they keep at_bol=true/has_space=false of a fresh tokenisation,
// or the flag the argument token had inside the invocation).
// Replay:  chibicc -E replays/C19-created-token-flags.c   vs   gcc -E -P replays/C19-created-token-flags.c
// expected (gcc)                      actual (chibicc, pinned tree)
//   const char *a = "a 19";             const char *a = "a19";       dynamic macro (__LINE__) loses has_space
//   const char *s = "1 \"b\"";          const char *s = "1\"b\"";    token made by # loses has_space
//   const char *p = "1 xz";             const char *p = "1xz";       token made by ## loses has_space of its left operand
//   const char *c = "1 yz";             const char *c = "1yz";       argument substituted as left operand of ## keeps its own flag
//   const char *e = "1 z";              const char *e = "1z";        right operand copied for an empty left operand keeps its own flag
//   const char *f = "1 x";              const char *f = "1x";        (same arm, right operand is not a parameter)
// (and -E breaks the line before each freshly tokenised token: `int d = 1<newline>25;`)
#define S(x) #x
#define XS(x) S(x)
#define S2(x) 1 #x
#define P(b) 1 x##b
#define C(a,b) 1 a##b
#define E2(a) 1 a##x
const char *a = XS(a __LINE__);
const char *s = XS(S2(b));
const char *p = XS(P(z));
const char *c = XS(C(y,z));
const char *e = XS(C(,z));
const char *f = XS(E2());
int d = 1 __LINE__;
