// C19 R19.7: a -D body does not pass the \u/\U decoding of tokenize_file(), but the -E text that spells it does.
//   D=$(printf -- '-DM="\134u00e9"')
//   chibicc "$D" -o a C19-dash-D-universal-char.c && ./a          -> 6 u00e9   (gcc: 3 <e-acute>)
//   chibicc "$D" -E -o t.c C19-dash-D-universal-char.c && chibicc -o b t.c && ./b   -> 3 <e-acute>
//   chibicc -E t.c differs from t.c (the escape is decoded on the second pass)
#include <stdio.h>
int main(void) { printf("%d %s\n", (int)sizeof(M), M); return 0; }
