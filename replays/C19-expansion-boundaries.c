// C19 R19.3: expansion boundaries are not protected (neither print_tokens nor the splices
// separate a replacement from its neighbours).  Replay:
//   chibicc -E replays/C19-expansion-boundaries.c    vs    gcc -E -P replays/C19-expansion-boundaries.c
// expected (gcc)            actual (chibicc, pinned tree)
//   int a = - -1;             int a = --1;        objlike leading   (-N)
//   int b = 3 - -1;           int b = 3 --1;      objlike trailing  (M-1)
//   int c = - -1;             int c = --1;        funclike leading  (-F(-1))
//   int d = 3 - -1;           int d = 3 --1;      funclike trailing (F(-)-1)
//   double e = 22 .5;         double e =<nl>22.5; builtin trailing  (__LINE__.5 re-lexes as one pp-number)
//   int g = - -1;             int g = --1;        argument leading  (G(-1))
//   int h = 3 - -1;           int h = 3 --1;      argument trailing (H(-))
// Compiling the -E output gives `--1` (decrement of a constant: error) instead of 1.
#define N -1
#define M -
#define F(x) x
#define G(x) -x
#define H(x) x-1
int a = -N;
int b = 3 M-1;
int c = -F(-1);
int d = 3 F(-)-1;
double e = __LINE__.5;
int g = G(-1);
int h = 3 H(-);
