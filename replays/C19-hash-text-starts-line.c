// C19 R19.8: a `#` that macro replacement leaves in the text is printed at the beginning of a
// line by -E. It is text (is_hash() of preprocess.c ignores tokens with an origin; directives are
// all consumed before print_tokens), but read back it is the first token of its line: a directive.
// Replay:
//   chibicc -E replays/C19-hash-text-starts-line.c | chibicc -E -xc -     (or: -S -xc -o- -)
// chibicc -E prints                    read back
//   int y;                               int y;
//   # define X 1                         int 1;
//   int X;
// (gcc -E prints ` # define X 1`, which its -fpreprocessed reader does not take for a directive;
// chibicc reads `#` after blanks as a directive, so the token has to stay on the previous line.)
// The source itself is rejected by the compiler proper (stray `#`); the -E output compiles to
// another program, and `chibicc -E x.c | chibicc -E -xc -` is not a fixed point.
// With the `int y;` line removed the `#` is the first token of the whole output
// (key ...:first-token-of-the-output): no C text can spell that.
#define H #
int y;
H define X 1
int X;
