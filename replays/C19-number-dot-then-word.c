// C19 R19.4: print_tokens does not keep a number that ends in `.` apart from a following word.
// may_fuse() separates word characters from word characters and a number from a following `.`,
// but `1.` ends in a character that is not a word character, so `1.` `f` (no white space between
// them: the seam after a macro argument) is printed `1.f`, which reads back as ONE pp-number.
// Replay:
//   chibicc -E replays/C19-number-dot-then-word.c    vs    gcc -E -P replays/C19-number-dot-then-word.c
// expected (gcc)            actual (chibicc)
//   float a = 1. f;           float a = 1.f;
//   double b = 1. e3;         double b = 1.e3;
// The source is rejected (`expected ','` at f); the -E output compiles (a = 1.0f, b = 1000.0).
#define ID(x) x
float a = ID(1.)f;
double b = ID(1.)e3;
