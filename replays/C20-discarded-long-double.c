#include <stdio.h>
long double f(void) { return 1.5L; }
int main() {
  long double a, b, c = 2.5L;
  for (int i = 0; i < 10; i++) f();
  long double r = f() + 1.0L;
  printf("expr-stmt discard: r=%Lf\n", r);
  asm("fninit");
  for (int i = 0; i < 10; i++) (void)f();
  r = f() + 1.0L; printf("cast-to-void discard: r=%Lf\n", r);
  asm("fninit");
  int k; for (int i = 0; i < 10; i++) k = (f(), 1);
  r = f() + 1.0L; printf("comma discard: r=%Lf\n", r);
  asm("fninit");
  long double z = 0; for (int i = 0; i < 10; z += 1.0L) i++;
  r = f() + 1.0L; printf("for-inc discard: r=%Lf\n", r);
  asm("fninit");
  a = b = c;
  printf("a=b=c: a=%Lf\n", a);
  return 0;
}
