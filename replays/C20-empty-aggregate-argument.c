#include <stdio.h>
#include <stdarg.h>
struct E {};
union U {};
int g(struct E e, int x) { return x + 1; }
double h(double a, struct E e, union U u, double b) { return a * 10 + b; }
int many(long a, long b, long c, long d, long e, long f, struct E s, long g7) { return a+b+c+d+e+f+g7; }
struct E id(struct E e) { return e; }
int v(int n, ...) { va_list ap; va_start(ap, n); int s = 0; for (int i = 0; i < n; i++) s += va_arg(ap, int); va_end(ap); return s; }
int main(void) {
  struct E e; union U u;
  int bad = 0;
  for (int i = 0; i < 3; i++) {
    if (g(e, 41) != 42) bad |= 1;
    if (h(1.0, e, u, 2.0) != 12.0) bad |= 2;
    if (many(1,2,3,4,5,6,e,7) != 28) bad |= 4;
    if (g(id(e), 1) != 2) bad |= 8;
    if (v(3, 1, 2, 3) != 6) bad |= 16;
  }
  printf("bad=%d\n", bad);
  return bad;
}
