#include <stdio.h>
long double f(void) { return 1.5L; }
int main() {
  for (int i = 0; i < 10; f()) i++;
  long double r = f() + 1.0L; printf("for-inc discard: r=%Lf\n", r);
  return 0;
}
