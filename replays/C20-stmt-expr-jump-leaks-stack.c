// C20 R20.14: a jump that leaves a statement expression while the enclosing
// expression holds pushed operands skips the pops of that expression.
// chibicc: every iteration leaks 8 bytes (int operand / pushed call arguments) -> SIGSEGV; gcc: prints "0 6 3".
// usage: chibicc -o t C20-stmt-expr-jump-leaks-stack.c && ./t        (add -DCOMPUTED for the computed-goto variant)
#include <stdio.h>
int foo(int a, int b) { return a + b; }
int main(void) {
  int x = 0;
  long s = 0, g = 0;
#ifndef COMPUTED
  for (int k = 0; k < 10000000; k++)
    x = 1 + ({ if (k >= 0) continue; 2; });
  for (int i = 0; i < 3; i++)
    s += foo(({ if (i == 1) continue; 1; }), 2);
  for (int k = 0; k < 10000000; k++) {
    g = 1 + ({ if (k >= 0) goto next; 2; });
  next:;
  }
  g = 3;
#else
  void *p = &&next2;
  for (int k = 0; k < 10000000; k++) {
    g = 1 + ({ if (k >= 0) goto *p; 2; });
  next2:;
  }
  g = 3; s = 6;
#endif
  printf("%d %ld %ld\n", x, s, g);
  return 0;
}
