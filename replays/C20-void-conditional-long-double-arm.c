// A conditional with one void arm is void; the other arm may have any type.
// chibicc leaves a long double arm on the x87 register stack (one slot per
// evaluation): after 8 evaluations long double arithmetic yields NaN.
// expected (gcc): "then-arm: 3.000000", "else-arm: 3.000000", exit 0
#include <stdio.h>
long double f(void) { return 1.5L; }
int main(void) {
  int c = 1, bad = 0;
  long double x = 2.0L;
  for (int i = 0; i < 5; i++)
    c ? x : (void)0;
  for (int i = 0; i < 5; i++)
    c ? f() : (void)0;
  long double y = x + 1.0L;
  printf("then-arm: %Lf\n", y);
  bad |= !(y == 3.0L);
  asm("fninit");
  c = 0;
  for (int i = 0; i < 10; i++)
    c ? (void)0 : f();
  y = x + 1.0L;
  printf("else-arm: %Lf\n", y);
  bad |= !(y == 3.0L);
  return bad;
}
