#include <stdio.h>
long double f(void) { return 1.5L; }
int main(void) {
  int c = 1;
  long double x = 2.0L;
  for (int i = 0; i < 10; i++)
    c ? x : (void)0;
  for (int i = 0; i < 10; i++)
    c ? f() : (void)0;
  long double y = x + 1.0L;
  printf("%Lf\n", y);
  return y == 3.0L ? 0 : 1;
}
