// C20 R20.12: a long double binary operation kept its left operand on the x87 register stack while the right operand was generated;
// a call in the right operand entered the callee with a non-empty x87 stack and recursion lost one register per activation.
// expected (gcc): 4.000000 13.000000 2.000000   pinned tree before the fix: 4.000000 -nan -nan
#include <stdio.h>
long double f(int n) { return n == 0 ? 1.0L : 1.0L + f(n - 1); }
long double g(long double *p, int n) { return n == 0 ? p[0] : p[n] * g(p, n - 1); }
int main(void) {
  long double a[12] = {1,1,1,1,1,1,1,1,1,1,1,2};
  printf("%Lf %Lf %Lf\n", f(3), f(12), g(a, 11)); return 0; }
