"""Extraction: compile database from the repository's Makefile, then clang's
typed AST (JSON) and -O0 LLVM IR for every unit, into a scratch directory
outside /repo and /verif that is removed when the process ends.

Nothing of /repo is executed: `make -n -B` only prints the commands.
"""
import atexit, os, re, shlex, shutil, subprocess, sys, tempfile
from concurrent.futures import ThreadPoolExecutor

from .cast import Unit

REPO = os.environ.get('VERIF_REPO', '/repo')


class AnalysisBroken(Exception):
    """the analysis cannot interpret what it needs: exit 2, neither pass nor violation"""


def _norm_type(t):
    return ' '.join((t or '').replace('struct ', '').replace('const ', '').replace('_Bool', 'bool').split()).replace(' *', '*')


def require_signature(unit, fname, params, ret=None):
    """a rule that models the CONTRACT of a function (which parameter carries what, how the result comes back) is only entitled to a verdict
    while the function still has the interface the model was written for: anything else (a behaviour-preserving change of the signature
    included) is an anchor that moved -> AnalysisBroken (exit 2), never a violation"""
    f = unit.functions.get(fname) or getattr(unit, 'fdecls', {}).get(fname)
    if f is None:
        raise AnalysisBroken('anchor %s vanished' % fname)
    got = [_norm_type(p.dtype or p.type) for p in unit.params(fname)]
    want = [_norm_type(t) for t in params]
    if got != want:
        raise AnalysisBroken('the interface of %s() changed: parameters (%s), the rule models (%s)' % (fname, ', '.join(got), ', '.join(want)))
    if ret is not None:
        ft = _norm_type((f.dtype or f.type or '').split('(')[0])
        if ft != _norm_type(ret):
            raise AnalysisBroken('the interface of %s() changed: it returns %s, the rule models %s' % (fname, ft, _norm_type(ret)))


def scratch_dir():
    base = os.environ.get('VERIF_SCRATCH')
    if base:
        os.makedirs(base, exist_ok=True)
        d = tempfile.mkdtemp(prefix='vcheck.', dir=base)
    else:
        d = tempfile.mkdtemp(prefix='vcheck.')
    atexit.register(shutil.rmtree, d, ignore_errors=True)
    return d


def compile_db(repo=None):
    """[(unit path, [flags])] from `make -n -B chibicc`, de-duplicated"""
    repo = repo or REPO
    p = subprocess.run(['make', '-n', '-B', '-C', repo, 'chibicc'], capture_output=True, text=True)
    if p.returncode != 0:
        raise AnalysisBroken('make -n -B failed: ' + p.stderr[-400:])
    db = {}
    for line in p.stdout.splitlines():
        try:
            w = shlex.split(line)
        except ValueError:
            continue
        if not w or '-c' not in w:
            continue
        srcs = [x for x in w[1:] if x.endswith('.c')]
        if len(srcs) != 1:
            continue
        flags = []
        skip = False
        for x in w[1:]:
            if skip:
                skip = False; continue
            if x == '-o':
                skip = True; continue
            if x in ('-c', '-g') or x.endswith('.c'):
                continue
            flags.append(x)
        db[os.path.join(repo, srcs[0])] = flags
    if not db:
        raise AnalysisBroken('no compile commands recovered from the Makefile')
    return sorted(db.items())


class Program:
    """all units of the repository, loaded on demand"""

    def __init__(self, repo=None, want_ir=False, units=None):
        self.repo = os.path.realpath(repo or REPO)
        self.dir = scratch_dir()
        self.db = compile_db(self.repo)
        self.unit_names = [os.path.basename(p) for p, _ in self.db]
        self._units = {}
        self._ir = {}
        self.extract(want_ir=want_ir, only=units)

    def extract(self, want_ir=False, only=None):
        jobs = []
        for path, flags in self.db:
            base = os.path.basename(path)
            if only and base not in only:
                continue
            j = os.path.join(self.dir, base + '.json')
            if not os.path.exists(j):
                jobs.append((path, ['clang-14'] + flags + ['-w', '-fsyntax-only', '-Xclang', '-ast-dump=json', path], j))
            if want_ir:
                l = os.path.join(self.dir, base + '.ll')
                if not os.path.exists(l):
                    jobs.append((path, ['clang-14'] + flags + ['-w', '-O0', '-Xclang', '-disable-O0-optnone', '-g', '-S', '-emit-llvm', path, '-o', l], None))

        def run(job):
            path, cmd, out = job
            if out:
                with open(out, 'w') as f:
                    p = subprocess.run(cmd, stdout=f, stderr=subprocess.PIPE, text=True, cwd=self.repo)
            else:
                p = subprocess.run(cmd, stdout=subprocess.PIPE, stderr=subprocess.PIPE, text=True, cwd=self.repo)
            return path, p.returncode, p.stderr

        with ThreadPoolExecutor(max_workers=16) as ex:
            for path, rc, err in ex.map(run, jobs):
                if rc != 0:
                    raise AnalysisBroken('clang failed on %s: %s' % (path, err[-600:]))

    def unit(self, name):
        if name not in self._units:
            path = os.path.join(self.repo, name)
            j = os.path.join(self.dir, name + '.json')
            if not os.path.exists(j):
                if name not in self.unit_names:
                    raise AnalysisBroken('unit %s is not built by the Makefile any more' % name)
                self.extract(only=[name])
            self._units[name] = Unit(path, j, self.repo)
            # the JSON is large; drop it once loaded
            try:
                os.unlink(j)
            except OSError:
                pass
        return self._units[name]

    def units(self):
        return [self.unit(n) for n in self.unit_names]

    def ir_path(self, name):
        l = os.path.join(self.dir, name + '.ll')
        if not os.path.exists(l):
            self.extract(want_ir=True, only=[name])
        return l

    def find_function(self, fname):
        """(unit, FunctionDecl) of the definition of fname in any loaded/ loadable unit"""
        for n in self.unit_names:
            u = self.unit(n)
            if fname in u.functions:
                return u, u.functions[fname]
        return None, None

    def header(self, rel):
        p = os.path.join(self.repo, rel)
        if not os.path.exists(p):
            raise AnalysisBroken('header %s vanished' % rel)
        return p
