"""Engine A core: load clang's JSON AST of a translation unit into light Python
objects, with resolved references, line numbers, symbol tables and a canonical
pretty-printer (macro-expanded, cast-transparent) used to compare expressions.

Nothing here looks at source text or line numbers to *decide* anything; lines
are carried for reporting only.
"""
import json, os, re

TRANSPARENT = ('ParenExpr', 'ImplicitCastExpr', 'ConstantExpr')


class Node:
    __slots__ = ('kind', 'd', 'inner', 'line', 'file', 'parent', 'unit', '_src')

    def __init__(self, d, parent, unit):
        self.kind = d.get('kind', '?')
        self.d = d
        self.parent = parent
        self.unit = unit
        self.inner = []
        self.line = 0
        self.file = None
        self._src = None

    # ---- attribute sugar ------------------------------------------------
    @property
    def type(self):
        t = self.d.get('type')
        return t.get('qualType') if t else None

    @property
    def dtype(self):
        """desugared type if clang gave one, else the spelled type"""
        t = self.d.get('type')
        if not t:
            return None
        return t.get('desugaredQualType') or t.get('qualType')

    @property
    def name(self):
        return self.d.get('name')

    @property
    def opcode(self):
        return self.d.get('opcode')

    @property
    def value(self):
        return self.d.get('value')

    @property
    def cast_kind(self):
        return self.d.get('castKind')

    @property
    def ref(self):
        return self.d.get('referencedDecl')

    @property
    def ref_name(self):
        r = self.d.get('referencedDecl')
        return r.get('name') if r else None

    @property
    def ref_kind(self):
        r = self.d.get('referencedDecl')
        return r.get('kind') if r else None

    @property
    def ref_id(self):
        r = self.d.get('referencedDecl')
        return r.get('id') if r else None

    @property
    def id(self):
        return self.d.get('id')

    def __repr__(self):
        return '<%s %s @%s>' % (self.kind, (self.name or self.opcode or ''), self.line)

    # ---- traversal -------------------------------------------------------
    def walk(self):
        st = [self]
        while st:
            n = st.pop()
            yield n
            st.extend(reversed(n.inner))

    def find(self, kind):
        return [n for n in self.walk() if n.kind == kind]

    def strip(self):
        """skip parentheses / implicit casts / ConstantExpr"""
        n = self
        while n.kind in TRANSPARENT and n.inner:
            n = n.inner[0]
        return n

    def strip_all(self):
        """also skip explicit C casts"""
        n = self
        while n.kind in TRANSPARENT + ('CStyleCastExpr',) and n.inner:
            n = n.inner[-1]
        return n

    def enclosing(self, kind):
        p = self.parent
        while p is not None and p.kind != kind:
            p = p.parent
        return p

    def ancestors(self):
        p = self.parent
        while p is not None:
            yield p
            p = p.parent

    # ---- calls -------------------------------------------------------------
    def callee(self):
        """name of the directly called function of a CallExpr, else None"""
        if self.kind != 'CallExpr' or not self.inner:
            return None
        f = self.inner[0].strip()
        if f.kind == 'DeclRefExpr' and f.ref_kind == 'FunctionDecl':
            return f.ref_name
        return None

    def args(self):
        return self.inner[1:] if self.kind == 'CallExpr' else []

    def calls(self, name=None):
        out = []
        for n in self.walk():
            if n.kind == 'CallExpr':
                c = n.callee()
                if name is None or c == name or (isinstance(name, (set, tuple, list, frozenset)) and c in name):
                    out.append(n)
        return out

    def str_value(self):
        """value of a string literal (through decays), else None"""
        n = self.strip()
        if n.kind == 'StringLiteral':
            return unquote(n.value)
        return None

    def int_value(self):
        n = self.strip_all()
        if n.kind == 'IntegerLiteral':
            return int(n.value)
        if n.kind == 'CharacterLiteral':
            return int(n.value)
        if n.kind == 'UnaryOperator' and n.opcode == '-' :
            v = n.inner[0].int_value()
            return -v if v is not None else None
        if n.kind == 'DeclRefExpr' and n.ref_kind == 'EnumConstantDecl':
            return self.unit.enum_value(n.ref_name)
        return None

    # ---- canonical text ------------------------------------------------------
    def src(self):
        if self._src is None:
            self._src = _src(self)
        return self._src


_ESC = {'n': '\n', 't': '\t', 'r': '\r', '0': '\0', '\\': '\\', '"': '"', "'": "'", 'a': '\a', 'b': '\b', 'f': '\f', 'v': '\v', 'e': '\x1b'}


def unquote(s):
    """clang prints string literals as C source text; turn into the string"""
    if s is None:
        return None
    m = re.match(r'^(u8|u|U|L)?"(.*)"$', s, re.S)
    if not m:
        return s
    body = m.group(2)
    out = []
    i = 0
    while i < len(body):
        c = body[i]
        if c == '\\' and i + 1 < len(body):
            e = body[i + 1]
            if e in _ESC:
                out.append(_ESC[e]); i += 2; continue
            if e == 'x':
                j = i + 2
                while j < len(body) and body[j] in '0123456789abcdefABCDEF':
                    j += 1
                out.append(chr(int(body[i + 2:j], 16))); i = j; continue
            if e in '01234567':
                j = i + 1
                while j < len(body) and j < i + 4 and body[j] in '01234567':
                    j += 1
                out.append(chr(int(body[i + 1:j], 8))); i = j; continue
            out.append(e); i += 2; continue
        out.append(c); i += 1
    return ''.join(out)


def _src(n):
    k = n.kind
    I = n.inner
    if k in TRANSPARENT:
        return _src(I[0]) if I else '?'
    if k == 'IntegerLiteral':
        return str(n.value)
    if k == 'CharacterLiteral':
        return str(n.value)
    if k == 'FloatingLiteral':
        return str(n.value)
    if k == 'StringLiteral':
        return n.value
    if k == 'DeclRefExpr':
        return n.ref_name or '?'
    if k == 'MemberExpr':
        return _src(I[0]) + ('->' if n.d.get('isArrow') else '.') + (n.name or '?')
    if k == 'ArraySubscriptExpr':
        return '%s[%s]' % (_src(I[0]), _src(I[1]))
    if k == 'CallExpr':
        return '%s(%s)' % (_src(I[0]), ', '.join(_src(a) for a in I[1:]))
    if k == 'UnaryOperator':
        if n.d.get('isPostfix'):
            return '%s%s' % (_wrap(I[0]), n.opcode)
        return '%s%s' % (n.opcode, _wrap(I[0]))
    if k in ('BinaryOperator', 'CompoundAssignOperator'):
        return '%s %s %s' % (_wrap(I[0]), n.opcode, _wrap(I[1]))
    if k == 'ConditionalOperator':
        return '%s ? %s : %s' % (_wrap(I[0]), _wrap(I[1]), _wrap(I[2]))
    if k == 'CStyleCastExpr':
        return '(%s)%s' % (n.type, _wrap(I[0]))
    if k == 'UnaryExprOrTypeTraitExpr':
        if 'argType' in n.d:
            return '%s(%s)' % (n.name, n.d['argType'].get('qualType'))
        return '%s(%s)' % (n.name, _src(I[0]) if I else '?')
    if k == 'InitListExpr':
        return '{%s}' % ', '.join(_src(a) for a in I)
    if k == 'CompoundLiteralExpr':
        return '(%s)%s' % (n.type, _src(I[0]) if I else '{}')
    if k == 'ImplicitValueInitExpr':
        return '0'
    if k == 'StmtExpr':
        return '({...})'
    if k == 'PredefinedExpr':
        return n.name or '__func__'
    if k == 'VAArgExpr':
        return 'va_arg(%s, %s)' % (_src(I[0]) if I else '?', n.type)
    if k == 'DesignatedInitExpr':
        return '[desig]=' + (_src(I[-1]) if I else '?')
    if k == 'OffsetOfExpr':
        return 'offsetof(...)'
    if k == 'AtomicExpr':
        return 'atomic(%s)' % ', '.join(_src(a) for a in I)
    return '<%s>' % k


def _wrap(n):
    m = n.strip()
    if m.kind in ('BinaryOperator', 'ConditionalOperator', 'CompoundAssignOperator', 'CStyleCastExpr'):
        return '(' + _src(m) + ')'
    if m.kind == 'UnaryOperator' and not m.d.get('isPostfix') and m.opcode in ('-', '+', '~', '!', '*', '&'):
        return _src(m)
    return _src(m)


# --------------------------------------------------------------------------
class Unit:
    """one translation unit"""

    def __init__(self, path, json_path, repo_root):
        self.path = path                    # absolute path of the .c file
        self.name = os.path.basename(path)  # e.g. codegen.c
        self.repo_root = os.path.realpath(repo_root)
        self.functions = {}   # name -> FunctionDecl Node (definition)
        self.fdecls = {}      # name -> any FunctionDecl Node (prototype info)
        self.globals = {}     # name -> VarDecl Node (file scope, repo files)
        self.enums = {}       # enumerator name -> int
        self.enum_types = {}  # enum type name (typedef or tag) -> [enumerator names in order]
        self.enum_of = {}     # enumerator name -> enum type key
        self.records = {}     # struct tag/typedef name -> [(field name, qualType, is_bitfield)]
        self.typedefs = {}    # typedef name -> underlying qualType
        self.by_id = {}       # decl id -> Node (repo decls only)
        self.all_nodes = 0
        self._load(json_path)

    # -- loading -----------------------------------------------------------
    def _load(self, json_path):
        with open(json_path) as f:
            top = json.load(f)
        self._last_file = None
        self._last_line = 0
        self._anon_enum = {}
        self._anon_rec = {}
        for d in top.get('inner', []):
            before = (self._last_file, self._last_line)
            in_repo = self._track_decl(d)
            if in_repo:
                after = (self._last_file, self._last_line)
                self._last_file, self._last_line = before
                n = self._build(d, None)
                self._register(n)
                self._last_file, self._last_line = after

    def _track_decl(self, d):
        """advance location state over a whole top-level decl; say whether it
        lies in a repo file"""
        self._scan_locs(d, top=True)
        f = self._decl_file
        return f is not None and os.path.realpath(f).startswith(self.repo_root + os.sep)

    def _scan_locs(self, d, top=False):
        # iterative walk in document order over loc/range entries
        first = True
        st = [d]
        while st:
            x = st.pop()
            if isinstance(x, dict):
                if 'loc' in x:
                    self._upd(x['loc'])
                    if first:
                        self._decl_file = self._last_file
                        first = False
                if 'range' in x:
                    r = x['range']
                    self._upd(r.get('begin', {}))
                    if first:
                        self._decl_file = self._last_file
                        first = False
                    self._upd(r.get('end', {}))
                inner = x.get('inner')
                if inner:
                    st.extend(reversed(inner))
        if first:
            self._decl_file = self._last_file

    def _upd(self, loc):
        if not loc:
            return
        if 'spellingLoc' in loc or 'expansionLoc' in loc:
            if 'spellingLoc' in loc:
                self._upd(loc['spellingLoc'])
            if 'expansionLoc' in loc:
                self._upd(loc['expansionLoc'])
            return
        if 'file' in loc:
            self._last_file = loc['file']
        if 'line' in loc:
            self._last_line = loc['line']

    def _build(self, d, parent):
        n = Node(d, parent, self)
        self.all_nodes += 1
        # clang prints loc, then range{begin,end}, then inner; a 'line'/'file'
        # key is present only when it differs from the previously printed one
        if 'loc' in d:
            self._upd(d['loc'])
        r = d.get('range')
        if r:
            self._upd(r.get('begin', {}))
        n.line = self._last_line
        n.file = self._last_file
        if r:
            self._upd(r.get('end', {}))
        for c in d.get('inner', []):
            if isinstance(c, dict) and c:
                n.inner.append(self._build(c, n))
        return n

    def _register(self, n):
        k = n.kind
        if n.id:
            self.by_id[n.id] = n
        if k == 'FunctionDecl':
            self.fdecls.setdefault(n.name, n)
            if any(c.kind == 'CompoundStmt' for c in n.inner):
                self.functions[n.name] = n
                self.fdecls[n.name] = n
        elif k == 'VarDecl':
            # keep the declaration that has an initializer if any
            old = self.globals.get(n.name)
            if old is None or ('init' in n.d and 'init' not in old.d):
                self.globals[n.name] = n
        elif k == 'EnumDecl':
            self._reg_enum(n)
        elif k == 'RecordDecl':
            self._reg_record(n)
        elif k == 'TypedefDecl':
            t = n.d.get('type', {})
            self.typedefs[n.name] = t.get('qualType')
            # typedef struct {...} X;  /  typedef enum {...} X;
            for c in n.inner:
                own = c.d.get('ownedTagDecl')
                if own:
                    i = own.get('id')
                    if i in self._anon_enum:
                        self.enum_types[n.name] = self._anon_enum[i]
                        for e in self._anon_enum[i]:
                            self.enum_of[e] = n.name
                    if i in self._anon_rec:
                        self.records[n.name] = self._anon_rec[i]
                    tagname = own.get('name')
                    if tagname and tagname in self.records:
                        self.records[n.name] = self.records[tagname]

    def _reg_enum(self, n):
        names = []
        val = -1
        for c in n.inner:
            if c.kind != 'EnumConstantDecl':
                continue
            v = None
            for e in c.walk():
                if e.kind == 'ConstantExpr' and e.value is not None:
                    v = int(e.value); break
            if v is None and c.inner:
                v = c.inner[0].int_value()
            val = v if v is not None else val + 1
            self.enums[c.name] = val
            names.append(c.name)
        key = n.name
        self._anon_enum[n.id] = names
        if key:
            self.enum_types[key] = names
            for e in names:
                self.enum_of[e] = key

    def _reg_record(self, n):
        fields = []
        for c in n.inner:
            if c.kind == 'FieldDecl':
                fields.append((c.name, c.type, bool(c.d.get('isBitfield'))))
            elif c.kind == 'EnumDecl':
                self._reg_enum(c)          # enum declared inside a struct
            elif c.kind == 'RecordDecl':
                self._reg_record(c)
        if not n.d.get('completeDefinition') and not fields:
            return
        self._anon_rec[n.id] = fields
        if n.name:
            self.records[n.name] = fields

    # -- queries -------------------------------------------------------------
    def enum_value(self, name):
        return self.enums.get(name)

    def fn(self, name):
        return self.functions.get(name)

    def body(self, name):
        f = self.functions.get(name)
        if not f:
            return None
        for c in f.inner:
            if c.kind == 'CompoundStmt':
                return c
        return None

    def params(self, name):
        f = self.functions.get(name) or self.fdecls.get(name)
        return [c for c in f.inner if c.kind == 'ParmVarDecl'] if f else []

    def record_fields(self, tname):
        """fields of struct type given a spelled type like 'Node *', 'struct Node'"""
        t = tname.replace('*', '').replace('const ', '').replace('struct ', '').replace('union ', '').strip()
        return self.records.get(t)
