"""chibicc-specific support for Engine I: type catalogue read from type.c,
abstract Node/Type construction, emission capture, instruction knowledge."""
import re
from .interp import Interp, Obj, Sym, Term, Lin, View, Cell, is_opaque, vkey, Infeasible
from .build import AnalysisBroken

SCALAR_GLOBALS = ['ty_void', 'ty_bool', 'ty_char', 'ty_short', 'ty_int', 'ty_long',
                  'ty_uchar', 'ty_ushort', 'ty_uint', 'ty_ulong', 'ty_float', 'ty_double', 'ty_ldouble']


class Catalogue:
    """(kind,size,align,is_unsigned) of every type the compiler can build,
    recovered by interpreting type.c itself"""

    def __init__(self, P):
        self.P = P
        tu = P.unit('type.c')
        self.tu = tu
        it = Interp(P, tu, {})
        from .interp import Ctx
        it.ctx = Ctx([])
        self.scalars = {}
        for g in SCALAR_GLOBALS:
            d = tu.globals.get(g)
            if d is None or 'init' not in d.d:
                raise AnalysisBroken('type.c: global %s vanished' % g)
            o = it.materialise_global(g, d)
            if not isinstance(o, Obj):
                raise AnalysisBroken('type.c: %s is not a compound literal' % g)
            self.scalars[g] = {k: o.fields.get(k, 0) for k in ('kind', 'size', 'align', 'is_unsigned')}
            self.scalars[g]['base'] = 0
        # constructors
        self.ctors = {}

        def run(fname, args):
            it2 = Interp(P, tu, {'track_stores': False})
            res = it2.explore(fname, lambda ctx: args(ctx))
            outs = [o for c, o in res if o[0] == 'ret']
            if len(outs) != 1 or not isinstance(outs[0][1], Obj):
                raise AnalysisBroken('type.c: constructor %s has %d returning paths' % (fname, len(outs)))
            return outs[0][1]
        L = lambda n: Obj('Type', lazy=True, label=n)
        self.ctors['ptr'] = run('pointer_to', lambda ctx: [L('base')])
        self.ctors['enum'] = run('enum_type', lambda ctx: [])
        self.ctors['func'] = run('func_type', lambda ctx: [L('ret')])
        self.ctors['array'] = run('array_of', lambda ctx: [L('base'), Sym('len', 'int')])
        self.ctors['vla'] = run('vla_of', lambda ctx: [L('base'), Obj('Node', lazy=True, label='len')])
        self.ctors['struct'] = run('struct_type', lambda ctx: [])
        self.enums = tu.enums

    def entries(self):
        """list of (name, {field: concrete or None})"""
        out = []
        for g in SCALAR_GLOBALS:
            out.append((g[3:], dict(self.scalars[g])))
        for n in ('ptr', 'enum', 'func', 'array', 'vla', 'struct'):
            o = self.ctors[n]
            f = {k: o.fields.get(k, 0) for k in ('kind', 'size', 'align', 'is_unsigned')}
            f['base'] = 'nonnull' if isinstance(o.fields.get('base'), Obj) else 0
            out.append((n, f))
        # union: same constructor as struct, kind TY_UNION
        u = dict(out[-1][1]); u['kind'] = self.enums['TY_UNION']
        out.append(('union', u))
        return out


AGG = ('array', 'struct', 'union')


def type_cell(cat, label, null=False, only=None, exclude=(), agg_sizes=None):
    """a fresh pointer-cell over the catalogue"""
    cands = []
    names = {}
    if null:
        cands.append(0); names[0] = 'NULL'
    for name, f in cat.entries():
        if only is not None and name not in only:
            continue
        if name in exclude:
            continue
        if agg_sizes and name in ('struct', 'union'):
            # concrete aggregate sizes instead of one symbolic size (keeps size-driven loops finite)
            for sz in agg_sizes:
                o = Obj('Type', lazy=True, label='%s:%s%d' % (label, name, sz))
                o.meta['cat'] = name
                o.fields.update({'kind': int(f['kind']), 'size': sz, 'align': 8 if sz % 8 == 0 else (4 if sz % 4 == 0 else 1), 'is_unsigned': 0, 'base': 0})
                cands.append(o)
            continue
        o = Obj('Type', lazy=True, label='%s:%s' % (label, name))
        o.meta['cat'] = name
        for k, v in f.items():
            if k == 'base':
                if v == 0:
                    o.fields[k] = 0
                continue
            if name in AGG and k in ('size', 'align'):
                o.fields[k] = Sym('%s:%s.%s' % (label, name, k), 'int')
            elif isinstance(v, (int, bool)):
                o.fields[k] = int(v)
            else:
                o.fields[k] = Sym('%s:%s.%s' % (label, name, k), 'int')
        cands.append(o)
    c = Cell(cands, label)
    c.names = None
    return View(c)


def cat_of(v, it=None):
    """catalogue names still possible for a type value"""
    if isinstance(v, View):
        return [c.meta.get('cat') if isinstance(c, Obj) else 'NULL' for c in v.cell.cands]
    if isinstance(v, Obj):
        return [v.meta.get('cat')]
    return ['?']


# --------------------------------------------------------------- emission ---
def fmt_emit(fmt, args, syms=None):
    """render a println format with abstract arguments; symbolic arguments are rendered as
    `{repr}` and remembered in `syms` (text -> value)"""
    out = []
    i = 0
    ai = 0
    n = len(fmt)
    while i < n:
        c = fmt[i]
        if c != '%':
            out.append(c); i += 1; continue
        i += 1
        if i < n and fmt[i] == '%':
            out.append('%'); i += 1; continue
        # flags/width/length
        j = i
        while j < n and fmt[j] in '0123456789.-+ #lhzjt*':
            j += 1
        conv = fmt[j] if j < n else '?'
        a = args[ai] if ai < len(args) else '<?>'
        ai += 1
        if isinstance(a, bool):
            a = int(a)
        if isinstance(a, int) and conv in 'dui':
            out.append(str(a))
        elif isinstance(a, int) and conv == 'x':
            out.append('%x' % a)
        elif isinstance(a, int) and conv == 'c':
            out.append(chr(a))
        elif isinstance(a, str):
            out.append(a)
        elif isinstance(a, float):
            out.append(repr(a))
        else:
            txt = '{%r}' % (a,)
            txt = txt.replace(',', ';')      # keep operand splitting simple
            if syms is not None:
                syms[txt] = a
            out.append(txt)
        i = j + 1
    return ''.join(out)


class Trace:
    """events of one path, with emitted lines rendered"""

    def __init__(self, ctx):
        self.ctx = ctx
        self.items = []   # ('asm', text, fmt, args) | ('expr', obj) | ('addr', obj) | ('stmt', obj) | ('call', name, args)
        self.syms = {}
        for e in ctx.events:
            if e[0] == 'emit':
                self.items.append(('asm', fmt_emit(e[1], e[2], self.syms), e[1], e[2]))
            elif e[0] in ('gen_expr', 'gen_addr', 'gen_stmt'):
                self.items.append((e[0][4:], e[1]))
            elif e[0] == 'call':
                self.items.append(('call', e[1], e[2]))
            elif e[0] == 'depth':
                self.items.append(e)

    def asm(self):
        return [x[1] for x in self.items if x[0] == 'asm']

    def text(self):
        out = []
        for x in self.items:
            if x[0] == 'asm':
                out.append(x[1])
            elif x[0] in ('expr', 'addr', 'stmt'):
                out.append('  <%s %s>' % (x[0], x[1].label if isinstance(x[1], Obj) else x[1]))
        return out


_INS = re.compile(r'^\s*(?:(lock)\s+)?([a-z][a-z0-9]*)\s*(.*)$')


def parse_ins(line):
    """(mnemonic, [operands]) or None for labels/directives"""
    s = line.strip()
    if not s or s.endswith(':') or s.startswith('.') or s.startswith('#'):
        return None
    m = _INS.match(s)
    if not m:
        return None
    lock, mn, rest = m.groups()
    ops = [o.strip() for o in _split_ops(rest)] if rest else []
    return (('lock ' + mn) if lock else mn, ops)


def _split_ops(s):
    out, cur, d = [], '', 0
    for ch in s:
        if ch in '({':
            d += 1
        elif ch in ')}':
            d -= 1
        if ch == ',' and d == 0:
            out.append(cur); cur = ''
        else:
            cur += ch
    if cur.strip():
        out.append(cur)
    return out


X87_PUSH = {'fld', 'flds', 'fldl', 'fldt', 'fild', 'filds', 'fildl', 'fildq', 'fildll', 'fldz', 'fld1'}
X87_POP = {'fstp', 'fstps', 'fstpl', 'fstpt', 'fistp', 'fistps', 'fistpl', 'fistpq', 'fistpll',
           'faddp', 'fsubp', 'fsubrp', 'fmulp', 'fdivp', 'fdivrp', 'fucomip', 'fcomip', 'fucomp', 'fcomp'}
X87_NEUTRAL = {'fadds', 'faddl', 'fsubs', 'fsubl', 'fmuls', 'fmull', 'fdivs', 'fdivl', 'fsubrs', 'fsubrl', 'fdivrs', 'fdivrl', 'fiadds', 'fiaddl', 'fchs', 'fabs', 'fnstcw', 'fldcw', 'fst', 'fsts', 'fstl', 'fucomi', 'fcomi', 'fxch', 'fadd', 'fsub', 'fmul', 'fdiv',
               'fnstsw', 'fwait', 'fninit'}


def stack_effect(line):
    """(rsp delta in bytes or None if it does not touch rsp / 'unknown', x87 delta, known?)"""
    ins = parse_ins(line)
    if ins is None:
        return 0, 0, True
    mn, ops = ins
    x = 0
    if mn in X87_PUSH:
        x = 1
    elif mn in X87_POP:
        x = -1
    elif mn.startswith('f') and mn not in X87_NEUTRAL and not mn.startswith('fs:'):
        return 0, 0, False
    r = 0
    if mn in ('push', 'pushq'):
        r = -8
    elif mn in ('pop', 'popq'):
        r = 8
    elif mn in ('sub', 'add', 'subq', 'addq') and len(ops) == 2 and ops[1] == '%rsp':
        m = re.match(r'^\$(-?\d+)$', ops[0])
        if not m:
            return ('sym', mn, ops[0]), x, True
        v = int(m.group(1))
        r = -v if mn.startswith('sub') else v
    elif len(ops) >= 1 and ops[-1] == '%rsp' and mn not in ('cmp', 'test'):
        return ('set', mn, ops), x, True
    return r, x, True


# ------------------------------------------------------------ codegen explorer ---
class CG:
    """explores codegen.c's gen_expr / gen_stmt / gen_addr per node kind on
    abstract nodes, with recursion cut by contract"""

    def __init__(self, P):
        self.P = P
        self.cu = P.unit('codegen.c')
        self.cat = Catalogue(P)
        self.E = self.cu.enums
        for f in ('gen_expr', 'gen_stmt', 'gen_addr', 'println'):
            if f not in self.cu.functions:
                raise AnalysisBroken('codegen.c: anchor function %s vanished' % f)
        self.node_kinds = self.cu.enum_types.get('NodeKind')
        self.type_kinds = self.cu.enum_types.get('TypeKind')
        if not self.node_kinds or not self.type_kinds:
            raise AnalysisBroken('NodeKind/TypeKind enums not found')
        self._cache = {}

    # -- abstract objects ----------------------------------------------------------
    def tcell(self, label, **kw):
        return type_cell(self.cat, label, **kw)

    def node(self, label, kind=None, **fields):
        n = Obj('Node', lazy=True, label=label)
        if kind is not None:
            n.fields['kind'] = self.E[kind] if isinstance(kind, str) else kind
        n.fields.update(fields)
        return n

    def ptr_to(self, base, label):
        o = Obj('Type', lazy=True, label=label)
        o.meta['cat'] = 'ptr'
        f = dict(self.cat.entries())['ptr']
        for k in ('kind', 'size', 'align', 'is_unsigned'):
            o.fields[k] = int(f[k])
        o.fields['base'] = base
        return o

    def lazy_field(self, it, ctx, o, f, t):
        if o.tname == 'Node' and f in ('member', 'var') and 'ty' in o.fields:
            # a member/variable reference has the type of what it refers to
            m = Obj('Member' if f == 'member' else 'Obj', lazy=True, label=(o.label or 'node') + '.' + f)
            m.fields['ty'] = o.fields['ty']
            return m
        if t == 'Type *':
            # ty of nodes/objects/members is never NULL once typed; base handled by catalogue
            return self.tcell((o.label or o.tname) + '.' + f, null=(f not in ('ty', 'base', 'return_ty')))
        return NotImplemented

    # -- interpreter config ------------------------------------------------------------
    def interp(self, extra_cut=None, inline_root_only=True, opaque=(), loop_limit=1, models=None):
        cg = self

        def h_println(it, ctx, n, args):
            ctx.emit('emit', args[0], args[1:], n.line)
            return None

        def h_gen(name):
            def h(it, ctx, n, args):
                a = args[0]
                if isinstance(a, View):
                    a = it.deref_target(a, n)
                if isinstance(a, Obj) and a.meta.get('root'):
                    u, fn = it.find_def(name)
                    return it.call_fn(u, fn, [a])
                ctx.emit(name, a, n.line)
                return None
            return h
        cut = {'println': h_println, 'gen_expr': h_gen('gen_expr'), 'gen_stmt': h_gen('gen_stmt'), 'gen_addr': h_gen('gen_addr')}
        if extra_cut:
            cut.update(extra_cut)
        cfg = {'cut': cut, 'lazy_field': self.lazy_field, 'opaque': ['count', 'has_flonum', 'has_ldouble', 'is_ldouble_only'] + list(opaque),
               'globals': {'depth': Sym('depth0', 'int')}, 'loop_limit': loop_limit, 'models': models or {}}
        return Interp(self.P, self.cu, cfg)

    def explore(self, fname, make_node, **kw):
        it = self.interp(**kw)

        def mk(ctx):
            n = make_node(ctx)
            n.meta['root'] = True
            return [n]
        res = it.explore(fname, mk)
        return it, res


def depth_delta(ctx):
    """final depth - initial depth as int, or a non-int term"""
    d = ctx.globals.get('depth')
    if d is None:
        return 0
    l = Lin.of(d)
    if l is None:
        return None
    r = l.add(Lin.of(Sym('depth0', 'int')), -1)
    return r


# ------------------------------------------------------------ emitted-code CFG ---
JCC = {'je', 'jne', 'jz', 'jnz', 'jb', 'jbe', 'ja', 'jae', 'jl', 'jle', 'jg', 'jge', 'js', 'jns', 'jp', 'jnp', 'jc', 'jnc', 'jnae', 'jnb', 'jna', 'jnbe'}


def linearise(tr):
    """trace items -> list of nodes: ('ins', text) | ('label', name) | ('pseudo', kind, obj) ; multi-instruction
    template strings (cast table) are split on ';'"""
    out = []
    for item in tr.items:
        if item[0] == 'asm':
            for part in item[1].split(';'):
                s = part.strip()
                if not s:
                    continue
                m = re.match(r'^((?:[A-Za-z0-9_.$]|\{[^}]*\})+):\s*(.*)$', s)
                if m and not s.startswith('%'):
                    out.append(('label', m.group(1)))
                    s = m.group(2).strip()
                    if not s:
                        continue
                out.append(('ins', s))
        elif item[0] in ('expr', 'addr', 'stmt'):
            out.append(('pseudo', item[0], item[1]))
    return out


def flow_heights(nodes, pseudo_effect, on_pseudo=None):
    """stack-height dataflow over the emitted code (like a bytecode verifier).
    returns (exit_heights, external_jumps[(label, height)], problems[str])"""
    labels = {}
    for i, n in enumerate(nodes):
        if n[0] == 'label':
            labels.setdefault(n[1], []).append(i)
    problems = []
    ext = []
    exits = set()
    height = {}
    work = [(0, (0, 0))]
    N = len(nodes)

    def target(lab, i):
        m = re.match(r'^(\d+)([fb])$', lab)
        if m:
            cands = labels.get(m.group(1), [])
            if m.group(2) == 'f':
                c = [j for j in cands if j > i]
                return min(c) if c else None
            c = [j for j in cands if j < i]
            return max(c) if c else None
        c = labels.get(lab)
        if c:
            if len(c) > 1:
                problems.append('label %s defined %d times in one trace' % (lab, len(c)))
            return c[0]
        return None
    steps = 0
    while work:
        i, h = work.pop()
        steps += 1
        if steps > 20000:
            problems.append('flow analysis did not converge'); break
        if i >= N:
            exits.add(h); continue
        if i in height:
            if height[i] != h:
                n = nodes[i]
                problems.append('inconsistent stack height at `%s`: %r vs %r (rsp bytes, x87)' % (n[1] if n[0] != 'pseudo' else n[1], height[i], h))
            continue
        height[i] = h
        n = nodes[i]
        if n[0] == 'label':
            work.append((i + 1, h)); continue
        if n[0] == 'pseudo':
            if on_pseudo is not None:
                on_pseudo(n, h)
            dr, dx = pseudo_effect(n)
            work.append((i + 1, (h[0] + dr, h[1] + dx))); continue
        ins = parse_ins(n[1])
        if ins is None:
            work.append((i + 1, h)); continue
        mn, ops = ins
        if mn == 'jmp' or mn in JCC:
            t = ops[0] if ops else ''
            if t.startswith('*'):
                ext.append((t, h))
            else:
                j = target(t, i)
                if j is None:
                    ext.append((t, h))
                else:
                    work.append((j, h))
            if mn != 'jmp':
                work.append((i + 1, h))
            continue
        if mn == 'ret':
            ext.append(('ret', h)); continue
        r, x, known = stack_effect(n[1])
        if not known:
            problems.append('unknown x87 mnemonic in `%s`' % n[1]); r, x = 0, 0
        if isinstance(r, tuple):
            problems.append('non-constant %%rsp adjustment `%s`' % n[1]); r = 0
        work.append((i + 1, (h[0] + r, h[1] + x)))
    return exits, ext, problems


INT_CATS = ('bool', 'char', 'short', 'int', 'long', 'uchar', 'ushort', 'uint', 'ulong', 'enum')


def apply_invariants(it, ctx, root):
    """facts of chibicc's data structures that the lazy objects do not know:
    a bit-field member has an integer type. Raises Infeasible when a path
    contradicts them."""
    seen = set()
    st = [root]
    while st:
        o = st.pop()
        if isinstance(o, View):
            if len(o.cell.cands) == 1:
                o = o.proj(o.cell.cands[0])
            else:
                continue
        if not isinstance(o, Obj) or id(o) in seen:
            continue
        seen.add(id(o))
        if o.tname == 'Member':
            bf = o.fields.get('is_bitfield')
            bf = it.settle(bf) if isinstance(bf, View) else bf
            if isinstance(bf, int) and bf == 1:
                t = o.fields.get('ty')
                if isinstance(t, View):
                    keep = [c for c in t.cell.cands if isinstance(c, Obj) and c.meta.get('cat') in INT_CATS]
                    if not keep:
                        raise Infeasible('bit-field of non-integer type')
                    t.cell.cands = keep
                elif isinstance(t, Obj) and t.meta.get('cat') not in INT_CATS:
                    raise Infeasible('bit-field of non-integer type')
        for v in o.fields.values():
            if isinstance(v, (Obj, View)):
                st.append(v)
