"""Engine I: path-sensitive abstract interpreter for the C subset chibicc is
written in, over clang's typed AST.

Abstract domain
  * concrete ints / strings / arrays / struct objects (exact),
  * lazy abstract struct objects whose fields materialise on first read,
  * finite value sets ("cells") for enum/bool/pointer-candidate fields that are
    *partitioned* by the comparisons and switch arms the code performs,
  * opaque integer terms kept as linear combinations of named symbols with
    interval refinement from comparisons against constants.
No solver.  Loops whose condition is not concrete run 0..k generic iterations.
Recursion into configured functions is cut and recorded as an event
(contract cut => structural induction, see DESIGN.md 2.3).

Exploration is by deterministic re-execution with a decision prefix.
"""
import os
import sys
from .cast import Node, unquote
from .build import AnalysisBroken

sys.setrecursionlimit(20000)


# ---------------------------------------------------------------- control ---
class NeedChoice(Exception):
    def __init__(self, n, label):
        self.n = n; self.label = label


class Infeasible(Exception):
    """path pruned (contradiction, bound reached)"""


class NoReturn(Exception):
    def __init__(self, fn, args, line):
        self.fn = fn; self.args_ = args; self.line = line


class _Break(Exception):
    pass


class _Continue(Exception):
    pass


class _Return(Exception):
    def __init__(self, v):
        self.v = v


class Unsupported(AnalysisBroken):
    pass


# ----------------------------------------------------------------- values ---
class Sym:
    """opaque named leaf"""
    __slots__ = ('name', 'ctype')

    def __init__(self, name, ctype=None):
        self.name = name; self.ctype = ctype

    def key(self):
        return ('sym', self.name)

    def __repr__(self):
        return self.name


class Term:
    """opaque operator application (non-linear or non-integer)"""
    __slots__ = ('op', 'args', '_k')

    def __init__(self, op, *args):
        self.op = op; self.args = args; self._k = None

    def key(self):
        if self._k is None:
            self._k = ('term', self.op) + tuple(vkey(a) for a in self.args)
        return self._k

    def __repr__(self):
        if len(self.args) == 2 and not self.op.isalpha():
            return '(%r %s %r)' % (self.args[0], self.op, self.args[1])
        return '%s(%s)' % (self.op, ', '.join(repr(a) for a in self.args))


class Lin:
    """c + sum coef*leaf  (leaf = Sym or Term)"""
    __slots__ = ('c', 'terms')

    def __init__(self, c=0, terms=None):
        self.c = c; self.terms = terms or {}   # key -> (coef, leaf)

    @staticmethod
    def of(v):
        if isinstance(v, Lin):
            return v
        if isinstance(v, bool):
            return Lin(int(v))
        if isinstance(v, int):
            return Lin(v)
        if isinstance(v, (Sym, Term)):
            return Lin(0, {v.key(): (1, v)})
        return None

    def add(self, o, sign=1):
        t = dict(self.terms)
        for k, (c, l) in o.terms.items():
            nc = t.get(k, (0, l))[0] + sign * c
            if nc == 0:
                t.pop(k, None)
            else:
                t[k] = (nc, l)
        return Lin(self.c + sign * o.c, t).simp()

    def scale(self, f):
        if f == 0:
            return 0
        return Lin(self.c * f, {k: (c * f, l) for k, (c, l) in self.terms.items()}).simp()

    def simp(self):
        if not self.terms:
            return self.c
        if self.c == 0 and len(self.terms) == 1:
            (c, l), = self.terms.values()
            if c == 1:
                return l
        return self

    def key(self):
        return ('lin', self.c) + tuple(sorted((k, c) for k, (c, l) in self.terms.items()))

    def __repr__(self):
        parts = []
        for k, (c, l) in sorted(self.terms.items(), key=lambda x: str(x[0])):
            parts.append(('%r' % l) if c == 1 else ('-%r' % l if c == -1 else '%d*%r' % (c, l)))
        if self.c or not parts:
            parts.append(str(self.c))
        return '(' + ' + '.join(parts) + ')'


def is_opaque(v):
    return isinstance(v, (Sym, Term, Lin))


def vkey(v):
    if isinstance(v, (Sym, Term, Lin)):
        return v.key()
    if isinstance(v, Obj):
        return ('obj', v.label or id(v))
    if isinstance(v, View):
        return ('view', id(v.cell), v.tag)
    if isinstance(v, (list, tuple)):
        return tuple(vkey(x) for x in v)
    if isinstance(v, (int, str, float, type(None))):
        return v
    return ('py', id(v))


class Obj:
    """struct object. lazy => unknown fields materialise on read; else zero."""
    __slots__ = ('tname', 'fields', 'lazy', 'label', 'meta')

    def __init__(self, tname=None, lazy=False, label=None, fields=None):
        self.tname = tname; self.lazy = lazy; self.label = label
        self.fields = fields if fields is not None else {}
        self.meta = {}

    def __repr__(self):
        return '<%s %s>' % (self.tname or 'obj', self.label or hex(id(self) & 0xffff))


class Arr:
    __slots__ = ('elems', 'label')

    def __init__(self, elems, label=None):
        self.elems = elems; self.label = label

    def __repr__(self):
        return 'Arr(%d)' % len(self.elems)


class Cell:
    """finite candidate set, refined along the path"""
    __slots__ = ('cands', 'label', 'names', 'refined_at')

    def __init__(self, cands, label, names=None):
        self.cands = list(cands); self.label = label; self.names = names; self.refined_at = 0

    def show(self, c):
        if self.names and c in self.names:
            return self.names[c]
        return repr(c)


class View:
    """projection of a cell's candidate through fn"""
    __slots__ = ('cell', 'fn', 'tag')

    def __init__(self, cell, fn=None, tag='id'):
        self.cell = cell; self.fn = fn; self.tag = tag

    def proj(self, c):
        return self.fn(c) if self.fn else c

    def map(self, g, tag):
        f = self.fn
        return View(self.cell, (lambda c: g(f(c))) if f else g, self.tag + '|' + tag)

    def __repr__(self):
        return 'View(%s:%s)' % (self.cell.label, self.tag)


# places (lvalues)
class VarPlace:
    __slots__ = ('env', 'key')

    def __init__(self, env, key):
        self.env = env; self.key = key

    def get(self, it):
        return self.env[self.key]

    def set(self, it, v):
        self.env[self.key] = v


class FieldPlace:
    __slots__ = ('obj', 'f', 'ftype')

    def __init__(self, obj, f, ftype=None):
        self.obj = obj; self.f = f; self.ftype = ftype

    def get(self, it):
        return it.read_field(self.obj, self.f)

    def set(self, it, v):
        if it.track_stores:
            it.ctx.emit('fstore', self.obj, self.f, self.obj.fields.get(self.f), v)
        self.obj.fields[self.f] = v


class ElemPlace:
    __slots__ = ('arr', 'i')

    def __init__(self, arr, i):
        self.arr = arr; self.i = i

    def get(self, it):
        a = self.arr
        if isinstance(a, str):
            if isinstance(self.i, int):
                return ord(a[self.i]) if 0 <= self.i < len(a) else 0
            return Term('idx', a, self.i)
        if isinstance(a, Arr):
            if isinstance(self.i, int):
                if 0 <= self.i < len(a.elems):
                    return a.elems[self.i]
                raise Infeasible('index out of range')
            return Term('idx', Sym(a.label or 'arr'), self.i)
        if isinstance(a, Obj):
            if isinstance(self.i, int) and self.i == 0:
                return a
            k = ('elem', vkey(self.i))
            if k not in a.meta:
                a.meta[k] = Obj(a.tname, a.lazy, '%s[%r]' % (a.label or a.tname, self.i))
            return a.meta[k]
        return Term('idx', a, self.i)

    def set(self, it, v):
        if isinstance(self.arr, Arr) and isinstance(self.i, int):
            while len(self.arr.elems) <= self.i:
                self.arr.elems.append(0)
            self.arr.elems[self.i] = v
        # writes through opaque pointers are recorded by the caller as events


class OpaquePlace:
    __slots__ = ('desc',)

    def __init__(self, desc):
        self.desc = desc

    def get(self, it):
        return Term('load', self.desc)

    def set(self, it, v):
        pass


# ------------------------------------------------------------- C integer types
_INT_TYPES = {
    '_Bool': (1, False), 'bool': (1, False),
    'char': (8, True), 'signed char': (8, True), 'unsigned char': (8, False),
    'short': (16, True), 'unsigned short': (16, False),
    'int': (32, True), 'unsigned int': (32, False), 'unsigned': (32, False),
    'long': (64, True), 'unsigned long': (64, False),
    'long long': (64, True), 'unsigned long long': (64, False),
    'int8_t': (8, True), 'uint8_t': (8, False), 'int16_t': (16, True), 'uint16_t': (16, False),
    'int32_t': (32, True), 'uint32_t': (32, False), 'int64_t': (64, True), 'uint64_t': (64, False),
    'size_t': (64, False), 'ssize_t': (64, True), 'uintptr_t': (64, False), 'intptr_t': (64, True),
    'ptrdiff_t': (64, True), '__int128': (128, True), 'unsigned __int128': (128, False),
}


def int_type(t):
    if not t:
        return None
    t = t.replace('const ', '').replace('volatile ', '').replace('static ', '').strip()
    return _INT_TYPES.get(t)


def wrap_int(v, t):
    it = int_type(t)
    if it is None or not isinstance(v, int):
        return v
    bits, signed = it
    if bits == 1:
        return 1 if v else 0
    v &= (1 << bits) - 1
    if signed and v >> (bits - 1):
        v -= 1 << bits
    return v


# ------------------------------------------------------------------ context ---
class Ctx:
    """per-path state"""

    def __init__(self, decisions):
        self.decisions = decisions
        self.di = 0
        self.trail = []      # human readable decisions
        self.events = []
        self.facts = {}      # opaque condition key -> bool
        self.bounds = {}     # leaf key -> [lo, hi]
        self.neq = {}        # leaf key -> set of excluded constants
        self.counter = 0
        self.globals = {}    # name -> value (materialised)
        self.loop_opaque = {}
        self.depth = 0
        self.rec = {}

    def choose(self, n, label):
        if n <= 1:
            return 0
        if self.di < len(self.decisions):
            d = self.decisions[self.di]
            self.di += 1
            return d
        raise NeedChoice(n, label)

    def note(self, s):
        self.trail.append(s)

    def fresh(self, base):
        self.counter += 1
        return '%s#%d' % (base, self.counter)

    def emit(self, *ev):
        self.events.append(ev)


# -------------------------------------------------------------- interpreter ---
NORETURN = {'error', 'error_at', 'error_tok', 'exit', '_exit', 'abort', '__assert_fail', 'verror_at_noreturn'}


class Interp:
    def __init__(self, program, unit, cfg=None):
        self.prog = program
        self.unit = unit
        cfg = cfg or {}
        self.cut = dict(cfg.get('cut', {}))            # fname -> handler(it, ctx, call, args) or None
        self.models = dict(cfg.get('models', {}))      # fname -> python model(it, ctx, call, args)
        self.opaque_fns = set(cfg.get('opaque', ()))   # never inlined
        self.loop_limit = cfg.get('loop_limit', 1)
        self.rec_limit = cfg.get('rec_limit', 1)
        self.lazy_field = cfg.get('lazy_field')        # hook(it, ctx, obj, fname, ftype) -> value or NotImplemented
        self.global_init = dict(cfg.get('globals', {}))  # name -> value or callable(ctx)
        self.noreturn = set(cfg.get('noreturn', NORETURN))
        self.on_null_deref = cfg.get('on_null_deref')
        self.max_depth = cfg.get('max_depth', 60)
        self.inline_other_units = cfg.get('inline_other_units', True)
        self.track_stores = cfg.get('track_stores', False)
        self.forever_limit = cfg.get('forever_limit', 64)
        self.ctx = None

    # ---- exploration ---------------------------------------------------------
    def explore(self, fname, make_args, max_paths=20000, unit=None):
        """run fname on make_args(ctx) for every path. returns list of
        (ctx, outcome) where outcome = ('ret', value) | ('noreturn', fn, args)"""
        u = unit or self.unit
        fn = u.functions.get(fname)
        if fn is None:
            raise AnalysisBroken('function %s not found in %s' % (fname, u.name))
        out = []
        stack = [[]]
        while stack:
            dec = stack.pop()
            ctx = Ctx(dec)
            self.ctx = ctx
            try:
                args = make_args(ctx)
                v = self.call_fn(u, fn, args)
                out.append((ctx, ('ret', v)))
            except NeedChoice as e:
                for a in range(e.n - 1, -1, -1):
                    stack.append(dec + [a])
            except Infeasible:
                pass
            except NoReturn as e:
                out.append((ctx, ('noreturn', e.fn, e.args_, e.line)))
            if len(out) + len(stack) > max_paths:
                raise AnalysisBroken('path explosion in %s (> %d)' % (fname, max_paths))
        return out

    # ---- functions -------------------------------------------------------------
    def call_fn(self, unit, fn, args):
        ctx = self.ctx
        ctx.depth += 1
        if ctx.depth > self.max_depth:
            raise AnalysisBroken('interpreter call depth exceeded at ' + fn.name)
        n = ctx.rec.get(fn.name, 0)
        if n > self.rec_limit:
            ctx.depth -= 1
            raise Infeasible('recursion bound')
        ctx.rec[fn.name] = n + 1
        env = {}
        params = [c for c in fn.inner if c.kind == 'ParmVarDecl']
        for i, p in enumerate(params):
            env[p.id] = args[i] if i < len(args) else Sym(ctx.fresh('arg.' + (p.name or '?')))
        body = [c for c in fn.inner if c.kind == 'CompoundStmt'][0]
        saved_unit = self.unit
        self.unit = unit
        try:
            self.exec(body, env)
            rv = None
        except _Return as r:
            rv = r.v
        finally:
            self.unit = saved_unit
            ctx.depth -= 1
            ctx.rec[fn.name] = n
        return rv

    # ---- statements -------------------------------------------------------------
    def exec(self, s, env):
        k = s.kind
        if k == 'CompoundStmt':
            for c in s.inner:
                self.exec(c, env)
        elif k == 'DeclStmt':
            for d in s.inner:
                if d.kind == 'VarDecl':
                    self.decl_var(d, env)
        elif k == 'IfStmt':
            kids = s.inner
            c = self.truth(self.eval(kids[0], env), kids[0])
            if c:
                self.exec(kids[1], env)
            elif len(kids) > 2:
                self.exec(kids[2], env)
        elif k == 'ReturnStmt':
            raise _Return(self.eval(s.inner[0], env) if s.inner else None)
        elif k == 'ForStmt':
            self.exec_for(s, env)
        elif k == 'WhileStmt':
            self.exec_loop(s, None, s.inner[0], None, s.inner[1], env)
        elif k == 'DoStmt':
            self.exec_do(s, env)
        elif k == 'SwitchStmt':
            self.exec_switch(s, env)
        elif k == 'BreakStmt':
            raise _Break()
        elif k == 'ContinueStmt':
            raise _Continue()
        elif k == 'NullStmt':
            pass
        elif k in ('CaseStmt', 'DefaultStmt'):
            # reached by fallthrough
            self.exec(s.inner[-1], env)
        elif k == 'LabelStmt':
            self.exec(s.inner[-1], env)
        elif k in ('GotoStmt', 'IndirectGotoStmt', 'GCCAsmStmt'):
            raise Unsupported('statement %s at %s:%d' % (k, self.unit.name, s.line))
        else:
            self.eval(s, env)

    def decl_var(self, d, env):
        if d.d.get('storageClass') == 'static':
            # function-scope static: a global keyed by id
            key = 'static:' + d.id
            if key not in self.ctx.globals:
                self.ctx.globals[key] = self.init_value(d, env)
            env[d.id] = _StaticAlias(key)
            return
        env[d.id] = self.init_value(d, env)

    def init_value(self, d, env):
        init = None
        for c in d.inner:
            if c.kind not in ('AlignedAttr', 'UnusedAttr', 'FullComment') and not c.kind.endswith('Attr'):
                init = c
        t = d.dtype or d.type
        if init is None or 'init' not in d.d:
            return self.default_value(t, d.name, zero=(d.d.get('storageClass') == 'static'))
        v = self.eval_init(init, t, env)
        return v

    def default_value(self, t, name, zero=False):
        t = (t or '').strip()
        if t.endswith(']'):
            return Arr([], label=name)
        base = t.replace('struct ', '')
        if self.unit.records.get(base) is not None and '*' not in t:
            return Obj(base, lazy=False, label=None)
        if zero:
            return 0
        return _UNINIT

    def eval_init(self, init, t, env):
        n = init
        if n.kind == 'InitListExpr':
            return self.eval_initlist(n, env)
        v = self.eval(n, env)
        if isinstance(v, Obj) and '*' not in (t or '') and n.strip().kind != 'CallExpr':
            v = self.copy_obj(v)
        return v

    def eval_initlist(self, n, env):
        t = (n.dtype or n.type or '').strip()
        kids = [c for c in n.inner]
        # clang puts array fillers under 'array_filler' key (not in inner)
        if t.endswith(']'):
            elems = [self.eval_init(c, None, env) for c in kids]
            import re
            m = re.search(r'\[(\d+)\]$', t)
            if m:
                want = int(m.group(1))
                filler = 0
                if 'array_filler' in n.d:
                    # struct/array fillers are zero objects
                    filler = 0
                while len(elems) < want and want < 100000:
                    elems.append(filler)
            return Arr(elems)
        base = t.replace('struct ', '').replace('const ', '').strip()
        rec = self.unit.records.get(base)
        if rec is not None:
            o = Obj(base, lazy=False)
            # union: field given by 'field' key
            if 'field' in n.d and kids:
                o.fields[n.d['field'].get('name')] = self.eval_init(kids[0], None, env)
                return o
            for (fname, ftype, _), c in zip(rec, kids):
                if c.kind == 'ImplicitValueInitExpr':
                    continue
                o.fields[fname] = self.eval_init(c, ftype, env)
            return o
        if len(kids) == 1:
            return self.eval_init(kids[0], t, env)
        if not kids:
            return 0
        raise Unsupported('init list of type %s at %s:%d' % (t, self.unit.name, n.line))

    def copy_obj(self, o):
        c = Obj(o.tname, o.lazy, o.label, dict(o.fields))
        c.meta = dict(o.meta)
        return c

    def exec_for(self, s, env):
        # clang: inner = [init, condvar(empty {}), cond, inc, body]; empty slots are
        # skipped by the loader (empty dicts), so recover by d['inner'] positions
        raw = s.d.get('inner', [])
        slots = []
        it = iter(s.inner)
        for r in raw:
            slots.append(next(it) if (isinstance(r, dict) and r) else None)
        init, _cv, cond, inc, body = (slots + [None] * 5)[:5]
        if init is not None:
            self.exec(init, env)
        self.exec_loop(s, None, cond, inc, body, env)

    def exec_loop(self, s, _unused, cond, inc, body, env):
        ctx = self.ctx
        key = (s.id, ctx.depth)
        opaque_iters = 0
        iters = 0
        iter_start = len(ctx.trail)
        while True:
            if cond is not None:
                before = ctx.di
                need_before = len(ctx.trail)
                cv = self.eval(cond, env)
                c = self.truth(cv, cond)
                decided_by_choice = (ctx.di != before) or (len(ctx.trail) != need_before)
                # the condition is a cell the loop body itself decided (e.g. `!n->next` inside, `n = n->next; n` here):
                # still a generic iteration, not a concrete one
                if not decided_by_choice and isinstance(cv, View) and getattr(cv.cell, 'refined_at', 0) > iter_start:
                    decided_by_choice = True
                iter_start = len(ctx.trail)
                if not c:
                    ctx.emit('loop_done', s.line, iters)
                    break
                if decided_by_choice:
                    opaque_iters += 1
                    if opaque_iters > self.loop_limit:
                        raise Infeasible('loop bound')
            iters += 1
            if iters > 20000:
                raise AnalysisBroken('concrete loop does not terminate at %s:%d' % (self.unit.name, s.line))
            try:
                self.exec(body, env)
            except _Break:
                break
            except _Continue:
                pass
            if inc is not None:
                self.eval(inc, env)
            if cond is None and iters > self.forever_limit:
                raise Infeasible('for(;;) bound')

    def exec_do(self, s, env):
        body, cond = s.inner[0], s.inner[1]
        ctx = self.ctx
        opaque_iters = 0
        while True:
            try:
                self.exec(body, env)
            except _Break:
                break
            except _Continue:
                pass
            before = len(ctx.trail)
            c = self.truth(self.eval(cond, env), cond)
            if not c:
                break
            if len(ctx.trail) != before:
                opaque_iters += 1
                if opaque_iters > self.loop_limit:
                    raise Infeasible('loop bound')

    def exec_switch(self, s, env):
        cond = s.inner[0]
        body = s.inner[-1]
        if body.kind != 'CompoundStmt':
            raise Unsupported('switch body is not a block at %s:%d' % (self.unit.name, s.line))
        # label map
        arms = []   # (index, [values] or None for default)
        stmts = []
        for i, c in enumerate(body.inner):
            vals = []
            is_default = False
            x = c
            while x.kind in ('CaseStmt', 'DefaultStmt'):
                if x.kind == 'CaseStmt':
                    lo = self.const_of(x.inner[0])
                    if len(x.inner) == 3:   # GNU range
                        hi = self.const_of(x.inner[1])
                        vals.extend(range(lo, hi + 1))
                    else:
                        vals.append(lo)
                else:
                    is_default = True
                x = x.inner[-1]
            stmts.append(x)
            if vals or is_default:
                arms.append((i, vals, is_default))
        # nested labels deeper than top level are not supported
        for c in body.inner:
            x = c
            while x.kind in ('CaseStmt', 'DefaultStmt'):
                x = x.inner[-1]
            for y in x.walk():
                if y.kind == 'SwitchStmt':
                    break
        v = self.eval(cond, env)
        start = self.pick_arm(v, arms, cond)
        if start is None:
            return
        try:
            for c in stmts[start:]:
                self.exec(c, env)
        except _Break:
            pass

    def const_of(self, n):
        for x in n.walk():
            if x.kind == 'ConstantExpr' and x.value is not None:
                return int(x.value)
        v = n.int_value()
        if v is None:
            raise Unsupported('case label not constant at %s:%d' % (self.unit.name, n.line))
        return v

    def pick_arm(self, v, arms, cond):
        ctx = self.ctx
        default = None
        table = {}
        for idx, vals, is_def in arms:
            for x in vals:
                table.setdefault(x, idx)
            if is_def:
                default = idx
        if isinstance(v, View):
            v = self.settle(v)
        if isinstance(v, View):
            groups = {}
            order = []
            for c in v.cell.cands:
                p = v.proj(c)
                if not isinstance(p, int):
                    # non-concrete projection: force the candidate first
                    v2 = self.force(v)
                    return self.pick_arm(v2, arms, cond)
                a = table.get(p, default)
                if a not in groups:
                    groups[a] = []; order.append(a)
                groups[a].append(c)
            i = ctx.choose(len(order), 'switch ' + cond.src())
            a = order[i]
            self.refine(v.cell, groups[a], 'switch %s -> arm@%s' % (cond.src(), a))
            return a
        if isinstance(v, int):
            return table.get(v, default)
        if is_opaque(v):
            # choose among arms; remember equality
            k = vkey(v)
            b = ctx.bounds.get(k)
            opts = []
            for idx, vals, is_def in arms:
                for x in vals:
                    if b is None or (b[0] <= x <= b[1]):
                        opts.append((idx, x))
            opts.append((default, None))
            i = ctx.choose(len(opts), 'switch ' + cond.src())
            idx, x = opts[i]
            if x is not None:
                ctx.bounds[k] = [x, x]
                ctx.note('%s == %d' % (cond.src(), x))
            else:
                # the default arm is taken only by a value that equals none of the labels
                for _idx, vals, _is_def in arms:
                    for y in vals:
                        ctx.neq.setdefault(k, set()).add(y)
                ctx.note('%s -> default' % cond.src())
            return idx
        raise Unsupported('switch on %r at %s:%d' % (v, self.unit.name, cond.line))

    # ---- cells ---------------------------------------------------------------------
    def refine(self, cell, cands, why=None):
        if not cands:
            raise Infeasible('empty cell')
        if len(cands) != len(cell.cands):
            cell.cands = list(cands)
            cell.refined_at = len(self.ctx.trail) + 1
            self.ctx.note('%s in {%s}' % (cell.label, ','.join(cell.show(c) for c in cands[:6]) + ('..' if len(cands) > 6 else '')))

    def settle(self, v):
        """a view over a single-candidate cell is just its value"""
        while isinstance(v, View) and len(v.cell.cands) == 1:
            v = v.proj(v.cell.cands[0])
        return v

    def force(self, v):
        """make a view concrete by choosing among groups of equal projection"""
        v = self.settle(v)
        if not isinstance(v, View):
            return v
        groups = {}
        order = []
        for c in v.cell.cands:
            p = v.proj(c)
            k = vkey(p)
            if k not in groups:
                groups[k] = (p, []); order.append(k)
            groups[k][1].append(c)
        i = self.ctx.choose(len(order), 'force ' + v.cell.label)
        p, cands = groups[order[i]]
        self.refine(v.cell, cands)
        if isinstance(p, View):
            return self.force(p)
        return p

    def truth(self, v, where=None):
        """decide a condition, forking if needed"""
        ctx = self.ctx
        v = self.settle(v)
        if isinstance(v, bool):
            return v
        if isinstance(v, int):
            return v != 0
        if v is None:
            raise Unsupported('void value used as condition at %s:%s' % (self.unit.name, where.line if where else '?'))
        if isinstance(v, (Obj, Arr, str, _Ref)):
            return True
        if isinstance(v, float):
            return v != 0
        if isinstance(v, View):
            t, f, u = [], [], []
            for c in v.cell.cands:
                p = v.proj(c)
                if isinstance(p, View):
                    p = self.settle(p)
                if isinstance(p, View):
                    nn = _nullness(p)
                    if nn is None:
                        u.append(c)
                    else:
                        (t if nn else f).append(c)
                    continue
                if isinstance(p, (bool, int)):
                    (t if p else f).append(c)
                elif isinstance(p, (Obj, Arr, str)):
                    t.append(c)
                else:
                    u.append(c)
            if u:
                p = self.force(v)
                return self.truth(p, where)
            if t and f:
                i = ctx.choose(2, 'cond ' + (where.src() if where else v.cell.label))
                if i == 0:
                    self.refine(v.cell, t); return True
                self.refine(v.cell, f); return False
            return bool(t)
        if v is _UNINIT:
            raise Unsupported('uninitialised value used as condition at %s:%s' % (self.unit.name, where.line if where else '?'))
        if is_opaque(v):
            return self.opaque_truth(v, where)
        raise Unsupported('condition value %r' % (v,))

    def opaque_truth(self, v, where):
        ctx = self.ctx
        # comparison against constant with bounds
        if isinstance(v, Term) and v.op in ('<', '<=', '>', '>=', '==', '!=') and len(v.args) == 2:
            a, b = v.args
            r = self.cmp_bounds(v.op, a, b)
            if r is not None:
                return r
        if isinstance(v, Term) and v.op == '!':
            return not self.truth(v.args[0], where)
        k = vkey(v)
        if k in ctx.facts:
            return ctx.facts[k]
        if not isinstance(v, Term):
            r0 = self.cmp_bounds('!=', v, 0)
            if r0 is not None:
                return r0
        i = ctx.choose(2, 'cond ' + (where.src() if where else repr(v)))
        r = (i == 0)
        ctx.facts[k] = r
        ctx.note(('' if r else '!') + '(' + (where.src() if where is not None else repr(v)) + ')')
        if isinstance(v, Term) and v.op in ('<', '<=', '>', '>=', '==', '!=') and len(v.args) == 2:
            self.learn_cmp(v.op, v.args[0], v.args[1], r)
        elif not isinstance(v, Term):
            # plain symbol used as truth value
            if not r:
                if 0 in ctx.neq.get(k, ()):
                    raise Infeasible('neq')
                ctx.bounds[k] = [0, 0]
            else:
                ctx.neq.setdefault(k, set()).add(0)
        return r

    def _leaf_const(self, a, b):
        """normalise a (op) b to (leafkey, const, flipped) if one side const and other a single leaf"""
        if isinstance(b, int) and is_opaque(a):
            d = Lin.of(a)
            if isinstance(d, Lin) and len(d.terms) == 1:
                (k, (c, l)), = d.terms.items()
                if c == 1:
                    return k, b - d.c, False
            if isinstance(a, (Sym, Term)):
                return a.key(), b, False
        if isinstance(a, int) and is_opaque(b):
            r = self._leaf_const(b, a)
            if r:
                return r[0], r[1], True
        return None

    def cmp_bounds(self, op, a, b):
        lc = self._leaf_const(a, b)
        if not lc:
            return None
        k, c, flip = lc
        if flip:
            op = {'<': '>', '<=': '>=', '>': '<', '>=': '<=', '==': '==', '!=': '!='}[op]
        ne = self.ctx.neq.get(k)
        if ne and c in ne:
            if op == '==':
                return False
            if op == '!=':
                return True
        bd = self.ctx.bounds.get(k)
        if not bd:
            return None
        lo, hi = bd
        if op == '<':
            return True if hi < c else (False if lo >= c else None)
        if op == '<=':
            return True if hi <= c else (False if lo > c else None)
        if op == '>':
            return True if lo > c else (False if hi <= c else None)
        if op == '>=':
            return True if lo >= c else (False if hi < c else None)
        if op == '==':
            return True if lo == hi == c else (False if (c < lo or c > hi) else None)
        if op == '!=':
            return False if lo == hi == c else (True if (c < lo or c > hi) else None)
        return None

    def learn_cmp(self, op, a, b, truth):
        lc = self._leaf_const(a, b)
        if not lc:
            return
        k, c, flip = lc
        if flip:
            op = {'<': '>', '<=': '>=', '>': '<', '>=': '<=', '==': '==', '!=': '!='}[op]
        if not truth:
            op = {'<': '>=', '<=': '>', '>': '<=', '>=': '<', '==': '!=', '!=': '=='}[op]
        if op == '!=':
            self.ctx.neq.setdefault(k, set()).add(c)
            bd = self.ctx.bounds.get(k)
            if bd and bd[0] == bd[1] == c:
                raise Infeasible('neq')
            return
        INF = 1 << 70
        bd = self.ctx.bounds.setdefault(k, [-INF, INF])
        if op == '<':
            bd[1] = min(bd[1], c - 1)
        elif op == '<=':
            bd[1] = min(bd[1], c)
        elif op == '>':
            bd[0] = max(bd[0], c + 1)
        elif op == '>=':
            bd[0] = max(bd[0], c)
        elif op == '==':
            bd[0] = max(bd[0], c); bd[1] = min(bd[1], c)
        if bd[0] > bd[1]:
            raise Infeasible('bounds')
        if bd[0] == bd[1] and bd[0] in self.ctx.neq.get(k, ()):
            raise Infeasible('neq')

    # ---- fields ------------------------------------------------------------------------
    def read_field(self, o, f, ftype=None):
        if f in o.fields:
            return o.fields[f]
        if not o.lazy:
            t = ftype or self.field_type(o.tname, f)
            if t and '*' not in t and t.replace('struct ', '').strip() in self.unit.records:
                v = Obj(t.replace('struct ', '').strip(), lazy=False)
                o.fields[f] = v
                return v
            return 0
        t = ftype or self.field_type(o.tname, f)
        v = NotImplemented
        if self.lazy_field:
            v = self.lazy_field(self, self.ctx, o, f, t)
        if v is NotImplemented:
            v = self.lazy_value(t, (o.label or o.tname or 'obj') + '.' + f)
        o.fields[f] = v
        return v

    def field_type(self, tname, f):
        rec = self.unit.records.get(tname) if tname else None
        if rec:
            for (n, t, _) in rec:
                if n == f:
                    return t
        return None

    def lazy_value(self, t, label):
        """fresh abstract value of C type t"""
        t = (t or '').replace('const ', '').strip()
        u = self.unit
        if t in ('bool', '_Bool'):
            return View(Cell([0, 1], label))
        if t in u.enum_types or t.replace('enum ', '') in u.enum_types:
            names = u.enum_types.get(t) or u.enum_types.get(t.replace('enum ', ''))
            vals = [u.enums[n] for n in names]
            return View(Cell(vals, label, names={u.enums[n]: n for n in names}))
        if t.endswith('*'):
            base = t[:-1].strip().replace('struct ', '')
            if base in u.records:
                return View(Cell([0, Obj(base, lazy=True, label=label)], label, names={0: 'NULL'}))
            return Sym(label, t)
        if t in u.records or t.replace('struct ', '') in u.records:
            return Obj(t.replace('struct ', ''), lazy=True, label=label)
        return Sym(label, t)

    # ---- expressions ----------------------------------------------------------------------
    def eval(self, n, env):
        k = n.kind
        m = getattr(self, 'e_' + k, None)
        if m is None:
            raise Unsupported('expression kind %s at %s:%d' % (k, self.unit.name, n.line))
        return m(n, env)

    def e_ParenExpr(self, n, env):
        return self.eval(n.inner[0], env)

    def e_ConstantExpr(self, n, env):
        if n.value is not None:
            try:
                return int(n.value)
            except ValueError:
                pass
        return self.eval(n.inner[0], env)

    def e_IntegerLiteral(self, n, env):
        return int(n.value)

    def e_CharacterLiteral(self, n, env):
        return int(n.value)

    def e_FloatingLiteral(self, n, env):
        try:
            return float(n.value)
        except (TypeError, ValueError):
            return Sym('flt:' + str(n.value))

    def e_StringLiteral(self, n, env):
        return unquote(n.value)

    def e_ImplicitValueInitExpr(self, n, env):
        return 0

    def e_PredefinedExpr(self, n, env):
        return '__func__'

    def e_CompoundLiteralExpr(self, n, env):
        v = self.eval_init(n.inner[0], n.dtype, env)
        return v

    def e_InitListExpr(self, n, env):
        return self.eval_initlist(n, env)

    def e_UnaryExprOrTypeTraitExpr(self, n, env):
        # sizeof / alignof: value from clang is not in JSON; model the few we need
        if n.name == 'sizeof':
            t = n.d.get('argType', {}).get('qualType')
            if t is None and n.inner:
                t = n.inner[0].dtype or n.inner[0].type
            return self.sizeof(t, n)
        return Sym('%s(%s)' % (n.name, n.src()))

    def sizeof(self, t, n=None):
        t = (t or '').strip()
        it = int_type(t)
        if it:
            return max(1, it[0] // 8)
        if t.endswith('*'):
            return 8
        import re
        m = re.match(r'^(.*)\[(\d+)\]$', t)
        if m:
            inner = self.sizeof(m.group(1).strip())
            if isinstance(inner, int):
                return inner * int(m.group(2))
        if t in ('double',):
            return 8
        if t in ('float',):
            return 4
        if t in ('long double',):
            return 16
        return Sym('sizeof(%s)' % t)

    def e_ImplicitCastExpr(self, n, env):
        ck = n.cast_kind
        sub = n.inner[0]
        if ck == 'LValueToRValue':
            return self.load(sub, env)
        if ck in ('ArrayToPointerDecay',):
            p = self.place(sub, env) if sub.strip().kind not in ('StringLiteral', 'PredefinedExpr') else None
            if p is None:
                return self.eval(sub, env)
            v = p.get(self)
            return v
        if ck == 'FunctionToPointerDecay':
            s = sub.strip()
            return _FnRef(s.ref_name)
        v = self.eval(sub, env)
        return self.cast_value(v, n, ck)

    def e_CStyleCastExpr(self, n, env):
        v = self.eval(n.inner[0], env)
        return self.cast_value(v, n, n.cast_kind)

    def cast_value(self, v, n, ck):
        if ck in ('IntegralCast', 'IntegralToBoolean', 'PointerToBoolean', 'BooleanToSignedIntegral'):
            t = n.dtype or n.type
            if isinstance(v, View):
                if ck in ('IntegralToBoolean', 'PointerToBoolean'):
                    return v.map(lambda x: (1 if x else 0) if isinstance(x, (int, bool)) else (1 if isinstance(x, (Obj, Arr, str)) else Term('bool', x)), 'bool')
                return v.map(lambda x: wrap_int(x, t), 'cast')
            if isinstance(v, int):
                if ck in ('IntegralToBoolean', 'PointerToBoolean'):
                    return 1 if v else 0
                return wrap_int(v, t)
            if ck in ('IntegralToBoolean', 'PointerToBoolean'):
                if isinstance(v, (Obj, Arr, str, _Ref)):
                    return 1
                return Term('!=', v, 0)
            if is_opaque(v):
                # widening of an opaque value keeps it; narrowing makes a cast term
                src = n.inner[0].dtype or n.inner[0].type
                a, b = int_type(src), int_type(t)
                if a and b and (b[0] > a[0] or (b[0] == a[0] and a[1] == b[1])):
                    return v
                if a and b and b[0] >= a[0]:
                    return v
                return Term('cast:' + (t or '?'), v)
            return v
        if ck in ('NullToPointer',):
            return 0
        if ck in ('IntegralToPointer', 'PointerToIntegral', 'BitCast', 'NoOp', 'ToVoid', 'LValueBitCast'):
            if ck == 'ToVoid':
                return None
            if ck == 'BitCast' and isinstance(v, Obj) and v.tname is None:
                t = (n.type or '').replace('const ', '').strip()
                if t.endswith('*'):
                    b = t[:-1].strip().replace('struct ', '')
                    if b in self.unit.records:
                        v.tname = b
            return v
        if ck in ('IntegralToFloating', 'FloatingCast', 'FloatingToIntegral', 'FloatingToBoolean'):
            if isinstance(v, (int, float)) and not isinstance(v, bool):
                if ck == 'IntegralToFloating':
                    return float(v)
                if ck == 'FloatingToIntegral':
                    return wrap_int(int(v), n.dtype or n.type)
                return v
            return Term('cast:' + (n.type or '?'), v)
        return v

    def load(self, sub, env):
        p = self.place(sub, env)
        v = p.get(self)
        if isinstance(v, _StaticAlias):
            v = self.ctx.globals[v.key]
        return v

    def e_DeclRefExpr(self, n, env):
        rk = n.ref_kind
        if rk == 'EnumConstantDecl':
            v = self.unit.enum_value(n.ref_name)
            if v is None:
                raise Unsupported('enumerator ' + str(n.ref_name))
            return v
        if rk == 'FunctionDecl':
            return _FnRef(n.ref_name)
        # arrays / structs used as values (decay handled by caller)
        return self.place(n, env).get(self)

    def e_MemberExpr(self, n, env):
        return self.place(n, env).get(self)

    def e_ArraySubscriptExpr(self, n, env):
        return self.place(n, env).get(self)

    # ---- places -------------------------------------------------------------------------------
    def place(self, n, env):
        n = n.strip() if n.kind == 'ParenExpr' else n
        k = n.kind
        if k == 'ParenExpr':
            return self.place(n.inner[0], env)
        if k == 'DeclRefExpr':
            rid = n.ref_id
            if rid in env:
                v = env[rid]
                if isinstance(v, _StaticAlias):
                    return VarPlace(self.ctx.globals, v.key)
                return VarPlace(env, rid)
            return self.global_place(n)
        if k == 'MemberExpr':
            base = n.inner[0]
            if n.d.get('isArrow'):
                b = self.eval(base, env)
            else:
                b = self.place(base, env).get(self)
            if isinstance(b, View):
                b = self.settle(b)
            if isinstance(b, View) and self._scalar_type(n.dtype or n.type) and \
                    all(isinstance(b.proj(c), (Obj, int)) for c in b.cell.cands):
                objs = [c for c in b.cell.cands if isinstance(b.proj(c), Obj)]
                if len(objs) != len(b.cell.cands):
                    if self.on_null_deref:
                        self.on_null_deref(self, n)
                    self.refine(b.cell, objs)
                if len(b.cell.cands) > 1:
                    return _ViewFieldPlace(b, n.name)
            b = self.deref_target(b, n)
            if isinstance(b, Obj):
                return FieldPlace(b, n.name, n.dtype if False else None)
            if is_opaque(b) or b is _UNINIT:
                return OpaquePlace(Term('.', b if b is not _UNINIT else Sym('uninit'), n.name))
            raise Unsupported('member %s of %r at %s:%d' % (n.name, b, self.unit.name, n.line))
        if k == 'ArraySubscriptExpr':
            a = self.eval(n.inner[0], env)
            i = self.eval(n.inner[1], env)
            i = self.force(i) if isinstance(i, View) else i
            if isinstance(a, View) or (isinstance(a, int) and a == 0):
                a = self.deref_target(a, n)
            if isinstance(a, _Ref):
                return a.at(self, i)
            return ElemPlace(a, i)
        if k == 'UnaryOperator' and n.opcode == '*':
            p = self.eval(n.inner[0], env)
            if isinstance(p, View):
                p = self.deref_target(p, n)
            if isinstance(p, _Ref):
                return p.place
            if isinstance(p, Obj):
                return _ObjSelfPlace(p)
            if isinstance(p, (Arr, str)):
                return ElemPlace(p, 0)
            if is_opaque(p):
                return OpaquePlace(Term('*', p))
            if p == 0:
                if self.on_null_deref:
                    self.on_null_deref(self, n)
                raise Infeasible('null deref')
            raise Unsupported('deref of %r at %s:%d' % (p, self.unit.name, n.line))
        if k == 'CompoundLiteralExpr':
            v = self.eval(n, env)
            return _ValPlace(v)
        if k in ('ImplicitCastExpr', 'CStyleCastExpr'):
            return self.place(n.inner[0], env)
        if k == 'UnaryOperator' and n.opcode == '__extension__':
            return self.place(n.inner[0], env)
        if k == 'StringLiteral':
            return _ValPlace(unquote(n.value))
        if k == 'PredefinedExpr':
            return _ValPlace('__func__')
        if k == 'CallExpr' or k == 'ConditionalOperator' or k == 'BinaryOperator' or k == 'StmtExpr':
            return _ValPlace(self.eval(n, env))
        raise Unsupported('lvalue kind %s at %s:%d' % (k, self.unit.name, n.line))

    def _scalar_type(self, t):
        t = (t or '').replace('const ', '').strip()
        if t.endswith(']'):
            return False
        if t.endswith('*'):
            return True
        if int_type(t) or t in ('bool', '_Bool') or t in self.unit.enum_types or t.replace('enum ', '') in self.unit.enum_types:
            return True
        return False

    def deref_target(self, b, n):
        """b is a pointer value used with -> (or a struct value with .)"""
        if isinstance(b, View):
            b = self.settle(b)
        if isinstance(b, View):
            # pointer cell: drop NULL silently unless the rule asked to be told
            nonnull = [c for c in b.cell.cands if not (isinstance(b.proj(c), int) and b.proj(c) == 0)]
            if len(nonnull) != len(b.cell.cands):
                if self.on_null_deref:
                    self.on_null_deref(self, n)
                self.refine(b.cell, nonnull)
            b = self.force(b)
        if isinstance(b, _Ref) and n.kind == 'MemberExpr':
            b = b.place.get(self)
        if isinstance(b, int) and not isinstance(b, bool) and b == 0:
            if self.on_null_deref:
                self.on_null_deref(self, n)
            raise Infeasible('null deref')
        return b

    def global_place(self, n):
        name = n.ref_name
        g = self.ctx.globals
        if name not in g:
            g[name] = self.materialise_global(name, n)
        return VarPlace(g, name)

    def read_global(self, name):
        g = self.ctx.globals
        if name not in g:
            if name not in self.global_init:
                raise AnalysisBroken('read_global(%s): no initial value configured' % name)
            v = self.global_init[name]
            g[name] = v(self.ctx) if callable(v) else v
        return g[name]

    def materialise_global(self, name, n):
        if name in self.global_init:
            v = self.global_init[name]
            return v(self.ctx) if callable(v) else v
        # definition with initializer in this or another unit
        d = self.unit.globals.get(name)
        units = [self.unit]
        if (d is None or 'init' not in d.d) and self.inline_other_units:
            for un in self.prog.unit_names:
                u2 = self.prog.unit(un)
                d2 = u2.globals.get(name)
                if d2 is not None and 'init' in d2.d:
                    d = d2; units = [u2]; break
        if d is not None and 'init' in d.d:
            saved = self.unit
            self.unit = units[0]
            try:
                init = [c for c in d.inner if not c.kind.endswith('Attr')][-1]
                v = self.eval_init(init, d.dtype or d.type, {})
                if isinstance(v, Obj) and v.label is None:
                    v.label = 'g:' + name
                return v
            finally:
                self.unit = saved
        t = (n.dtype or n.type or '')
        if t.endswith(']'):
            return Arr([], label=name)
        tb = t.replace('struct ', '').strip()
        if tb in self.unit.records:
            return Obj(tb, lazy=False, label='g:' + name)
        return self.lazy_value(t, 'g:' + name)

    # ---- operators -----------------------------------------------------------------------------
    def e_UnaryOperator(self, n, env):
        op = n.opcode
        sub = n.inner[0]
        if op == '&':
            s = sub.strip()
            if s.kind == 'CompoundLiteralExpr':
                return self.eval(s, env)
            p = self.place(sub, env)
            if isinstance(p, _ObjSelfPlace):
                return p.obj
            v = None
            st = (sub.dtype or sub.type or '').strip()
            if isinstance(p, (VarPlace, FieldPlace, ElemPlace)) and not st.endswith('*'):
                try:
                    v = p.get(self)
                except Infeasible:
                    v = None
                if isinstance(v, _StaticAlias):
                    v = self.ctx.globals[v.key]
                if isinstance(v, Obj):
                    return v          # pointer to struct == the object
            return _Ref(p)
        if op == '*':
            return self.place(n, env).get(self)
        if op in ('++', '--'):
            p = self.place(sub, env)
            old = p.get(self)
            if isinstance(old, View):
                old = self.force(old)
            d = 1 if op == '++' else -1
            if isinstance(old, _Ref):
                new = old.shift(d)
            else:
                new = self.arith('+', old, d, n.dtype or n.type)
            p.set(self, new)
            return old if n.d.get('isPostfix') else new
        v = self.eval(sub, env)
        if op == '!':
            if isinstance(v, View):
                return v.map(lambda x: (0 if x else 1) if isinstance(x, (int, bool)) else (0 if isinstance(x, (Obj, Arr, str)) else Term('!', x)), 'not')
            if isinstance(v, (int, bool)):
                return 0 if v else 1
            if isinstance(v, (Obj, Arr, str, _Ref)):
                return 0
            return Term('!', v)
        if isinstance(v, View):
            v = self.force(v)
        if op == '-':
            if isinstance(v, (int, float)):
                return wrap_int(-v, n.dtype or n.type) if isinstance(v, int) else -v
            l = Lin.of(v)
            return l.scale(-1) if isinstance(l, Lin) else Term('neg', v)
        if op == '+':
            return v
        if op == '~':
            if isinstance(v, int):
                return wrap_int(~v, n.dtype or n.type)
            it_ = int_type(n.dtype or n.type)
            return Term('~' if not (it_ and it_[0] <= 32) else '~:%d' % it_[0], v)
        if op == '__extension__':
            return v
        raise Unsupported('unary %s at %s:%d' % (op, self.unit.name, n.line))

    def e_BinaryOperator(self, n, env):
        op = n.opcode
        L, R = n.inner
        if op == '=':
            v = self.eval(R, env)
            p = self.place(L, env)
            lt = L.dtype or L.type or ''
            if isinstance(v, Obj) and '*' not in lt and not lt.endswith(']'):
                v = self.copy_obj(v)
                if isinstance(p, _ObjSelfPlace):
                    p.obj.fields = v.fields; p.obj.lazy = v.lazy; p.obj.tname = v.tname or p.obj.tname
                    p.obj.meta = v.meta
                    return p.obj
            if isinstance(p, OpaquePlace):
                self.ctx.emit('store', p.desc, v, n.line)
            p.set(self, v)
            return v
        if op == ',':
            self.eval(L, env)
            return self.eval(R, env)
        if op == '&&':
            a = self.eval(L, env)
            if not self.truth(a, L):
                return 0
            b = self.eval(R, env)
            return 1 if self.truth(b, R) else 0
        if op == '||':
            a = self.eval(L, env)
            if self.truth(a, L):
                return 1
            b = self.eval(R, env)
            return 1 if self.truth(b, R) else 0
        a = self.eval(L, env)
        b = self.eval(R, env)
        return self.binop(op, a, b, n)

    def binop(self, op, a, b, n):
        t = n.dtype or n.type
        if isinstance(a, View):
            a = self.settle(a)
        if isinstance(b, View):
            b = self.settle(b)
        if op in ('==', '!=', '<', '<=', '>', '>='):
            # keep views lazy for comparisons against concrete values
            if isinstance(a, View) and not isinstance(b, View) and _concrete(b):
                return a.map(lambda x, b=b: self.cmp(op, x, b), '%s%r' % (op, b if not isinstance(b, Obj) else b.label))
            if isinstance(b, View) and not isinstance(a, View) and _concrete(a):
                return b.map(lambda x, a=a: self.cmp(op, a, x), '%r%s' % (a if not isinstance(a, Obj) else a.label, op))
            if isinstance(a, View):
                a = self.force(a)
            if isinstance(b, View):
                b = self.force(b)
            return self.cmp(op, a, b)
        if isinstance(a, View):
            a = self.force(a)
        if isinstance(b, View):
            b = self.force(b)
        # pointer arithmetic
        if isinstance(a, _Ref) and op in ('+', '-') and isinstance(b, int):
            return a.shift(b if op == '+' else -b)
        if isinstance(a, _Ref) and isinstance(b, _Ref) and op == '-':
            return a.diff(b)
        if isinstance(a, str) and op == '+' and isinstance(b, int):
            return a[b:] if 0 <= b <= len(a) else Term('+', a, b)
        if isinstance(a, Arr) and op == '+' and isinstance(b, int):
            return _Ref(ElemPlace(a, b))
        return self.arith(op, a, b, t, n)

    def cmp(self, op, a, b):
        if isinstance(a, View) or isinstance(b, View):
            x, y = (a, b) if isinstance(a, View) else (b, a)
            x = self.settle(x)
            if isinstance(x, View):
                nn = _nullness(x)
                if isinstance(y, int) and y == 0 and nn is not None and op in ('==', '!='):
                    return int(nn if op == '!=' else not nn)
                x = self.force(x)
            if isinstance(y, View):
                y = self.force(y)
            a, b = (x, y) if isinstance(a, View) else (y, x)
        if isinstance(a, bool):
            a = int(a)
        if isinstance(b, bool):
            b = int(b)
        num = (int, float)
        if isinstance(a, num) and isinstance(b, num):
            return int({'==': a == b, '!=': a != b, '<': a < b, '<=': a <= b, '>': a > b, '>=': a >= b}[op])
        if isinstance(a, (Obj, Arr, str, _FnRef)) or isinstance(b, (Obj, Arr, str, _FnRef)):
            if op in ('==', '!='):
                if isinstance(a, _FnRef) and isinstance(b, _FnRef):
                    same = a.name == b.name
                elif is_opaque(a) or is_opaque(b):
                    return Term(op, a, b) if not (isinstance(a, int) or isinstance(b, int)) else int(op == '!=')
                else:
                    same = a is b
                return int(same if op == '==' else not same)
        if isinstance(a, _Ref) or isinstance(b, _Ref):
            if isinstance(a, _Ref) and isinstance(b, _Ref):
                d = a.diff(b)
                if isinstance(d, int):
                    return self.cmp(op, d, 0)
            if op in ('==', '!=') and (a == 0 or b == 0) if (isinstance(a, int) or isinstance(b, int)) else False:
                return int(op == '!=')
            return Term(op, a, b)
        if is_opaque(a) or is_opaque(b):
            la, lb = Lin.of(a), Lin.of(b)
            if la is not None and lb is not None:
                d = la.add(lb, -1) if isinstance(la, Lin) and isinstance(lb, Lin) else None
                if isinstance(d, int):
                    return self.cmp(op, d, 0)
                r = self.cmp_bounds(op, a, b)
                if r is not None:
                    return int(r)
            return Term(op, a, b)
        if a is _UNINIT or b is _UNINIT:
            return Term(op, Sym('uninit'), Sym('uninit'))
        raise Unsupported('compare %r %s %r' % (a, op, b))

    def arith(self, op, a, b, t, n=None):
        if isinstance(a, bool):
            a = int(a)
        if isinstance(b, bool):
            b = int(b)
        if isinstance(a, int) and isinstance(b, int):
            try:
                if op == '+': r = a + b
                elif op == '-': r = a - b
                elif op == '*': r = a * b
                elif op == '/':
                    if b == 0:
                        raise Infeasible('div by zero')
                    r = abs(a) // abs(b) * (1 if (a >= 0) == (b >= 0) else -1)
                elif op == '%':
                    if b == 0:
                        raise Infeasible('mod by zero')
                    q = abs(a) // abs(b) * (1 if (a >= 0) == (b >= 0) else -1)
                    r = a - q * b
                elif op == '<<': r = a << b if 0 <= b < 256 else 0
                elif op == '>>': r = a >> b if 0 <= b < 256 else 0
                elif op == '&': r = a & b
                elif op == '|': r = a | b
                elif op == '^': r = a ^ b
                else:
                    raise Unsupported('binary ' + op)
            except TypeError:
                raise Unsupported('binary %s on %r %r' % (op, a, b))
            return wrap_int(r, t)
        if isinstance(a, (int, float)) and isinstance(b, (int, float)):
            if op == '+': return a + b
            if op == '-': return a - b
            if op == '*': return a * b
            if op == '/': return a / b if b else Term('/', a, b)
        if a is _UNINIT or b is _UNINIT:
            return Sym('uninit')
        la, lb = Lin.of(a), Lin.of(b)
        if la is not None and lb is not None:
            if op == '+':
                return la.add(lb)
            if op == '-':
                return la.add(lb, -1)
            if op == '*':
                if not la.terms:
                    return lb.scale(la.c)
                if not lb.terms:
                    return la.scale(lb.c)
        it_ = int_type(t)
        if it_ and it_[0] <= 32 and op in ('<<', '>>', '*', '/', '%'):
            return Term(op + ':%d' % it_[0], a, b)     # arithmetic done in a narrower C type: keep that visible
        return Term(op, a, b)

    def e_CompoundAssignOperator(self, n, env):
        op = n.opcode[:-1]
        p = self.place(n.inner[0], env)
        old = p.get(self)
        if isinstance(old, _StaticAlias):
            old = self.ctx.globals[old.key]
        v = self.eval(n.inner[1], env)
        if isinstance(old, View):
            old = self.force(old)
        if isinstance(v, View):
            v = self.force(v)
        if isinstance(old, _Ref) and op in ('+', '-') and isinstance(v, int):
            new = old.shift(v if op == '+' else -v)
        elif isinstance(old, str) and op == '+' and isinstance(v, int):
            new = old[v:]
        else:
            new = self.arith(op, old, v, n.inner[0].dtype or n.inner[0].type)
        p.set(self, new)
        return new

    def e_ConditionalOperator(self, n, env):
        c = self.eval(n.inner[0], env)
        if self.truth(c, n.inner[0]):
            return self.eval(n.inner[1], env)
        return self.eval(n.inner[2], env)

    def e_BinaryConditionalOperator(self, n, env):
        raise Unsupported('?: elvis at %s:%d' % (self.unit.name, n.line))

    def e_StmtExpr(self, n, env):
        body = n.inner[0]
        v = None
        for c in body.inner:
            if c.kind in ('DeclStmt', 'IfStmt', 'ForStmt', 'WhileStmt', 'DoStmt', 'SwitchStmt', 'CompoundStmt', 'NullStmt', 'ReturnStmt', 'BreakStmt', 'ContinueStmt'):
                self.exec(c, env); v = None
            else:
                v = self.eval(c, env)
        return v

    def e_VAArgExpr(self, n, env):
        return Sym(self.ctx.fresh('va_arg'))

    # ---- calls ------------------------------------------------------------------------------------
    def e_CallExpr(self, n, env):
        ctx = self.ctx
        name = n.callee()
        if name is None:
            # indirect call
            f = self.eval(n.inner[0], env)
            if isinstance(f, View):
                f = self.force(f)
            if isinstance(f, _FnRef):
                name = f.name
            else:
                args = [self.eval(a, env) for a in n.args()]
                ctx.emit('icall', f, args, n.line)
                return self.lazy_value(n.dtype or n.type, ctx.fresh('icall'))
        # cuts first: arguments are evaluated, call recorded, contract result returned
        if name in self.cut:
            args = [self.eval(a, env) for a in n.args()]
            h = self.cut[name]
            if h is None:
                t = n.dtype or n.type
                r = None if t == 'void' else self.lazy_value(t, ctx.fresh(name))
                ctx.emit('call', name, args, n.line, r)
                return r
            return h(self, ctx, n, args)
        if name in self.models:
            args = [self.eval(a, env) for a in n.args()]
            return self.models[name](self, ctx, n, args)
        if name in self.noreturn:
            args = []
            for a in n.args():
                try:
                    args.append(self.eval(a, env))
                except (Unsupported, Infeasible):
                    args.append(Sym('?'))
            raise NoReturn(name, args, n.line)
        args = [self.eval(a, env) for a in n.args()]
        m = _BUILTIN_MODELS.get(name)
        if m is not None:
            r = m(self, ctx, n, args)
            if r is not NotImplemented:
                return r
        if name not in self.opaque_fns:
            u, fn = self.find_def(name)
            if fn is not None:
                return self.call_fn(u, fn, args)
        t = n.dtype or n.type
        r = None if t == 'void' else self.lazy_value(t, ctx.fresh(name))
        ctx.emit('call', name, args, n.line, r)
        return r

    def find_def(self, name):
        if name in self.unit.functions:
            return self.unit, self.unit.functions[name]
        if self.inline_other_units:
            for un in self.prog.unit_names:
                u2 = self.prog.unit(un)
                if name in u2.functions:
                    return u2, u2.functions[name]
        return None, None


def _nullness(v):
    """True: certainly non-null, False: certainly null, None: unknown"""
    if isinstance(v, View):
        rs = set()
        for c in v.cell.cands:
            rs.add(_nullness(v.proj(c)))
        if len(rs) == 1:
            return rs.pop()
        return None
    if isinstance(v, bool):
        return bool(v)
    if isinstance(v, int):
        return v != 0
    if isinstance(v, (Obj, Arr, str, _Ref, _FnRef)):
        return True
    return None


def _concrete(v):
    return isinstance(v, (int, bool, str, Obj, float)) or v is None


class _Uninit:
    def __repr__(self):
        return '<uninit>'


_UNINIT = _Uninit()


class _StaticAlias:
    __slots__ = ('key',)

    def __init__(self, key):
        self.key = key


class _FnRef:
    __slots__ = ('name',)

    def __init__(self, name):
        self.name = name

    def __repr__(self):
        return '&' + str(self.name)


class _ValPlace:
    __slots__ = ('v',)

    def __init__(self, v):
        self.v = v

    def get(self, it):
        return self.v

    def set(self, it, v):
        self.v = v


class _ViewFieldPlace:
    """scalar field read through a pointer that still has several candidates"""
    __slots__ = ('view', 'f')

    def __init__(self, view, f):
        self.view = view; self.f = f

    def get(self, it):
        v, f = self.view, self.f
        return View(v.cell, lambda c: it.read_field(v.proj(c), f), v.tag + '.' + f)

    def set(self, it, val):
        o = it.force(self.view)
        FieldPlace(o, self.f).set(it, val)


class _ObjSelfPlace:
    """*p where p points to a struct object"""
    __slots__ = ('obj',)

    def __init__(self, obj):
        self.obj = obj

    def get(self, it):
        return self.obj

    def set(self, it, v):
        if isinstance(v, Obj):
            self.obj.fields = dict(v.fields); self.obj.lazy = v.lazy
            self.obj.tname = v.tname or self.obj.tname
            self.obj.meta = dict(v.meta)


class _Ref:
    """pointer to a place (scalar variable, field, array element)"""
    __slots__ = ('place',)

    def __init__(self, place):
        self.place = place

    def at(self, it, i):
        p = self.place
        if isinstance(p, ElemPlace) and isinstance(i, int) and isinstance(p.i, int):
            return ElemPlace(p.arr, p.i + i)
        if isinstance(i, int) and i == 0:
            return p
        if isinstance(p, ElemPlace):
            return ElemPlace(p.arr, it.arith('+', p.i, i, 'long'))
        return OpaquePlace(Term('idx', Sym('ref'), i))

    def shift(self, d):
        p = self.place
        if isinstance(p, ElemPlace) and isinstance(p.i, int) and isinstance(d, int):
            return _Ref(ElemPlace(p.arr, p.i + d))
        return _Ref(OpaquePlace(Term('ptr+', Sym('ref'), d)))

    def diff(self, o):
        p, q = self.place, o.place
        if isinstance(p, ElemPlace) and isinstance(q, ElemPlace) and p.arr is q.arr and isinstance(p.i, int) and isinstance(q.i, int):
            return p.i - q.i
        return Term('ptrdiff', Sym('a'), Sym('b'))

    def __repr__(self):
        return '&place'


# ------------------------------------------------------------------ libc models ---
def _m_calloc(it, ctx, n, args):
    return Obj(None, lazy=False)


def _m_strlen(it, ctx, n, args):
    if isinstance(args[0], str):
        return len(args[0])
    return NotImplemented


def _m_strcmp(it, ctx, n, args):
    a, b = args[0], args[1]
    if isinstance(a, str) and isinstance(b, str):
        return (a > b) - (a < b)
    return NotImplemented


def _m_strncmp(it, ctx, n, args):
    a, b, k = args[0], args[1], args[2]
    if isinstance(a, str) and isinstance(b, str) and isinstance(k, int):
        a, b = a[:k], b[:k]
        return (a > b) - (a < b)
    return NotImplemented


def _m_memcmp(it, ctx, n, args):
    return _m_strncmp(it, ctx, n, args)


def _m_format(it, ctx, n, args):
    fmt = args[0]
    if isinstance(fmt, str) and all(isinstance(a, (int, str)) for a in args[1:]):
        try:
            return fmt % tuple(args[1:])
        except (TypeError, ValueError):
            pass
    return Term('format', *args)


def _m_nop(it, ctx, n, args):
    return None


def _m_identity0(it, ctx, n, args):
    return args[0]


_BUILTIN_MODELS = {
    'calloc': _m_calloc, 'malloc': _m_calloc,
    'strlen': _m_strlen, 'strcmp': _m_strcmp, 'strncmp': _m_strncmp, 'memcmp': _m_memcmp,
    'format': _m_format, 'free': _m_nop,
    '__builtin_expect': _m_identity0,
}
