"""System V x86-64 psABI oracle + concrete Type/Node builders + byte-level helpers for C06."""
from .interp import Obj, Sym, View, Interp
from .build import AnalysisBroken
from .lib_types import Types

GP_REGS = ['rdi', 'rsi', 'rdx', 'rcx', 'r8', 'r9']
N_SSE = 8

# vocabulary: name -> (size, align, members [(scalar type, offset)]) ; scalars have members None
SCALARS = {'empty': 0, 'char': 1, 'short': 2, 'int': 4, 'long': 8, 'uchar': 1, 'uint': 4, 'ulong': 8, 'ptr': 8, 'float': 4, 'double': 8, 'ldouble': 16, 'bool': 1}
STRUCTS = {
    's_c':   (1, 1, [('char', 0)]),
    's_c3':  (3, 1, [('char', 0), ('char', 1), ('char', 2)]),
    's_f':   (4, 4, [('float', 0)]),
    's_i':   (4, 4, [('int', 0)]),
    's_l':   (8, 8, [('long', 0)]),
    's_d':   (8, 8, [('double', 0)]),
    's_ff':  (8, 4, [('float', 0), ('float', 4)]),
    's_fi':  (8, 4, [('float', 0), ('int', 4)]),
    's_fff': (12, 4, [('float', 0), ('float', 4), ('float', 8)]),
    's_iif': (12, 4, [('int', 0), ('int', 4), ('float', 8)]),
    's_ffi': (12, 4, [('float', 0), ('float', 4), ('int', 8)]),
    's_ll':  (16, 8, [('long', 0), ('long', 8)]),
    's_ld':  (16, 8, [('long', 0), ('double', 8)]),
    's_dl':  (16, 8, [('double', 0), ('long', 8)]),
    's_dd':  (16, 8, [('double', 0), ('double', 8)]),
    's_lc':  (16, 8, [('long', 0), ('char', 8)]),
    's_dc':  (16, 8, [('double', 0), ('char', 8)]),
    's_L':   (16, 16, [('ldouble', 0)]),                       # class X87, X87UP: memory as an argument, %st(0) as a return value
    's_Le':  (16, 16, [('ldouble', 0), ('empty', 16)]),         # a zero-size member (GNU empty struct / int t[0]) does not change the class
    # unions (names u_*): members overlap. A long double overlaid with integers: each eightbyte merges X87/X87UP with INTEGER = INTEGER
    # (psABI 3.2.3 (4d) comes before (4e)); overlaid with doubles: X87 with SSE = MEMORY (4e)
    'u_Ll':  (16, 16, [('ldouble', 0), ('long', 0), ('long', 8)]),
    'u_Ld':  (16, 16, [('ldouble', 0), ('double', 0), ('double', 8)]),
    's_l3':  (24, 8, [('long', 0), ('long', 8), ('long', 16)]),
    's_d3':  (24, 8, [('double', 0), ('double', 8), ('double', 16)]),
}


# nested shapes (names in NESTED): a member type may also be the name of another shape (a member of struct/union type) or
# ('arr', element type, length) (a member of array type, the element being a scalar, a shape or again an array). The class of an
# aggregate is decided by its scalar leaves (psABI 3.2.3 (4): "each field of an array, structure or union is classified recursively"),
# so each nested shape has the class of the flat shape with the same leaves
STRUCTS.update({
    # ---- the long double is reached through a struct member / an array / an array of structs / a 2-dimensional array
    's_sL':    (16, 16, [('s_L', 0)]),                                    # struct { struct { long double v; } s; }
    's_La1':   (16, 16, [(('arr', 'ldouble', 1), 0)]),                    # struct { long double a[1]; }
    's_aL':    (16, 16, [(('arr', 's_L', 1), 0)]),                        # struct { struct { long double v; } a[1]; }
    's_L11':   (16, 16, [(('arr', ('arr', 'ldouble', 1), 1), 0)]),        # struct { long double m[1][1]; }
    'u_aL':    (16, 16, [(('arr', 's_L', 1), 0)]),                        # union { struct { long double v; } a[1]; }
    # ---- INTEGER / SSE leaves behind structs and arrays, at offsets that only the recursion with the right stride finds
    's_sd_l':  (16, 8, [('s_d', 0), ('long', 8)]),                        # struct { struct { double d; } s; long l; }: SSE, INTEGER
    's_asl_d': (16, 8, [(('arr', 's_l', 1), 0), ('double', 8)]),          # struct { struct { long l; } a[1]; double d; }: INTEGER, SSE
    's_l_asff': (16, 8, [('long', 0), (('arr', 's_ff', 1), 8)]),          # struct { long l; struct { float f[2]... } a[1]; }: INTEGER, SSE
    's_f3i':   (16, 4, [(('arr', 'float', 3), 0), ('int', 12)]),          # struct { float f[3]; int i; }: SSE, INTEGER
    's_if3':   (16, 4, [('int', 0), (('arr', 'float', 3), 4)]),           # struct { int i; float f[3]; }: INTEGER, SSE
    's_f22':   (16, 4, [(('arr', ('arr', 'float', 2), 2), 0)]),           # struct { float m[2][2]; }: SSE, SSE
    's_d11_l': (16, 8, [(('arr', ('arr', 'double', 1), 1), 0), ('long', 8)]),   # struct { double m[1][1]; long l; }: SSE, INTEGER
    's_asfi_d': (16, 8, [(('arr', 's_fi', 1), 0), ('double', 8)]),        # struct { struct { float f; int i; } a[1]; double d; }: INTEGER, SSE
    's_i2f2':  (16, 4, [(('arr', 'int', 2), 0), (('arr', 'float', 2), 8)]),   # struct { int i[2]; float f[2]; }: INTEGER, SSE (every element at its own offset)
    's_f2i2':  (16, 4, [(('arr', 'float', 2), 0), (('arr', 'int', 2), 8)]),   # struct { float f[2]; int i[2]; }: SSE, INTEGER
    's_c16':   (16, 1, [(('arr', 'char', 16), 0)]),                       # struct { char c[16]; }: INTEGER, INTEGER
    'u_l2_d':  (16, 8, [(('arr', 'long', 2), 0), ('double', 0)]),         # union { long l[2]; double d; }: INTEGER, INTEGER
    'u_f4':    (16, 4, [(('arr', 'float', 4), 0), ('s_dd', 0)]),          # union { float f[4]; struct { double a, b; } s; }: SSE, SSE
    's_a3l':   (24, 8, [(('arr', 's_l', 3), 0)]),                         # struct { struct { long l; } a[3]; }: larger than 16 bytes, MEMORY
})
NESTED = {n for n, (sz, al, ms) in STRUCTS.items() if any(not isinstance(mt, str) or mt in STRUCTS for mt, off in ms)}
# ---- shapes whose class is decided by a rule other than "one class per member": an eightbyte in which no member lies (NO_CLASS: no
# register), a member that is not naturally aligned (MEMORY), X87UP that does not follow X87 after the merge of a union (MEMORY)
STRUCTS.update({
    's_l_pad': (16, 16, [('long', 0)]),                                   # struct { _Alignas(16) long x; }: INTEGER + a padding eightbyte
    's_d_pad': (16, 16, [('double', 0)]),                                 # struct { _Alignas(16) double x; }: SSE + a padding eightbyte
    's_pk_cl': (9, 1, [('char', 0), ('long', 1)]),                        # struct __attribute__((packed)) { char c; long l; }: unaligned member, MEMORY
    'u_Ll1':   (16, 16, [('ldouble', 0), ('long', 0)]),                   # union { long double f; long l; }: INTEGER, X87UP -> MEMORY (post-merger)
})
CLASS_ONLY = NESTED | {'s_l_pad', 's_d_pad', 's_pk_cl', 'u_Ll1'}          # shapes that decide a classification clause; register exhaustion is covered by the flat shapes


def _member_size(mt):
    if isinstance(mt, tuple):
        return mt[2] * _member_size(mt[1])
    if mt == 'empty':
        return 0
    return SCALARS[mt] if mt in SCALARS else STRUCTS[mt][0]


def _member_align(mt):
    if isinstance(mt, tuple):
        return _member_align(mt[1])
    if mt == 'empty':
        return 1
    if mt == 'ldouble':
        return 16
    return max(1, SCALARS[mt]) if mt in SCALARS else STRUCTS[mt][1]


def flat_members(t, base=0):
    """scalar leaves [(scalar type | 'empty', offset)] of a shape, through member structs/unions and arrays"""
    out = []

    def walk(mt, off):
        if isinstance(mt, tuple):
            es = _member_size(mt[1])
            for i in range(mt[2]):
                walk(mt[1], off + es * i)
        elif mt in STRUCTS:
            for m2, o2 in STRUCTS[mt][2]:
                walk(m2, off + o2)
        else:
            out.append((mt, off))
    for mt, off in STRUCTS[t][2]:
        walk(mt, base + off)
    return out


def describe(t):
    """C-like rendering of a vocabulary type (for messages)"""
    def r(mt):
        if isinstance(mt, tuple):
            return '%s[%d]' % (r(mt[1]), mt[2])
        if mt in STRUCTS:
            return describe(mt)
        return mt
    if t not in STRUCTS:
        return t
    return '%s{%s}' % ('union' if t.startswith('u_') else 'struct', ','.join(r(mt) for mt, off in STRUCTS[t][2]))


def size_of(t):
    return SCALARS[t] if t in SCALARS else STRUCTS[t][0]


def eightbyte_classes(t):
    """psABI 3.2.3 classification of an aggregate after the merge and the post-merger cleanup: one of 'INTEGER' | 'SSE' | 'X87' | 'X87UP' |
    'NO_CLASS' per eightbyte, or ['MEMORY']"""
    size, align, _ = STRUCTS[t]
    members = [(mt, off) for mt, off in flat_members(t) if mt != 'empty']
    if size > 16:
        return ['MEMORY']
    if any(off % (16 if mt == 'ldouble' else max(1, SCALARS[mt])) for mt, off in members):
        return ['MEMORY']                                     # (1) "... or it contains unaligned fields, it has class MEMORY"
    n = (size + 7) // 8
    cls = [None] * n

    def merge(a, b):
        if a is None or a == b:
            return b
        if 'MEMORY' in (a, b):
            return 'MEMORY'
        if 'INTEGER' in (a, b):
            return 'INTEGER'                                  # (4d) INTEGER wins a merge
        if a in ('X87', 'X87UP') or b in ('X87', 'X87UP'):
            return 'MEMORY'                                   # (4e)
        return 'SSE'
    for mt, off in members:
        if mt == 'ldouble':
            cls[off // 8] = merge(cls[off // 8], 'X87')
            cls[off // 8 + 1] = merge(cls[off // 8 + 1], 'X87UP')
            continue
        c = 'SSE' if mt in ('float', 'double') else 'INTEGER'
        k = off // 8
        cls[k] = merge(cls[k], c)
    if 'MEMORY' in cls:
        return ['MEMORY']                                     # (5a)
    if any(c == 'X87UP' and (k == 0 or cls[k - 1] != 'X87') for k, c in enumerate(cls)):
        return ['MEMORY']                                     # (5b) X87UP not preceded by X87
    return [c or 'NO_CLASS' for c in cls]                     # an eightbyte that holds only padding keeps NO_CLASS: it takes no register


def classify(t):
    """psABI 3.2.3 classification of an ARGUMENT: list of eightbyte classes ('INTEGER'|'SSE'|'NO_CLASS') or ['MEMORY'] / ['X87']"""
    if t in SCALARS:
        if t in ('float', 'double'):
            return ['SSE']
        if t == 'ldouble':
            return ['X87']
        return ['INTEGER']
    cls = eightbyte_classes(t)
    if any(c in ('MEMORY', 'X87', 'X87UP') for c in cls):
        return ['MEMORY']      # psABI 3.2.3 (5): X87/X87UP eightbytes of an argument go to memory (a return value of class X87,X87UP: see ret_locs)
    return cls


def assign_args(types, hidden_ret=False, ld_align=16):
    """psABI argument assignment. returns (locs, n_gp, n_sse, mem_bytes) where locs[i] is
    ('regs', [('gp', idx)|('sse', idx), ...]) or ('mem', offset_from_rsp_at_call)"""
    gp = 1 if hidden_ret else 0
    sse = 0
    locs = []
    mem = []
    for i, t in enumerate(types):
        c = classify(t)
        if c in (['MEMORY'], ['X87']):
            locs.append(None); mem.append(i); continue
        ng = c.count('INTEGER'); ns = c.count('SSE')
        if gp + ng <= 6 and sse + ns <= N_SSE:
            r = []
            for x in c:
                if x == 'INTEGER':
                    r.append(('gp', gp)); gp += 1
                elif x == 'SSE':
                    r.append(('sse', sse)); sse += 1
            locs.append(('regs', r))
        else:
            locs.append(None); mem.append(i)
    off = 0
    for i in mem:
        t = types[i]
        al = ld_align if (t == 'ldouble' or (t in STRUCTS and STRUCTS[t][1] > 8)) else 8
        off = (off + al - 1) // al * al
        locs[i] = ('mem', off)
        off += (size_of(t) + 7) // 8 * 8
    return locs, gp, sse, off


# ------------------------------------------------------------------ concrete objects ---
class Builder:
    def __init__(self, P):
        self.P = P
        self.T = Types(P)
        self.cu = P.unit('codegen.c')
        self.E = self.cu.enums

    def ty(self, it, name):
        if isinstance(name, tuple):                         # ('arr', element, length)
            base = self.ty(it, name[1])
            t = Obj('Type', lazy=False, label='T:arr')
            t.fields.update({'kind': self.E['TY_ARRAY'], 'size': _member_size(name), 'align': _member_align(name), 'base': base,
                             'array_len': name[2], 'members': 0, 'is_unsigned': 0})
            return t
        if name == 'empty':
            ety = Obj('Type', lazy=False, label='T:empty')
            ety.fields.update({'kind': self.E['TY_STRUCT'], 'size': 0, 'align': 1, 'members': 0, 'base': 0, 'is_unsigned': 0})
            return ety
        if name in SCALARS:
            return self.T.make(it, name)
        size, align, members = STRUCTS[name]
        t = Obj('Type', lazy=False, label='T:' + name)
        t.fields.update({'kind': self.E['TY_UNION' if name.startswith('u_') else 'TY_STRUCT'], 'size': size, 'align': align, 'members': 0, 'base': 0})
        prev = None
        for i, (mt, off) in enumerate(members):
            m = Obj('Member', lazy=False, label='%s.m%d' % (name, i))
            if mt == 'empty':
                m.fields.update({'ty': self.ty(it, mt), 'offset': off, 'idx': i, 'align': 1, 'next': 0, 'is_bitfield': 0, 'name': 0})
            else:
                m.fields.update({'ty': self.ty(it, mt), 'offset': off, 'idx': i, 'align': _member_align(mt), 'next': 0, 'is_bitfield': 0})
            if prev is None:
                t.fields['members'] = m
            else:
                prev.fields['next'] = m
            prev = m
        return t

    def arg_nodes(self, it, types):
        head = None
        prev = None
        nodes = []
        for i, tn in enumerate(types):
            n = Obj('Node', lazy=False, label='a%d' % i)
            n.fields.update({'kind': self.E['ND_VAR'], 'ty': self.ty(it, tn), 'tok': Obj('Token', lazy=True, label='tok')})
            nodes.append(n)
            if prev is None:
                head = n
            else:
                prev.fields['next'] = n
            prev = n
        return head, nodes


# ------------------------------------------------------------------ byte-level view ---
def bytes_of(t, n=8):
    """little-endian byte terms of the low n bytes of a term, or None where unknown.
    understood: constants, memory loads, byte inserts, shifts by multiples of 8, zero extension, 'bytes' slots"""
    out = [None] * n
    if not isinstance(t, tuple):
        return out
    k = t[0]
    if k == 'c':
        return [('c', (t[1] >> (8 * i)) & 0xff) for i in range(n)]
    if k == 'bytes':
        return [t[1].get(i) for i in range(n)]
    if k == 'mem':
        w, addr = t[1], t[2]
        for i in range(min(n, w // 8)):
            out[i] = ('mem', 8, shift_addr(addr, i))
        return out
    if k == 'fmem':
        w, addr = t[1], t[2]
        for i in range(min(n, w // 8)):
            out[i] = ('mem', 8, shift_addr(addr, i))
        return out
    if k in ('fval', 'frombits'):
        return bytes_of(t[2], n)
    if k == 'bits':
        return bytes_of(t[2], n)
    if k in ('init', 'xinit', 'r', 'clobber', 'ret', 'retx', 'retst'):
        return [('byte', t, i) for i in range(n)]
    if k == 'zx':
        _, wf, wt, x = t
        b = bytes_of(x, wf // 8) if wf % 8 == 0 else [None] * n
        b = (b + [('c', 0)] * n)[:n]
        for i in range(wf // 8, min(n, wt // 8)):
            b[i] = ('c', 0)
        return b
    if k == 'lo':
        return (bytes_of(t[2], n) + [None] * n)[:n] if t[1] >= 8 * n else (bytes_of(t[2], t[1] // 8) + [None] * n)[:n]
    if k == 'ins':
        _, w, old, new = t
        b = bytes_of(old, n)
        nb = bytes_of(new, w // 8)
        for i in range(min(n, w // 8)):
            b[i] = nb[i]
        return b
    if k == 'hig':
        b = bytes_of(t[1], 4)
        return (b + [None] * n)[:n]
    if k == 'bin' and t[1] in ('shl', 'shr') and t[4][0] == 'c' and t[4][1] % 8 == 0 and t[2] == 64:
        s = t[4][1] // 8
        b = bytes_of(t[3], 8)
        if t[1] == 'shl':
            r = [('c', 0)] * s + b
        else:
            r = b[s:] + [('c', 0)] * s
        return (r + [None] * n)[:n]
    return out


def shift_addr(addr, i):
    if addr[0] == 'addr':
        d = addr[2]
        if isinstance(d, int):
            return ('addr', addr[1], d + i)
    return ('off', addr, i)
