"""C01 R01.19: the VALUE an expression leaves in %rax, in the register convention of the expression's type, decided concretely.

R01.5/R01.6 compare the term the emitted code computes with the one term C11 prescribes; that works where the prescribed term is unique.
The code around objects narrower than a register (bit-fields, char/short objects) has many equivalent instruction sequences, so here the
final term of the term-level machine (sa/x86.py) is *evaluated*: the code generator is explored with a CONCRETE field geometry (storage
unit, width, bit offset - every width of every unit), the final %rax term is computed for boundary operand values, with every leaf the
contract leaves undefined (upper half of a <= 32-bit child value, caller-saved registers after a child, old memory contents) set to
several junk patterns, and compared with the C11 value under the convention load() states:

    size 8          all 64 bits of %rax are the value
    size 1, 2, 4    the low 32 bits of %rax are the value sign-/zero-extended from its type (a later conversion to int is no instruction),
                    bits 32..63 are undefined

A final term with a leaf or operator the evaluator does not know is undecided, never a violation."""
from .interp import Obj, Sym
from .lib_sem import run_paths, INTSZ, UNSIGNED
from .x86 import Unknown

U = 'codegen.c'
M64 = (1 << 64) - 1
UNIT_CATS = ('bool', 'char', 'uchar', 'short', 'ushort', 'int', 'uint', 'long', 'ulong')
JUNK = (0, M64, 0xa5a5a5a55a5a5a5a, 0x5a5a5a5aa5a5a5a5)


class NotEvaluable(Exception):
    pass


def _mask(w):
    return (1 << w) - 1


def _sx(v, w):
    v &= _mask(w)
    return v - (1 << w) if v >> (w - 1) else v


class Env:
    """values of the leaves: `named` maps a leaf name ('rhs', or the tag 'mem') to its value; every other leaf the machine leaves undefined
    gets the junk pattern of this run"""

    def __init__(self, named, junk):
        self.named, self.junk = named, junk

    def leaf(self, t):
        k = t[0]
        if k == 'r':
            if not isinstance(t[2], int):
                raise NotEvaluable('floating-point leaf %r' % (t,))
            nm = t[1]
            if nm in self.named:
                return self.named[nm] & _mask(t[2])
            # an address (`x&`) is as arbitrary as any other undefined leaf: a value that depends on it is not the C value
            return self.junk & _mask(t[2])
        if k == 'mem':
            if 'mem' in self.named:
                return self.named['mem'] & _mask(t[1])
            return self.junk & _mask(t[1])
        if k in ('init', 'clobber'):
            return self.junk
        if k == 'junk':
            return self.junk & _mask(t[1])
        if k == 'immsym':
            return self.junk          # a member offset / frame offset left symbolic: part of an address
        if k == 'ret':
            # a register after a call: %rax holds the callee's result in the low `retbits` bits (psABI: the bits above the width of
            # the return type are undefined), every other register is clobbered
            if t[1] == 'rax' and 'ret' in self.named:
                rb = self.named.get('retbits', 64)
                return (self.named['ret'] & _mask(rb)) | (self.junk & M64 & ~_mask(rb))
            return self.junk
        if k in ('cas_ok', 'cas_failed'):
            if 'cas_ok' not in self.named:
                raise NotEvaluable('outcome of a compare-and-swap %r' % (t,))
            return int(bool(self.named['cas_ok']) == (k == 'cas_ok'))
        if k == 'observed':
            return self.named.get('observed', self.junk) & _mask(t[1])
        raise NotEvaluable('leaf %r' % (t,))


def ceval(t, env):
    """the term t as a non-negative python int of its own width"""
    if not isinstance(t, tuple):
        raise NotEvaluable('term %r' % (t,))
    k = t[0]
    if k == 'c':
        return t[1] & M64
    if k in ('r', 'mem', 'init', 'clobber', 'junk', 'immsym', 'ret', 'cas_ok', 'cas_failed', 'observed'):
        return env.leaf(t)
    if k == 'casax':
        # the accumulator after cmpxchg: unchanged on success, the observed value on failure
        if 'cas_ok' not in env.named:
            raise NotEvaluable('outcome of a compare-and-swap %r' % (t[-1],))
        return ceval(t[2] if env.named['cas_ok'] else t[3], env)
    if k == 'hig':
        return (ceval(t[1], env) & _mask(32)) | (env.junk & (_mask(32) << 32))
    if k == 'zx':
        return ceval(t[3], env) & _mask(t[1])
    if k == 'sx':
        return _sx(ceval(t[3], env), t[1]) & _mask(t[2])
    if k == 'lo':
        return ceval(t[2], env) & _mask(t[1])
    if k == 'ins':
        _, iw, old, new = t
        return (ceval(old, env) & M64 & ~_mask(iw)) | (ceval(new, env) & _mask(iw))
    if k == 'un':
        _, op, w, x = t
        v = ceval(x, env)
        if op == 'neg':
            return (-v) & _mask(w)
        if op == 'not':
            return (~v) & _mask(w)
        raise NotEvaluable('operator %s' % op)
    if k == 'bin':
        _, op, w, a, b = t
        x = ceval(a, env) & _mask(w)
        if op in ('shl', 'shr', 'sar'):
            if b[0] == 'immsym':
                raise NotEvaluable('symbolic shift count %r' % (b,))
            c = ceval(b, env) & (63 if w == 64 else 31)        # SDM: the count is masked to 5 bits (6 with a 64-bit operand)
            if op == 'shl':
                return (x << c) & _mask(w)
            if op == 'shr':
                return x >> c
            return (_sx(x, w) >> c) & _mask(w)
        y = ceval(b, env) & _mask(w)
        if op == 'add':
            return (x + y) & _mask(w)
        if op == 'sub':
            return (x - y) & _mask(w)
        if op == 'mul':
            return (x * y) & _mask(w)
        if op == 'and':
            return x & y
        if op == 'or':
            return x | y
        if op == 'xor':
            return x ^ y
        raise NotEvaluable('operator %s' % op)
    if k == 'cmp':
        _, cc, w, a, b = t
        x, y = ceval(a, env) & _mask(w), ceval(b, env) & _mask(w)
        sx_, sy = _sx(x, w), _sx(y, w)
        tab = {'eq': x == y, 'ne': x != y, 'lt_s': sx_ < sy, 'le_s': sx_ <= sy, 'gt_s': sx_ > sy, 'ge_s': sx_ >= sy,
               'lt_u': x < y, 'le_u': x <= y, 'gt_u': x > y, 'ge_u': x >= y}
        if cc not in tab:
            raise NotEvaluable('condition %s' % cc)
        return int(tab[cc])
    if k == 'ite':
        return ceval(t[2], env) if ceval(t[1], env) else ceval(t[3], env)
    raise NotEvaluable('term kind %r' % (k,))


def final_value(finals, env):
    """%rax of the final state whose path condition holds under env"""
    hit = None
    for s in finals:
        if all(bool(ceval(c, env)) == bool(truth) for c, truth in s.cond):
            if hit is not None:
                raise NotEvaluable('two paths of the emitted code are feasible for the same operand values')
            hit = s
    if hit is None:
        raise NotEvaluable('no path of the emitted code is feasible for the operand values')
    return ceval(hit.reg['rax'], env), hit


def in_convention(cat, got, want):
    """does the 64-bit register content `got` denote the C value `want` (python int) of type class cat?"""
    if INTSZ[cat] == 8:
        return got & M64 == want & M64
    return got & _mask(32) == want & _mask(32)


def c_value(cat, bits, v):
    """the value of type class cat (bool: 0/1) held in the low `bits` bits of v"""
    if cat == 'bool':
        return int(v & _mask(bits) != 0) if bits < 8 else v & 1
    return (v & _mask(bits)) if cat in UNSIGNED else _sx(v, bits)


def operand_values(cat, width):
    sz = INTSZ[cat] * 8
    if cat == 'bool':
        return [0, 1]
    vs = {0, 1, 2, -1, -2, 5, 20, _mask(width), 1 << (width - 1), (1 << (width - 1)) - 1, (1 << (width - 1)) + 1, 1 << width if width < sz else 0,
          _mask(sz), 1 << (sz - 1), (1 << (sz - 1)) - 1, 0x5a5a5a5a5a5a5a5a, 0xa5a5a5a5a5a5a5a5, 3, ~3}
    return sorted({v & _mask(sz) for v in vs})


def offsets(sz, width):
    return sorted({0, (sz - width) // 2, sz - width})


def bitfield_node(cg, cat, kind, width, off):
    def mk(ctx):
        t = cg.tcell('ty', only=(cat,))
        m = Obj('Member', lazy=True, label='mem')
        m.fields['ty'] = t
        m.fields['is_bitfield'] = 1
        m.fields['bit_width'] = width
        m.fields['bit_offset'] = off
        m.fields['offset'] = Sym('off', 'int')
        mn = cg.node('lhs' if kind == 'ND_ASSIGN' else 'node', 'ND_MEMBER', ty=t, member=m)
        mn.fields['lhs'] = cg.node('base')
        if kind == 'ND_MEMBER':
            return mn
        n = cg.node('node', 'ND_ASSIGN', ty=t)
        n.fields['lhs'] = mn
        n.fields['rhs'] = cg.node('rhs', ty=t)
        return n
    return mk


def _runs(cg, mk):
    out = []
    for ctx, tr, finals, cats, it in run_paths(cg, 'gen_expr', mk):
        out.append((tr, finals))
    return out


def _judge(rep, rule, key, where, runs, cases, what):
    """cases: iterable of (named leaves, expected C value, cat of the expression, text). One obligation per key."""
    if not runs:
        rep.undecided(rule, key, 'no returning path / no emitted code', where=where); return
    for tr, finals in runs:
        if isinstance(finals, Exception):
            rep.undecided(rule, key, 'emitted code not interpretable: %s' % finals, where=where); return
    bad = None
    try:
        for tr, finals in runs:
            for named, want, cat, text in cases:
                for j in JUNK:
                    got, s = final_value(finals, Env(named, j))
                    if not in_convention(cat, got, want):
                        bad = (text, got, want, tr); break
                if bad:
                    break
            if bad:
                break
    except (NotEvaluable, Unknown) as e:
        rep.undecided(rule, key, 'final %%rax not evaluable: %s' % e, where=where); return
    if bad:
        text, got, want, tr = bad
        sz = 64 if INTSZ[cat] == 8 else 32
        rep.ob(rule, key, False, '%s: %s leaves %#x in the low %d bits of %%rax, the C11 value is %d (%#x) - bits outside the width the instructions operate on are stale or the extension is wrong'
               % (what, text, got & _mask(sz), sz, want, want & _mask(sz)), where=where, facts={'trace': tr.text()})
    else:
        rep.ob(rule, key, True, '', where=where)


def r_value_convention(cg, rep, rule):
    where = '%s:%d' % (U, cg.cu.fn('gen_expr').line)
    for cat in UNIT_CATS:
        sz = INTSZ[cat] * 8
        uns = cat in UNSIGNED
        for width in range(1, sz + 1):
            if cat == 'bool' and width > 1:
                break                                   # a _Bool bit-field has width 1 (C11 6.7.2.1p4)
            # ---- (x.f = v): the value of the left operand after the assignment (6.5.16p3), i.e. v converted to the field
            runs, cases = [], []
            for off in offsets(sz, width):
                runs += _runs(cg, bitfield_node(cg, cat, 'ND_ASSIGN', width, off))
            for v in operand_values(cat, width):
                cases.append(({'rhs': v}, c_value(cat, width, v), cat, 'assigning %#x to a %d-bit field of type class %s' % (v, width, cat)))
            _judge(rep, rule, '%s:gen_expr:ND_ASSIGN-bitfield/%s:%d:value' % (U, cat, width), where, runs, cases, 'value of an assignment to a bit-field')
            # ---- x.f: the field's bits, extended per the declared type
            for off in offsets(sz, width):
                runs = _runs(cg, bitfield_node(cg, cat, 'ND_MEMBER', width, off))
                cases = []
                fm = _mask(width) << off
                units = {0, _mask(sz), fm, _mask(sz) & ~fm, 1 << (off + width - 1), fm & ~(1 << (off + width - 1)), 0x5a5a5a5a5a5a5a5a & _mask(sz), 0xa5a5a5a5a5a5a5a5 & _mask(sz), 1 << off}
                for u in sorted(units):
                    cases.append(({'mem': u}, c_value(cat, width, u >> off), cat,
                                  'reading a %d-bit field at bit %d of a unit of type class %s holding %#x' % (width, off, cat, u)))
                pos = 'low' if off == 0 else 'high' if off == sz - width else 'mid'
                _judge(rep, rule, '%s:gen_expr:ND_MEMBER-bitfield/%s:%d@%s:value' % (U, cat, width, pos), where, runs, cases, 'value of a bit-field')
        # ---- *p / a variable of a narrow type: load() extends per the type; x = v of a plain object yields v
        def mk_deref(ctx, cat=cat):
            n = cg.node('node', 'ND_DEREF', ty=cg.tcell('ty', only=(cat,)))
            n.fields['lhs'] = cg.node('lhs', ty=cg.tcell('pty', only=('ptr',)))
            return n
        cases = []
        for u in ([0, 1] if cat == 'bool' else operand_values(cat, sz)):
            cases.append(({'mem': u}, c_value(cat, sz, u), cat, 'loading an object of type class %s holding %#x' % (cat, u)))
        _judge(rep, rule, '%s:gen_expr:ND_DEREF/%s:value' % (U, cat), where, _runs(cg, mk_deref), cases, 'value of an lvalue')

        def mk_assign(ctx, cat=cat):
            t = cg.tcell('ty', only=(cat,))
            n = cg.node('node', 'ND_ASSIGN', ty=t)
            n.fields['lhs'] = cg.node('lhs', ty=t, kind='ND_VAR')
            n.fields['rhs'] = cg.node('rhs', ty=t)
            return n
        cases = []
        for v in ([0, 1] if cat == 'bool' else operand_values(cat, sz)):
            cases.append(({'rhs': v}, c_value(cat, sz, v), cat, 'assigning %#x to an object of type class %s' % (v, cat)))
        _judge(rep, rule, '%s:gen_expr:ND_ASSIGN/%s:value' % (U, cat), where, _runs(cg, mk_assign), cases, 'value of an assignment')


# ------------------------------------------------------------------------------------------------------------------------------------
# the other arms of gen_expr that PRODUCE a value narrower than a register by an instruction of their own (not through load() / the
# cast table): an atomic exchange (xchg leaves the old object in %al/%ax under the stale upper bits of the new value), a
# compare-and-swap (the success flag comes from setcc), a function call (psABI: the bits of %rax above the return type are
# undefined). Each must leave its value in the convention of the expression's type, like a load of that type would.
def _exch_node(cg, cat):
    def mk(ctx):
        n = cg.node('node', 'ND_EXCH')
        b = cg.tcell('obj', only=(cat,))
        n.fields['ty'] = b
        n.fields['lhs'] = cg.node('lhs', ty=cg.ptr_to(b, 'pa'))
        n.fields['rhs'] = cg.node('rhs', ty=b)
        return n
    return mk


def _cas_node(cg, cat):
    def mk(ctx):
        n = cg.node('node', 'ND_CAS')
        n.fields['ty'] = cg.tcell('nty', only=('bool',))
        b = cg.tcell('obj', only=(cat,))
        n.fields['cas_addr'] = cg.node('cas_addr', ty=cg.ptr_to(b, 'pa'))
        n.fields['cas_old'] = cg.node('cas_old', ty=cg.ptr_to(b, 'po'))
        n.fields['cas_new'] = cg.node('cas_new', ty=b)
        return n
    return mk


def _object_values(cat):
    return [0, 1] if cat == 'bool' else operand_values(cat, INTSZ[cat] * 8)


def r_produced_values(cg, rep, rule, P=None):
    where = '%s:%d' % (U, cg.cu.fn('gen_expr').line)
    E = cg.cu.enums
    for cat in UNIT_CATS:
        sz = INTSZ[cat] * 8
        # ---- atomic exchange: the value is the object's old value, whatever the new value (and its undefined upper half) was
        if 'ND_EXCH' in E:
            cases = []
            for u in _object_values(cat):
                for v in (None, 0, _mask(sz)):
                    named = {'mem': u}
                    if v is not None:
                        named['rhs'] = v
                    cases.append((named, c_value(cat, sz, u), cat, 'exchanging an object of type class %s holding %#x' % (cat, u)))
            _judge(rep, rule, '%s:gen_expr:ND_EXCH/%s:value' % (U, cat), where, _runs(cg, _exch_node(cg, cat)), cases, 'value of an atomic exchange')
        # ---- compare-and-swap: the int 1 on success, 0 on failure, whatever was compared
        if 'ND_CAS' in E:
            cases = []
            for okv in (0, 1):
                for u in (0, _mask(sz), 1 << (sz - 1)):
                    cases.append(({'cas_ok': okv, 'mem': u, 'observed': (~u) & _mask(sz)}, okv, 'bool',
                                  'a compare-and-swap on an object of type class %s that %s' % (cat, 'succeeds' if okv else 'fails')))
            _judge(rep, rule, '%s:gen_expr:ND_CAS/%s:value' % (U, cat), where, _runs(cg, _cas_node(cg, cat)), cases, 'value of a compare-and-swap')
        # ---- a plain (non-bit-field) member: the object's value, like *p (a variable: gen_addr of the root has arms - TLS - outside the term machine)
        for kind in ('ND_MEMBER',):
            def mk_obj(ctx, cat=cat, kind=kind):
                t = cg.tcell('ty', only=(cat,))
                n = cg.node('node', kind, ty=t)
                if kind == 'ND_MEMBER':
                    m = Obj('Member', lazy=True, label='mem')
                    m.fields['ty'] = t
                    m.fields['is_bitfield'] = 0
                    m.fields['offset'] = Sym('off', 'int')
                    n.fields['member'] = m
                    n.fields['lhs'] = cg.node('base')
                return n
            cases = []
            for u in _object_values(cat):
                cases.append(({'mem': u}, c_value(cat, sz, u), cat, 'reading an object of type class %s holding %#x' % (cat, u)))
            _judge(rep, rule, '%s:gen_expr:%s/%s:value' % (U, kind, cat), where, _runs(cg, mk_obj), cases, 'value of a variable' if kind == 'ND_VAR' else 'value of a member')
    # ---- function call: the callee defines the low bits of %rax only
    if P is None:
        return
    for cat in UNIT_CATS:
        sz = INTSZ[cat] * 8
        key = '%s:gen_expr:ND_FUNCALL/%s:value' % (U, cat)
        try:
            runs = [_call_run(cg, P, types, cat) for types in ((), ('int',), ('long', 'int'))]
        except Unknown as e:
            rep.undecided(rule, key, 'call sequence not interpretable: %s' % e, where=where); continue
        cases = []
        for u in _object_values(cat):
            cases.append(({'ret': u, 'retbits': sz}, c_value(cat, sz, u), cat, 'a call of a function of return type class %s that returns %#x' % (cat, u)))
        _judge(rep, rule, key, where, runs, cases, 'value of a function call')


def _call_run(cg, P, types, ret):
    """gen_expr on a concrete call node `callee(a0, ...)` with integer arguments and an integer return type: (trace, final states)"""
    from .chibi import Trace, linearise
    from .lib_types import Types
    from .x86 import Machine
    T = Types(P)
    E = cg.cu.enums
    it = cg.interp()
    it.global_init['depth'] = 0
    it.rec_limit = 64

    def mk(ctx):
        it.ctx = ctx
        head = prev = None
        for i, tn in enumerate(types):
            a = Obj('Node', lazy=False, label='a%d' % i)
            a.fields.update({'kind': E['ND_VAR'], 'ty': T.make(it, tn), 'tok': Obj('Token', lazy=True, label='tok')})
            if prev is None:
                head = a
            else:
                prev.fields['next'] = a
            prev = a
        fty = Obj('Type', lazy=False, label='fty'); fty.fields['kind'] = E['TY_FUNC']
        fn = Obj('Node', lazy=False, label='fn')
        fn.fields.update({'kind': E['ND_VAR'], 'ty': fty, 'var': Obj('Obj', lazy=False, label='fvar', fields={'name': 'callee', 'ty': fty})})
        n = Obj('Node', lazy=False, label='call')
        n.fields.update({'kind': E['ND_FUNCALL'], 'args': head or 0, 'lhs': fn, 'func_ty': fty, 'ty': T.make(it, ret), 'tok': Obj('Token', lazy=True, label='tok')})
        n.meta['root'] = True
        ctx.root = n
        return [n]
    res = it.explore('gen_expr', mk)
    rets = [(c, o) for c, o in res if o[0] == 'ret']
    if len(rets) != 1:
        raise Unknown('gen_expr(ND_FUNCALL) on a concrete call has %d returning paths' % len(rets))
    tr = Trace(rets[0][0])

    def pseudo(s, n):
        name = getattr(n[2], 'label', '?')
        s.events.append(('eval', n[1], name))
        for r in ('rcx', 'rdx', 'rsi', 'rdi', 'r8', 'r9', 'r10', 'r11'):
            s.reg[r] = ('clobber', r, name)
        for x in list(s.xmm):
            s.xmm[x] = ('clobber', 'xmm%d' % x, name)
        s.flags = None
        s.reg['rax'] = ('r', name, 64)
    return tr, Machine().run(linearise(tr), lambda s: None, pseudo)
