"""C01 R01.19: the VALUE an expression leaves in %rax, in the register convention of the expression's type, decided concretely.

R01.5/R01.6 compare the term the emitted code computes with the one term C11 prescribes; that works where the prescribed term is unique.
The code around objects narrower than a register (bit-fields, char/short objects) has many equivalent instruction sequences, so here the
final term of the term-level machine (sa/x86.py) is *evaluated*: the code generator is explored with a CONCRETE field geometry (storage
unit, width, bit offset - every width of every unit), the final %rax term is computed for boundary operand values, with every leaf the
contract leaves undefined (upper half of a <= 32-bit child value, caller-saved registers after a child, old memory contents) set to
several junk patterns, and compared with the C11 value under the convention load() states:

    size 8          all 64 bits of %rax are the value
    size 1, 2, 4    the low 32 bits of %rax are the value sign-/zero-extended from its type (a later conversion to int is no instruction),
                    bits 32..63 are undefined

A final term with a leaf or operator the evaluator does not know is undecided, never a violation."""
from .interp import Obj, Sym
from .lib_sem import run_paths, INTSZ, UNSIGNED
from .x86 import Unknown

U = 'codegen.c'
M64 = (1 << 64) - 1
UNIT_CATS = ('bool', 'char', 'uchar', 'short', 'ushort', 'int', 'uint', 'long', 'ulong')
JUNK = (0, M64, 0xa5a5a5a55a5a5a5a, 0x5a5a5a5aa5a5a5a5)


class NotEvaluable(Exception):
    pass


def _mask(w):
    return (1 << w) - 1


def _sx(v, w):
    v &= _mask(w)
    return v - (1 << w) if v >> (w - 1) else v


class Env:
    """values of the leaves: `named` maps a leaf name ('rhs', or the tag 'mem') to its value; every other leaf the machine leaves undefined
    gets the junk pattern of this run"""

    def __init__(self, named, junk):
        self.named, self.junk = named, junk

    def leaf(self, t):
        k = t[0]
        if k == 'r':
            if not isinstance(t[2], int):
                raise NotEvaluable('floating-point leaf %r' % (t,))
            nm = t[1]
            if nm in self.named:
                return self.named[nm] & _mask(t[2])
            # an address (`x&`) is as arbitrary as any other undefined leaf: a value that depends on it is not the C value
            return self.junk & _mask(t[2])
        if k == 'mem':
            if 'mem' in self.named:
                return self.named['mem'] & _mask(t[1])
            return self.junk & _mask(t[1])
        if k in ('init', 'clobber'):
            return self.junk
        if k == 'junk':
            return self.junk & _mask(t[1])
        if k == 'immsym':
            return self.junk          # a member offset / frame offset left symbolic: part of an address
        raise NotEvaluable('leaf %r' % (t,))


def ceval(t, env):
    """the term t as a non-negative python int of its own width"""
    if not isinstance(t, tuple):
        raise NotEvaluable('term %r' % (t,))
    k = t[0]
    if k == 'c':
        return t[1] & M64
    if k in ('r', 'mem', 'init', 'clobber', 'junk', 'immsym'):
        return env.leaf(t)
    if k == 'hig':
        return (ceval(t[1], env) & _mask(32)) | (env.junk & (_mask(32) << 32))
    if k == 'zx':
        return ceval(t[3], env) & _mask(t[1])
    if k == 'sx':
        return _sx(ceval(t[3], env), t[1]) & _mask(t[2])
    if k == 'lo':
        return ceval(t[2], env) & _mask(t[1])
    if k == 'ins':
        _, iw, old, new = t
        return (ceval(old, env) & M64 & ~_mask(iw)) | (ceval(new, env) & _mask(iw))
    if k == 'un':
        _, op, w, x = t
        v = ceval(x, env)
        if op == 'neg':
            return (-v) & _mask(w)
        if op == 'not':
            return (~v) & _mask(w)
        raise NotEvaluable('operator %s' % op)
    if k == 'bin':
        _, op, w, a, b = t
        x = ceval(a, env) & _mask(w)
        if op in ('shl', 'shr', 'sar'):
            if b[0] == 'immsym':
                raise NotEvaluable('symbolic shift count %r' % (b,))
            c = ceval(b, env) & (63 if w == 64 else 31)        # SDM: the count is masked to 5 bits (6 with a 64-bit operand)
            if op == 'shl':
                return (x << c) & _mask(w)
            if op == 'shr':
                return x >> c
            return (_sx(x, w) >> c) & _mask(w)
        y = ceval(b, env) & _mask(w)
        if op == 'add':
            return (x + y) & _mask(w)
        if op == 'sub':
            return (x - y) & _mask(w)
        if op == 'mul':
            return (x * y) & _mask(w)
        if op == 'and':
            return x & y
        if op == 'or':
            return x | y
        if op == 'xor':
            return x ^ y
        raise NotEvaluable('operator %s' % op)
    if k == 'cmp':
        _, cc, w, a, b = t
        x, y = ceval(a, env) & _mask(w), ceval(b, env) & _mask(w)
        sx_, sy = _sx(x, w), _sx(y, w)
        tab = {'eq': x == y, 'ne': x != y, 'lt_s': sx_ < sy, 'le_s': sx_ <= sy, 'gt_s': sx_ > sy, 'ge_s': sx_ >= sy,
               'lt_u': x < y, 'le_u': x <= y, 'gt_u': x > y, 'ge_u': x >= y}
        if cc not in tab:
            raise NotEvaluable('condition %s' % cc)
        return int(tab[cc])
    if k == 'ite':
        return ceval(t[2], env) if ceval(t[1], env) else ceval(t[3], env)
    raise NotEvaluable('term kind %r' % (k,))


def final_value(finals, env):
    """%rax of the final state whose path condition holds under env"""
    hit = None
    for s in finals:
        if all(bool(ceval(c, env)) == bool(truth) for c, truth in s.cond):
            if hit is not None:
                raise NotEvaluable('two paths of the emitted code are feasible for the same operand values')
            hit = s
    if hit is None:
        raise NotEvaluable('no path of the emitted code is feasible for the operand values')
    return ceval(hit.reg['rax'], env), hit


def in_convention(cat, got, want):
    """does the 64-bit register content `got` denote the C value `want` (python int) of type class cat?"""
    if INTSZ[cat] == 8:
        return got & M64 == want & M64
    return got & _mask(32) == want & _mask(32)


def c_value(cat, bits, v):
    """the value of type class cat (bool: 0/1) held in the low `bits` bits of v"""
    if cat == 'bool':
        return int(v & _mask(bits) != 0) if bits < 8 else v & 1
    return (v & _mask(bits)) if cat in UNSIGNED else _sx(v, bits)


def operand_values(cat, width):
    sz = INTSZ[cat] * 8
    if cat == 'bool':
        return [0, 1]
    vs = {0, 1, 2, -1, -2, 5, 20, _mask(width), 1 << (width - 1), (1 << (width - 1)) - 1, (1 << (width - 1)) + 1, 1 << width if width < sz else 0,
          _mask(sz), 1 << (sz - 1), (1 << (sz - 1)) - 1, 0x5a5a5a5a5a5a5a5a, 0xa5a5a5a5a5a5a5a5, 3, ~3}
    return sorted({v & _mask(sz) for v in vs})


def offsets(sz, width):
    return sorted({0, (sz - width) // 2, sz - width})


def bitfield_node(cg, cat, kind, width, off):
    def mk(ctx):
        t = cg.tcell('ty', only=(cat,))
        m = Obj('Member', lazy=True, label='mem')
        m.fields['ty'] = t
        m.fields['is_bitfield'] = 1
        m.fields['bit_width'] = width
        m.fields['bit_offset'] = off
        m.fields['offset'] = Sym('off', 'int')
        mn = cg.node('lhs' if kind == 'ND_ASSIGN' else 'node', 'ND_MEMBER', ty=t, member=m)
        mn.fields['lhs'] = cg.node('base')
        if kind == 'ND_MEMBER':
            return mn
        n = cg.node('node', 'ND_ASSIGN', ty=t)
        n.fields['lhs'] = mn
        n.fields['rhs'] = cg.node('rhs', ty=t)
        return n
    return mk


def _runs(cg, mk):
    out = []
    for ctx, tr, finals, cats, it in run_paths(cg, 'gen_expr', mk):
        out.append((tr, finals))
    return out


def _judge(rep, rule, key, where, runs, cases, what):
    """cases: iterable of (named leaves, expected C value, cat of the expression, text). One obligation per key."""
    if not runs:
        rep.undecided(rule, key, 'no returning path / no emitted code', where=where); return
    for tr, finals in runs:
        if isinstance(finals, Exception):
            rep.undecided(rule, key, 'emitted code not interpretable: %s' % finals, where=where); return
    bad = None
    try:
        for tr, finals in runs:
            for named, want, cat, text in cases:
                for j in JUNK:
                    got, s = final_value(finals, Env(named, j))
                    if not in_convention(cat, got, want):
                        bad = (text, got, want, tr); break
                if bad:
                    break
            if bad:
                break
    except (NotEvaluable, Unknown) as e:
        rep.undecided(rule, key, 'final %%rax not evaluable: %s' % e, where=where); return
    if bad:
        text, got, want, tr = bad
        sz = 64 if INTSZ[cat] == 8 else 32
        rep.ob(rule, key, False, '%s: %s leaves %#x in the low %d bits of %%rax, the C11 value is %d (%#x) - bits outside the width the instructions operate on are stale or the extension is wrong'
               % (what, text, got & _mask(sz), sz, want, want & _mask(sz)), where=where, facts={'trace': tr.text()})
    else:
        rep.ob(rule, key, True, '', where=where)


def r_value_convention(cg, rep, rule):
    where = '%s:%d' % (U, cg.cu.fn('gen_expr').line)
    for cat in UNIT_CATS:
        sz = INTSZ[cat] * 8
        uns = cat in UNSIGNED
        for width in range(1, sz + 1):
            if cat == 'bool' and width > 1:
                break                                   # a _Bool bit-field has width 1 (C11 6.7.2.1p4)
            # ---- (x.f = v): the value of the left operand after the assignment (6.5.16p3), i.e. v converted to the field
            runs, cases = [], []
            for off in offsets(sz, width):
                runs += _runs(cg, bitfield_node(cg, cat, 'ND_ASSIGN', width, off))
            for v in operand_values(cat, width):
                cases.append(({'rhs': v}, c_value(cat, width, v), cat, 'assigning %#x to a %d-bit field of type class %s' % (v, width, cat)))
            _judge(rep, rule, '%s:gen_expr:ND_ASSIGN-bitfield/%s:%d:value' % (U, cat, width), where, runs, cases, 'value of an assignment to a bit-field')
            # ---- x.f: the field's bits, extended per the declared type
            for off in offsets(sz, width):
                runs = _runs(cg, bitfield_node(cg, cat, 'ND_MEMBER', width, off))
                cases = []
                fm = _mask(width) << off
                units = {0, _mask(sz), fm, _mask(sz) & ~fm, 1 << (off + width - 1), fm & ~(1 << (off + width - 1)), 0x5a5a5a5a5a5a5a5a & _mask(sz), 0xa5a5a5a5a5a5a5a5 & _mask(sz), 1 << off}
                for u in sorted(units):
                    cases.append(({'mem': u}, c_value(cat, width, u >> off), cat,
                                  'reading a %d-bit field at bit %d of a unit of type class %s holding %#x' % (width, off, cat, u)))
                pos = 'low' if off == 0 else 'high' if off == sz - width else 'mid'
                _judge(rep, rule, '%s:gen_expr:ND_MEMBER-bitfield/%s:%d@%s:value' % (U, cat, width, pos), where, runs, cases, 'value of a bit-field')
        # ---- *p / a variable of a narrow type: load() extends per the type; x = v of a plain object yields v
        def mk_deref(ctx, cat=cat):
            n = cg.node('node', 'ND_DEREF', ty=cg.tcell('ty', only=(cat,)))
            n.fields['lhs'] = cg.node('lhs', ty=cg.tcell('pty', only=('ptr',)))
            return n
        cases = []
        for u in ([0, 1] if cat == 'bool' else operand_values(cat, sz)):
            cases.append(({'mem': u}, c_value(cat, sz, u), cat, 'loading an object of type class %s holding %#x' % (cat, u)))
        _judge(rep, rule, '%s:gen_expr:ND_DEREF/%s:value' % (U, cat), where, _runs(cg, mk_deref), cases, 'value of an lvalue')

        def mk_assign(ctx, cat=cat):
            t = cg.tcell('ty', only=(cat,))
            n = cg.node('node', 'ND_ASSIGN', ty=t)
            n.fields['lhs'] = cg.node('lhs', ty=t, kind='ND_VAR')
            n.fields['rhs'] = cg.node('rhs', ty=t)
            return n
        cases = []
        for v in ([0, 1] if cat == 'bool' else operand_values(cat, sz)):
            cases.append(({'rhs': v}, c_value(cat, sz, v), cat, 'assigning %#x to an object of type class %s' % (v, cat)))
        _judge(rep, rule, '%s:gen_expr:ND_ASSIGN/%s:value' % (U, cat), where, _runs(cg, mk_assign), cases, 'value of an assignment')
