"""C01 R01.21: the shifts the COMPILER performs on the host with a count derived from a bit-field's geometry.

The masks and merged words of bit-field stores / static initialisers are computed by the compiler itself (`(1L << bit_width) - 1`,
`mask << bit_offset`, ...).  A C shift whose count is negative or not below the width of the promoted left operand is undefined; on
the x86-64 host the count is taken modulo the width (`1L << 64` is 1, `1 << 40` is 256), so the mask is wrong and the emitted constant
no longer denotes the C11 value.  The rule finds EVERY host shift (`<<`, `>>`, `<<=`, `>>=`) of every function of the compiler whose
count - through single-definition locals and through parameters bound at the call sites - is a function of `Member.bit_width` /
`Member.bit_offset`, and evaluates count and the guards that dominate the shift (?:, if/else, && / ||, early exits, switch labels,
the guards of the call site for a parameter) for every geometry a declaration admits:

    1 <= bit_width <= 64,  0 <= bit_offset,  bit_width + bit_offset <= 8, 16, 32 or 64

A geometry that passes the guards and makes the count fall outside 0 .. width-1 is a violation.  An expression the evaluator does not
understand is `unknown`: an unknown guard does not restrict, an unknown count of a geometry-derived shift is undecided."""
from .build import AnalysisBroken

FIELDS = ('bit_width', 'bit_offset')
SHIFTS = ('<<', '>>', '<<=', '>>=')
NORETURN = {'error', 'error_at', 'error_tok', 'exit', '_exit', 'abort', '__assert_fail'}
MAXDEPTH = 3
MAXENUM = 200000


class Skip(Exception):
    pass


def tyinfo(t):
    """(bits, signed) of an integer type as clang spells it (desugared), None for anything else"""
    if not t:
        return None
    t = t.replace('const ', '').replace('volatile ', '').strip()
    tab = {'_Bool': (1, False), 'bool': (1, False), 'char': (8, True), 'signed char': (8, True), 'unsigned char': (8, False), 'short': (16, True), 'unsigned short': (16, False),
           'int': (32, True), 'unsigned int': (32, False), 'unsigned': (32, False), 'long': (64, True), 'unsigned long': (64, False), 'long long': (64, True),
           'unsigned long long': (64, False)}
    if t in tab:
        return tab[t]
    if t.startswith('enum '):
        return (32, False)
    return None


def wrap(v, ti):
    if v is None or ti is None:
        return v if ti is None else None
    bits, sg = ti
    if bits == 1:
        return int(v != 0)
    v &= (1 << bits) - 1
    if sg and v >> (bits - 1):
        v -= 1 << bits
    return v


def domain():
    out = []
    for w in range(1, 65):
        offs = set()
        for unit in (8, 16, 32, 64):
            if w <= unit:
                offs |= {0, 1, (unit - w) // 2, unit - w, max(unit - w - 1, 0)}
        offs = {o for o in offs if o >= 0 and any(w + o <= u_ for u_ in (8, 16, 32, 64))}
        for o in sorted(offs):
            out.append((w, o))
    return out


DOMAIN = domain()


class Fn:
    """per-function facts: single-definition locals, written variables"""

    def __init__(self, uname, u, name, decl):
        self.uname, self.u, self.name, self.decl = uname, u, name, decl
        self.vardecl = {}
        self.written = set()
        self.params = []
        self.stores_geometry = False
        for n in decl.walk():
            if n.kind == 'VarDecl' and n.d.get('id'):
                self.vardecl[n.d['id']] = n
            elif n.kind == 'ParmVarDecl' and n.d.get('id'):
                if n.parent is decl:
                    self.params.append(n)
            elif n.kind in ('BinaryOperator', 'CompoundAssignOperator') and ((n.opcode or '') == '=' or (n.opcode or '').endswith('=') and n.opcode not in ('==', '!=', '<=', '>=')):
                self._write(n.inner[0])
            elif n.kind == 'UnaryOperator' and n.opcode in ('++', '--', '&'):
                self._write(n.inner[0])

    def _write(self, lhs):
        x = lhs.strip_all() if hasattr(lhs, 'strip_all') else lhs
        if x.kind == 'DeclRefExpr' and x.ref_id:
            self.written.add(x.ref_id)
        elif x.kind == 'MemberExpr' and x.name in FIELDS:
            self.stores_geometry = True


class World:
    def __init__(self, P):
        self.P = P
        self.fns = {}
        self.callers = {}
        for un in list(P.unit_names):
            if not un.endswith('.c'):
                continue
            try:
                u = P.unit(un)
            except AnalysisBroken:
                continue
            for name, decl in u.functions.items():
                f = Fn(un, u, name, decl)
                self.fns[(un, name)] = f
        for f in list(self.fns.values()):
            for n in f.decl.walk():
                if n.kind == 'CallExpr':
                    c = n.callee()
                    if c:
                        self.callers.setdefault(c, []).append((f, n))
        self.addr_taken = set()
        for f in self.fns.values():
            for n in f.decl.walk():
                if n.kind == 'DeclRefExpr' and n.ref_kind == 'FunctionDecl':
                    p = n.parent
                    while p is not None and p.kind in ('ImplicitCastExpr', 'ParenExpr'):
                        q = p.parent
                        if q is not None and q.kind == 'CallExpr' and q.inner and q.inner[0] is p:
                            break
                        p = q
                    else:
                        p = None
                    if p is None:
                        self.addr_taken.add(n.ref_name)


# ---------------------------------------------------------------------------------------------------------------------------------
# concrete evaluation of a C integer expression.  frame = {'fn': Fn, 'geo': {base src -> (w, o)}, 'params': {id -> value|None}}
def ev(n, fr):
    k = n.kind
    if k in ('ParenExpr', 'ConstantExpr'):
        return ev(n.inner[0], fr)
    if k == 'IntegerLiteral' or k == 'CharacterLiteral':
        return wrap(n.int_value(), tyinfo(n.dtype))
    if k in ('ImplicitCastExpr', 'CStyleCastExpr'):
        v = ev(n.inner[-1], fr)
        if v is None:
            return None
        if n.cast_kind in ('LValueToRValue', 'NoOp'):
            return v
        if n.cast_kind in ('IntegralCast', 'IntegralToBoolean'):
            return wrap(v, tyinfo(n.dtype))
        return None
    if k == 'MemberExpr':
        if n.name in FIELDS and n.inner:
            g = fr['geo'].get(n.inner[0].src())
            if g is None:
                return None
            return g[0] if n.name == 'bit_width' else g[1]
        return None
    if k == 'DeclRefExpr':
        if n.ref_kind == 'EnumConstantDecl':
            return n.int_value()
        if n.ref_kind == 'ParmVarDecl':
            if n.ref_id in fr['fn'].written:
                return None
            return fr['params'].get(n.ref_id)
        if n.ref_kind == 'VarDecl':
            d = fr['fn'].vardecl.get(n.ref_id)
            if d is None or n.ref_id in fr['fn'].written or not d.inner:
                return None
            init = d.inner[-1]
            if init.kind in ('InitListExpr',):
                return None
            return wrap(ev(init, fr), tyinfo(d.dtype))
        return None
    if k == 'UnaryOperator':
        v = ev(n.inner[0], fr)
        if v is None:
            return None
        ti = tyinfo(n.dtype)
        if n.opcode == '-':
            return wrap(-v, ti)
        if n.opcode == '~':
            return wrap(~v, ti)
        if n.opcode == '+':
            return wrap(v, ti)
        if n.opcode == '!':
            return int(v == 0)
        return None
    if k == 'ConditionalOperator':
        c = ev(n.inner[0], fr)
        if c is None:
            a, b = ev(n.inner[1], fr), ev(n.inner[2], fr)
            return a if (a is not None and a == b) else None
        return ev(n.inner[1] if c else n.inner[2], fr)
    if k == 'BinaryOperator':
        op = n.opcode
        if op == ',':
            return ev(n.inner[1], fr)
        a = ev(n.inner[0], fr)
        if op == '&&':
            if a is not None and not a:
                return 0
            b = ev(n.inner[1], fr)
            if b is not None and not b:
                return 0
            return None if (a is None or b is None) else 1
        if op == '||':
            if a is not None and a:
                return 1
            b = ev(n.inner[1], fr)
            if b is not None and b:
                return 1
            return None if (a is None or b is None) else 0
        b = ev(n.inner[1], fr)
        if a is None or b is None:
            return None
        ti = tyinfo(n.dtype)
        if op in ('==', '!=', '<', '<=', '>', '>='):
            return int({'==': a == b, '!=': a != b, '<': a < b, '<=': a <= b, '>': a > b, '>=': a >= b}[op])
        if ti is None:
            return None
        if op == '+':
            return wrap(a + b, ti)
        if op == '-':
            return wrap(a - b, ti)
        if op == '*':
            return wrap(a * b, ti)
        if op in ('/', '%'):
            if b == 0:
                return None
            q = abs(a) // abs(b) * (1 if (a < 0) == (b < 0) else -1)
            return wrap(q if op == '/' else a - q * b, ti)
        if op == '&':
            return wrap(a & b, ti)
        if op == '|':
            return wrap(a | b, ti)
        if op == '^':
            return wrap(a ^ b, ti)
        if op in ('<<', '>>'):
            b %= ti[0]          # what the host does
            return wrap(a << b if op == '<<' else a >> b, ti)
        return None
    return None


# ---------------------------------------------------------------------------------------------------------------------------------
# guards
def _terminates(s):
    """the statement never falls through to the statement after it"""
    if s is None:
        return False
    if s.kind in ('ReturnStmt', 'BreakStmt', 'ContinueStmt', 'GotoStmt'):
        return True
    if s.kind == 'CallExpr':
        return s.callee() in NORETURN
    if s.kind == 'CompoundStmt':
        ss = [c for c in s.inner if c.kind != 'NullStmt']
        return bool(ss) and _terminates(ss[-1])
    if s.kind == 'IfStmt' and len(s.inner) == 3:
        return _terminates(s.inner[1]) and _terminates(s.inner[2])
    return False


def _labels(s):
    """(case values, has default, statement below the labels)"""
    vals, dflt = [], False
    while s is not None and s.kind in ('CaseStmt', 'DefaultStmt'):
        if s.kind == 'DefaultStmt':
            dflt = True
        else:
            if len(s.inner) != 2:
                raise Skip('case range')
            try:
                v = ev(s.inner[0], {'fn': None, 'geo': {}, 'params': {}})
            except AttributeError:
                v = None
            if v is None:
                raise Skip('case value')
            vals.append(v)
        s = s.inner[-1]
    return vals, dflt, s


def guards(node, fdecl):
    """list of (condition node, sense) / ('switch', cond, values, negated) that hold whenever `node` is evaluated"""
    out = []
    child = node
    p = node.parent
    while p is not None and child is not fdecl:
        if p.kind in ('ConditionalOperator', 'IfStmt') and len(p.inner) >= 2:
            if child is p.inner[1]:
                out.append((p.inner[0], True))
            elif len(p.inner) > 2 and child is p.inner[2]:
                out.append((p.inner[0], False))
        elif p.kind == 'BinaryOperator' and p.opcode in ('&&', '||') and child is p.inner[1]:
            out.append((p.inner[0], p.opcode == '&&'))
        elif p.kind == 'CompoundStmt':
            idx = [i for i, c in enumerate(p.inner) if c is child]
            if idx:
                in_switch = p.parent is not None and p.parent.kind == 'SwitchStmt'
                for s in reversed(p.inner[:idx[0]]):
                    if s.kind in ('LabelStmt', 'CaseStmt', 'DefaultStmt'):
                        break
                    if s.kind == 'IfStmt' and len(s.inner) == 2 and _terminates(s.inner[1]):
                        out.append((s.inner[0], False))
                if in_switch:
                    try:
                        out.append(_switch_guard(p.parent, p, idx[0]))
                    except Skip:
                        pass
        child = p
        p = p.parent
    return out


def _switch_guard(sw, body, i):
    cond = [c for c in sw.inner if c is not body and c.kind not in ('DeclStmt',)][-1]
    mine, dflt = [], False
    j = i
    while j >= 0:
        s = body.inner[j]
        vals, d, below = _labels(s)
        mine += vals
        dflt = dflt or d
        if j == 0:
            break
        prev = body.inner[j - 1]
        _, _, pb = _labels(prev)
        if _terminates(pb):
            break
        j -= 1
    allv = []
    for s in body.inner:
        allv += _labels(s)[0]
    if dflt:
        return ('switch', cond, [v for v in allv if v not in mine], True)
    return ('switch', cond, mine, False)


def holds(g, fr):
    """False when the guard is known to exclude this frame"""
    if g[0] == 'switch':
        v = ev(g[1], fr)
        if v is None:
            return True
        return (v not in g[2]) if g[3] else (v in g[2])
    v = ev(g[0], fr)
    if v is None:
        return True
    return bool(v) == g[1]


# ---------------------------------------------------------------------------------------------------------------------------------
def deps(n, f, seen=None):
    """(geometry MemberExprs, parameter ids) the value of n depends on, through single-definition locals"""
    geo, par = [], set()
    seen = seen if seen is not None else set()
    for m in n.walk():
        if m.kind == 'MemberExpr' and m.name in FIELDS and m.inner:
            geo.append(m)
        elif m.kind == 'DeclRefExpr':
            if m.ref_kind == 'ParmVarDecl':
                par.add(m.ref_id)
            elif m.ref_kind == 'VarDecl' and m.ref_id in f.vardecl and m.ref_id not in seen:
                seen.add(m.ref_id)
                d = f.vardecl[m.ref_id]
                if d.inner:
                    g2, p2 = deps(d.inner[-1], f, seen)
                    geo += g2
                    par |= p2
    return geo, par


def chains(W, f, exprs, depth=0):
    """call chains that bind the parameters `exprs` depend on: list of lists of (Fn, site node, exprs needed in that frame); innermost first"""
    geo, par = [], set()
    for e in exprs:
        g, p = deps(e, f)
        geo += g
        par |= p
    pidx = [i for i, pd in enumerate(f.params) if pd.d.get('id') in par and pd.d.get('id') not in f.written and tyinfo(pd.dtype) is not None]
    here = (f, exprs, geo)
    if not pidx or depth >= MAXDEPTH or f.name in W.addr_taken:
        return [[here]]
    out = []
    for cf, call in W.callers.get(f.name, []):
        args = call.args()
        if len(args) < len(f.params):
            out.append([here])
            continue
        need = [args[i] for i in pidx] + [g[0] for g in guards(call, cf.decl) if g[0] != 'switch'] + [g[1] for g in guards(call, cf.decl) if g[0] == 'switch']
        for ch in chains(W, cf, need, depth + 1):
            out.append([here] + [(x[0], x[1], x[2], call) if x is ch[0] else x for x in ch])
    return out or [[here]]


def r_host_shifts(P, rep, rule):
    try:
        _r_host_shifts(P, rep, rule)
    except (AttributeError, TypeError, IndexError, KeyError, ValueError) as e:
        rep.undecided(rule, 'codegen.c:gen_expr:host-shift', 'the host-shift analysis met a construct it cannot interpret: %s: %s' % (type(e).__name__, e))


def _r_host_shifts(P, rep, rule):
    W = World(P)
    found = 0
    for fkey in sorted(W.fns):
        f = W.fns[fkey]
        sites = [n for n in f.decl.walk() if n.kind in ('BinaryOperator', 'CompoundAssignOperator') and n.opcode in SHIFTS and len(n.inner) == 2]
        per_key = {}
        for sh in sites:
            cnt = sh.inner[1]
            gs = guards(sh, f.decl)
            gexprs = [g[0] if g[0] != 'switch' else g[1] for g in gs]
            # in scope: the COUNT depends on a geometry field somewhere along a chain
            cnt_ch = chains(W, f, [cnt])
            if not any(any(fr[2] for fr in ch) for ch in cnt_ch):
                continue
            chs = chains(W, f, [cnt] + gexprs)
            where = '%s:%d' % (f.uname, sh.line)
            lt = tyinfo(sh.inner[0].dtype) if sh.kind == 'CompoundAssignOperator' else tyinfo(sh.dtype)
            names = sorted({m.name for ch in cnt_ch for fr in ch for m in fr[2]})
            ltxt = (sh.inner[0].dtype or '?').replace(' ', '-')
            key = '%s:%s:host-shift/%s%s/%s' % (f.uname, f.name, ltxt, sh.opcode, '+'.join(names))
            if lt is None:
                per_key.setdefault(key, []).append(('undecided', 'the type of the shifted operand (%s) is not an integer type the rule knows' % sh.inner[0].dtype, where))
                continue
            width = max(lt[0], 32)
            verdict = None
            for ch in chs:
                v = judge_chain(W, f, sh, cnt, gs, ch, width)
                if v[0] == 'bad':
                    verdict = v
                    break
                if v[0] == 'undecided' and verdict is None:
                    verdict = v
            if verdict is None:
                verdict = ('ok',)
            per_key.setdefault(key, []).append((verdict[0], verdict[1] if len(verdict) > 1 else '', where, sh))
        for key, vs in sorted(per_key.items()):
            found += 1
            bad = [v for v in vs if v[0] == 'bad']
            und = [v for v in vs if v[0] == 'undecided']
            if bad:
                rep.ob(rule, key, False, bad[0][1], where=bad[0][2])
            elif und:
                rep.undecided(rule, key, und[0][1], where=und[0][2])
            else:
                rep.ob(rule, key, True, '', where=vs[0][2])
    if found == 0:
        rep.undecided(rule, 'codegen.c:gen_expr:host-shift', 'no host shift with a count derived from Member.bit_width / Member.bit_offset was found in the compiler')


def judge_chain(W, f, sh, cnt, gs, ch, width):
    """enumerate the geometries of the bases mentioned along the chain"""
    # frames outermost first
    frames = list(reversed(ch))
    bases = []
    for fr in frames:
        for m in fr[2]:
            b = (fr[0].name, m.inner[0].src())
            if b not in bases:
                bases.append(b)
    if any(fr[0].stores_geometry for fr in frames):
        return ('undecided', '%s() both stores Member.bit_width / bit_offset and shifts by a value derived from them; the order is not analysed' % f.name)
    if len(bases) > 2:
        return ('undecided', 'the shift count depends on the geometry of %d different members' % len(bases))
    if not bases:
        return ('ok',)
    import itertools
    unknown = None
    for combo in itertools.product(DOMAIN, repeat=len(bases)):
        params = {}
        feasible = True
        for i, fr in enumerate(frames):
            fn = fr[0]
            geo = {b[1]: combo[j] for j, b in enumerate(bases) if b[0] == fn.name}
            frame = {'fn': fn, 'geo': geo, 'params': params}
            if i < len(frames) - 1:
                call = fr[3] if len(fr) > 3 else None
                if call is None:
                    params = {}
                    continue
                if not all(holds(g, frame) for g in guards(call, fn.decl)):
                    feasible = False
                    break
                callee = frames[i + 1][0]
                args = call.args()
                params = {}
                for k_, pd in enumerate(callee.params):
                    if k_ < len(args):
                        params[pd.d.get('id')] = wrap(ev(args[k_], frame), tyinfo(pd.dtype))
            else:
                if not all(holds(g, frame) for g in gs):
                    feasible = False
                    break
                c = ev(cnt, frame)
                if c is None:
                    unknown = combo
                elif c < 0 or c >= width:
                    geo_txt = ', '.join('%s: bit_width %d, bit_offset %d' % (b[1], g[0], g[1]) for b, g in zip(bases, combo))
                    via = ''.join(' called from %s()' % fr2[0].name for fr2 in reversed(frames[:-1]))
                    return ('bad', '%s()%s shifts a %d-bit host operand (`%s`) by `%s`, which is %d for a bit-field with %s, and no guard excludes that geometry: the count is %s; '
                                   'the host takes it modulo %d (1L << 64 is 1, 1 << 32 is 1), so the mask / merged word the compiler computes is wrong and the field is stored or initialised with a value '
                                   'that is not the C11 one' % (f.name, via, width, sh.src(), cnt.src(), c, geo_txt, 'negative' if c < 0 else 'not below the width of the operand', width))
        if not feasible:
            continue
    if unknown is not None:
        return ('undecided', 'the count `%s` of the host shift `%s` in %s() depends on a bit-field geometry but cannot be evaluated' % (cnt.src(), sh.src(), f.name))
    return ('ok',)
