"""C01 R01.14/R01.15/R01.16: what the parser builds for the unary operators, for ++/-- (prefix and postfix) and for operators on
bit-field operands, judged by *meaning*, not by shape.

The arms of unary()/postfix() (parse.c) are interpreted on abstract tokens with a concrete operand (a variable, or a bit-field member, of
each integer type); the lowering helpers (to_assign, new_add, new_sub, new_cast, new_inc_dec, ...) and add_type (type.c) run for real.
The resulting tree is then evaluated by a small reference evaluator of the node language (the meaning codegen.c gives each node kind:
C01 R01.5/R01.6, C04) on boundary values of the operand and compared with the value, the type and the side effect C11 prescribes:

  + - ~ !   6.5.3.3: integer promotions on the operand, result has the promoted type (int for !), the object is not modified
  ++x --x   6.5.3.1: x = x +/- 1 (converted to the type of x), value = the new value of x
  x++ x--   6.5.2.4: value = the value x had *before* (also when the conversion to the type of x is not invertible: _Bool, bit-fields),
            side effect as for the prefix form

A tree with a node kind the evaluator does not know is undecided, never a violation."""
import struct
from .interp import Interp, Obj, View, Cell, _Ref, VarPlace, Infeasible
from .lib_parse import TokenModel, OTHER
from .lib_types import Types, SIZE, UNS, FPR, promote
from .build import AnalysisBroken


class NotEvaluable(Exception):
    pass


class UnwrittenRead(Exception):
    """the tree reads a compiler temporary before anything was stored to it (every object of the program is initialised by the harness)"""


# ------------------------------------------------------------------ operand shapes ---
# name -> (declared type, bit-field width or None)
INT_OPERANDS = [(t, t, None) for t in ('bool', 'char', 'uchar', 'short', 'ushort', 'int', 'uint', 'long', 'ulong', 'enum')]
PTR_OPERAND = ('ptr', 'ptr', None)
BITFIELDS = [('bitfield-unsigned-3', 'uint', 3), ('bitfield-int-3', 'int', 3), ('bitfield-bool-1', 'bool', 1), ('bitfield-ulong-40', 'ulong', 40),
             ('bitfield-int-32', 'int', 32), ('bitfield-uchar-8', 'uchar', 8), ('bitfield-unsigned-31', 'uint', 31), ('bitfield-unsigned-32', 'uint', 32)]
FP_OPERANDS = [('float', 'float', None), ('double', 'double', None)]


def promoted(decl, width=None):
    """C11 6.3.1.1p2: the type an operand of this shape has after the integer promotions (bit-fields: by the values the width allows)"""
    if width is None or decl in FPR:
        return promote(decl)
    lo, hi = value_range(decl, width)
    if SIZE[decl] <= 4 and -(2 ** 31) <= lo and hi <= 2 ** 31 - 1:
        return 'int'
    return promote(decl)


# bit-fields of the types C11 itself gives a promotion rule for (_Bool, int, unsigned int)
C11_BITFIELDS = [('bitfield-unsigned-3', 'uint', 3), ('bitfield-unsigned-31', 'uint', 31), ('bitfield-unsigned-32', 'uint', 32), ('bitfield-int-3', 'int', 3),
                 ('bitfield-int-32', 'int', 32), ('bitfield-bool-1', 'bool', 1)]


def value_range(tname, width=None):
    if tname == 'bool':
        return 0, 1
    if tname == 'ptr':
        return 0, 2 ** 64 - 1
    bits = width if width is not None else SIZE[tname] * 8
    if tname in UNS:
        return 0, 2 ** bits - 1
    return -(2 ** (bits - 1)), 2 ** (bits - 1) - 1


def boundary_values(tname, width=None):
    if tname == 'float':
        return [0.0, 1.0, -1.0, f32(1e-10), 16777216.0, -16777216.0, 0.5]
    if tname == 'double':
        return [0.0, 1.0, -1.0, 1e-20, 9007199254740992.0, 0.5]
    lo, hi = value_range(tname, width)
    if tname == 'ptr':
        return [0x1000, 0x7ffffff8, 0xfffffff8, 0x7ffffffffff8]
    vs = {lo, lo + 1, hi - 1, hi, 0, 1, 2, -1, -2, 127, 128, 255, 256, 32767, 32768, 65535, 65536, 2 ** 31 - 1, 2 ** 31, 2 ** 32 - 1, 2 ** 32}
    return sorted(v for v in vs if lo <= v <= hi)


def f32(x):
    try:
        return struct.unpack('<f', struct.pack('<f', x))[0]
    except OverflowError:
        return float('inf') if x > 0 else float('-inf')


def conv(tname, v, width=None):
    """C11 6.3.1 conversion of the value v to the type tname (bit-field: to `width` bits)"""
    if isinstance(v, tuple):
        if tname in ('ptr', 'long', 'ulong'):
            return v                   # a reference kept in a pointer-sized object
        raise NotEvaluable('a pointer is converted to %s' % tname)
    if tname == 'bool':
        return int(v != 0)
    if tname == 'float':
        return f32(float(v))
    if tname == 'double':
        return float(v)
    if tname == 'ldouble':
        raise NotEvaluable('long double')
    if isinstance(v, float):
        if v != v or v in (float('inf'), float('-inf')):
            raise NotEvaluable('non-finite value converted to an integer')
        v = int(v)
    lo, hi = value_range(tname, width)
    n = hi - lo + 1
    return (v - lo) % n + lo


# ------------------------------------------------------------------ reference evaluator of the node language ---
class Evaluator:
    def __init__(self, it, T, E):
        self.it, self.T, self.E = it, T, E
        self.NK = {v: k for k, v in E.items() if k.startswith('ND_')}
        self.mem = {}
        self.reads = 0

    def kind(self, n):
        return self.NK.get(n.fields.get('kind'), '?')

    def node(self, n):
        if isinstance(n, View):
            n = self.it.settle(n)
        if not isinstance(n, Obj):
            raise NotEvaluable('operand %r is not a node' % (n,))
        return n

    def tname(self, n):
        ty = n.fields.get('ty')
        if isinstance(ty, View):
            ty = self.it.settle(ty)
        if not isinstance(ty, Obj):
            raise NotEvaluable('%s node without a type' % self.kind(n))
        c = self.T.classify(self.it, ty)
        if c not in SIZE and c not in FPR and c != 'ptr':
            raise NotEvaluable('%s node of type %s' % (self.kind(n), c))
        return c

    def bitfield(self, n):
        m = n.fields.get('member')
        if isinstance(m, View):
            m = self.it.settle(m)
        if isinstance(m, Obj) and m.fields.get('is_bitfield'):
            mt = self.T.classify(self.it, m.fields.get('ty'))
            return m, mt, m.fields.get('bit_width')
        return None

    def place(self, n):
        n = self.node(n)
        k = self.kind(n)
        if k == 'ND_VAR':
            v = n.fields.get('var')
            if not isinstance(v, Obj):
                raise NotEvaluable('variable node without a variable')
            return ('var', id(v))
        if k == 'ND_DEREF':
            p = self.eval(n.fields.get('lhs'))
            if not (isinstance(p, tuple) and p[0] == 'ref'):
                raise NotEvaluable('dereference of %r' % (p,))
            return p[1]
        if k == 'ND_MEMBER':
            m = n.fields.get('member')
            m = self.it.settle(m) if isinstance(m, View) else m
            return ('mem', self.place(n.fields.get('lhs')), id(m))
        if k == 'ND_COMMA':
            self.eval(n.fields.get('lhs'))
            return self.place(n.fields.get('rhs'))
        raise NotEvaluable('%s is not an lvalue the evaluator knows' % k)

    def load(self, n):
        p = self.place(n)
        if p not in self.mem:
            raise UnwrittenRead()
        self.reads += 1
        raw = self.mem[p]
        bf = self.bitfield(n) if self.kind(n) == 'ND_MEMBER' else None
        if bf:
            return conv(bf[1], raw, bf[2]) if bf[1] != 'bool' else (raw & 1)
        return raw

    def binop(self, k, t, a, b):
        if isinstance(a, tuple) or isinstance(b, tuple):
            raise NotEvaluable('arithmetic on a reference')
        if t in FPR:
            r = {'ND_ADD': lambda: a + b, 'ND_SUB': lambda: a - b, 'ND_MUL': lambda: a * b}.get(k)
            if r is None:
                raise NotEvaluable('%s on %s' % (k, t))
            return conv(t, r())
        a, b = conv(t, a), conv(t, b)        # the machine operation works on the node's width
        if k == 'ND_ADD':
            r = a + b
        elif k == 'ND_SUB':
            r = a - b
        elif k == 'ND_MUL':
            r = a * b
        elif k == 'ND_BITAND':
            r = a & b
        elif k == 'ND_BITOR':
            r = a | b
        elif k == 'ND_BITXOR':
            r = a ^ b
        elif k in ('ND_DIV', 'ND_MOD'):
            if b == 0:
                raise NotEvaluable('division by zero')
            q = abs(a) // abs(b) * (1 if (a < 0) == (b < 0) else -1)
            r = q if k == 'ND_DIV' else a - q * b
        else:
            raise NotEvaluable(k)
        return conv(t, r)

    def eval(self, n):
        n = self.node(n)
        k = self.kind(n)
        if k == 'ND_NULL_EXPR':
            return 0
        if k == 'ND_NUM':
            t = self.tname(n)
            return conv(t, n.fields.get('fval') if t in FPR else n.fields.get('val'))
        if k in ('ND_VAR', 'ND_DEREF', 'ND_MEMBER'):
            return self.load(n)
        if k == 'ND_ADDR':
            return ('ref', self.place(n.fields.get('lhs')))
        if k == 'ND_COMMA':
            self.eval(n.fields.get('lhs'))
            return self.eval(n.fields.get('rhs'))
        if k == 'ND_CAST':
            return conv(self.tname(n), self.eval(n.fields.get('lhs')))
        if k == 'ND_ASSIGN':
            lhs = self.node(n.fields.get('lhs'))
            v = self.eval(n.fields.get('rhs'))
            p = self.place(lhs)
            lt = self.tname(lhs)
            bf = self.bitfield(lhs) if self.kind(lhs) == 'ND_MEMBER' else None
            if bf:
                if isinstance(v, (tuple, float)):
                    raise NotEvaluable('non-integer stored to a bit-field')
                self.mem[p] = v % (2 ** bf[2])               # store of the low `width` bits
                return conv(bf[1], v, bf[2]) if bf[1] != 'bool' else (v & 1)
            if isinstance(v, tuple) or lt in FPR or isinstance(v, float):
                self.mem[p] = conv(lt, v)
                return v
            # store writes the low `size` bytes; the value of the expression is the right operand as computed
            self.mem[p] = conv(lt, v) if lt != 'bool' else conv('uchar', v)
            return v
        if k in ('ND_ADD', 'ND_SUB', 'ND_MUL', 'ND_DIV', 'ND_MOD', 'ND_BITAND', 'ND_BITOR', 'ND_BITXOR'):
            t = self.tname(n)
            return self.binop(k, 'ulong' if t == 'ptr' else t, self.eval(n.fields.get('lhs')), self.eval(n.fields.get('rhs')))
        if k == 'ND_NEG':
            t = self.tname(n)
            v = self.eval(n.fields.get('lhs'))
            return conv(t, -conv(t, v))
        if k == 'ND_BITNOT':
            t = self.tname(n)
            return conv(t, ~conv(t, self.eval(n.fields.get('lhs'))))
        if k == 'ND_NOT':
            v = self.eval(n.fields.get('lhs'))
            return int(v == 0)
        raise NotEvaluable('node kind %s' % k)


# ------------------------------------------------------------------ building the operand and the trees ---
class Builder:
    def __init__(self, P):
        self.P = P
        self.pu = P.unit('parse.c')
        self.T = Types(P)
        self.E = self.pu.enums
        for f in ('unary', 'postfix', 'new_inc_dec', 'to_assign', 'cast', 'primary'):
            if f not in self.pu.functions:
                raise AnalysisBroken('parse.c: %s vanished' % f)
        for k in ('ND_VAR', 'ND_MEMBER', 'ND_NUM', 'ND_CAST'):
            if k not in self.E:
                raise AnalysisBroken('enumerator %s vanished' % k)

    def operand(self, it, decl, width):
        T, E = self.T, self.E
        tok = Obj('Token', lazy=True, label='A.tok')
        if decl == 'ptr':
            ty = it.call_fn(*it.find_def('pointer_to'), [T.make(it, 'long')])
        else:
            ty = T.make(it, decl)
        if width is None:
            var = Obj('Obj', lazy=False, label='A.var', fields={'ty': ty, 'is_local': 1})
            leaf = Obj('Node', lazy=False, label='A', fields={'kind': E['ND_VAR'], 'ty': ty, 'tok': tok, 'var': var})
            return leaf
        sty = Obj('Type', lazy=False, label='struct S', fields={'kind': E['TY_STRUCT'], 'size': 16, 'align': 8, 'is_unsigned': 0, 'base': 0, 'is_atomic': 0})
        svar = Obj('Obj', lazy=False, label='S.var', fields={'ty': sty, 'is_local': 1})
        base = Obj('Node', lazy=False, label='S', fields={'kind': E['ND_VAR'], 'ty': sty, 'tok': tok, 'var': svar})
        mem = Obj('Member', lazy=False, label='A.member', fields={'ty': ty, 'is_bitfield': 1, 'bit_width': width, 'bit_offset': 3 if width <= 8 else 0, 'offset': 0, 'idx': 0, 'align': 1, 'next': 0})
        sty.fields['members'] = mem
        leaf = Obj('Node', lazy=False, label='A', fields={'kind': E['ND_MEMBER'], 'tok': tok, 'lhs': base, 'member': mem})
        return leaf

    def trees(self, fname, decl, width, operand_parsers):
        """{operator token: (interpreter, tree, operand leaf)} for the one-operator paths of unary()/postfix() on an operand of this shape"""
        box = {}
        tm = None

        def h_leaf(name):
            def h(it, ctx, n, args):
                leaf = self.operand(it, decl, width)
                ctx.c01_leaf = leaf
                ctx.c01_operands = getattr(ctx, 'c01_operands', 0) + 1
                ctx.emit('call', name, args, n.line, leaf)
                tm.advance(it, ctx, args[0], name)
                return leaf
            return h
        cut = {p: h_leaf(p) for p in operand_parsers}
        cut['is_typename'] = lambda it, ctx, n, a: 0
        opaque = [f for f in ('postfix', 'primary', 'funcall', 'expr', 'struct_ref', 'error_tok', 'new_unique_name', 'get_ident', 'cast', 'unary') if f not in cut and f != fname]
        def one_operator(it_, ctx, o, f, t):
            # the token after the operator is not an operator of this level: exactly one operator is applied on every path
            if o.tname == 'Token' and f == 'next':
                nxt = Obj('Token', lazy=True, label=(o.label or 'tok') + '.next')
                nxt.meta['spell'] = Cell([OTHER], nxt.label + '.spelling')
                return nxt
            return NotImplemented
        tm = TokenModel(self.P, self.pu, [fname], extra_opaque=opaque, cut=cut, forever_limit=2, lazy_field=one_operator)
        tm.cfg['models'] = {'new_lvar': lambda it_, ctx, n, a: Obj('Obj', lazy=False, label=ctx.fresh('tmp'), fields={'ty': a[1], 'name': a[0], 'is_local': 1})}
        if fname == 'postfix':
            tm.keys = [k for k in tm.keys if k in ('++', '--', '<other>')]     # only the inc/dec tails of postfix() are followed
        tm.cfg['rec_limit'] = 16          # add_type recurses over the built tree
        tm.cfg['max_depth'] = 120
        it = tm.interp()

        def mk(ctx):
            it.ctx = ctx
            return [_Ref(VarPlace({'rest': None}, 'rest')), tm.token('tok')]
        out = {}
        from .lib_exprparse import ops_taken
        for ctx, o in it.explore(fname, mk, max_paths=400):
            if o[0] != 'ret':
                continue
            ops = [x for x in ops_taken(ctx) if x != '<other>']
            if len(ops) != 1 or getattr(ctx, 'c01_operands', 0) != 1:
                continue
            it.ctx = ctx
            tree = o[1]
            tree = it.settle(tree) if isinstance(tree, View) else tree
            if not isinstance(tree, Obj):
                continue
            out.setdefault(ops[0], []).append((it, ctx, tree, ctx.c01_leaf))
        return out


def typed(it, ctx, tree):
    """run add_type (type.c) on the tree, as every consumer of the parser's result does"""
    it.ctx = ctx
    it.call_fn(*it.find_def('add_type'), [tree])


def judge(B, it, ctx, tree, leaf, decl, width, expect):
    """evaluate the tree on every boundary value of the operand; expect(x) -> (value, new value of the object).
    -> (ok, text) ; raises NotEvaluable"""
    typed(it, ctx, tree)
    for x in boundary_values(decl, width):
        ev = Evaluator(it, B.T, B.E)
        p = ev.place(leaf)
        ev.mem[p] = (x % (2 ** width)) if width is not None else x
        try:
            got = ev.eval(tree)
        except UnwrittenRead:
            return False, 'the expression reads a temporary of the lowering before anything is stored to it: its value is indeterminate', 'reads-unwritten-temporary'
        after = ev.load(leaf)
        want, want_after = expect(x)
        if isinstance(got, tuple):
            raise NotEvaluable('the result is a reference')
        if got != want or after != want_after:
            return False, 'for an operand holding %r the expression yields %r and leaves %r in the object; C11 prescribes the value %r and the object holding %r' % (x, got, after, want, want_after), \
                ('stored-value' if after != want_after else 'value')
    return True, '', None


def c_type_of(B, it, tree):
    ty = tree.fields.get('ty')
    return B.T.classify(it, ty) if ty is not None and not isinstance(ty, int) else None


UNARY_OPS = {'+': 'plus', '-': 'minus', '~': 'complement', '!': 'not'}


def r_unary_operators(P, rep, rule, which='int'):
    """R01.14: + - ~ ! through unary() and add_type, every integer operand type"""
    B = Builder(P)
    where = 'parse.c:%d' % B.pu.fn('unary').line
    shapes = (INT_OPERANDS + C11_BITFIELDS) if which == 'int' else FP_OPERANDS
    for name, decl, width in shapes:
        try:
            trees = B.trees('unary', decl, width, ('cast', 'unary'))
        except AnalysisBroken as e:
            rep.undecided(rule, 'parse.c:unary:operators/%s' % name, 'unary() not explorable: %s' % e, where=where)
            continue
        for op, oname in UNARY_OPS.items():
            if which != 'int' and op in ('~',):
                continue
            key = 'parse.c:unary:%s/%s' % (oname, name)
            cands = trees.get(op, [])
            if len(cands) != 1:
                if not cands:
                    rep.ob(rule, key, False, 'unary() has no arm that takes the operator `%s` with one operand' % op, where=where)
                else:
                    rep.undecided(rule, key, 'unary() has %d paths for the operator `%s`' % (len(cands), op), where=where)
                continue
            it, ctx, tree, leaf = cands[0]
            pt = promoted(decl, width)
            want_t = 'int' if op == '!' else pt

            def expect(x, op=op, pt=pt):
                if op == '+':
                    return conv(pt, x), x
                if op == '-':
                    return conv(pt, -conv(pt, x)), x
                if op == '~':
                    return conv(pt, ~conv(pt, x)), x
                return int(x == 0), x
            try:
                ok, text, tag = judge(B, it, ctx, tree, leaf, decl, width, expect)
                got_t = c_type_of(B, it, tree)
            except NotEvaluable as e:
                rep.undecided(rule, key, 'the tree built for `%s x` is not evaluable: %s' % (op, e), where=where)
                continue
            except AnalysisBroken as e:
                rep.undecided(rule, key, 'add_type not interpretable on the tree built for `%s x`: %s' % (op, e), where=where)
                continue
            # violation keys name what is wrong (one key per kind of defect, not per operand type)
            klass = 'bit-field' if width is not None else ('integer' if which == 'int' else 'floating')
            if got_t != want_t:
                value_text = '' if ok else '; ' + text
                ok = False
                text = 'the expression has type %s%s; C11 6.5.3.3: the integer promotions are performed on the operand and the result has the promoted type %s (sizeof, _Generic and the usual arithmetic conversions of the enclosing expression see the wrong type)%s' % (
                    got_t, ' (the operand itself is returned: no node is built for the operator)' if tree is leaf else '', want_t, value_text)
                key = 'parse.c:unary:%s/%s:%s' % (oname, klass, 'operand-type-kept' if got_t == decl else 'type-%s-for-%s' % (got_t, name))
            elif not ok:
                key += ':' + tag
            rep.ob(rule, key, ok, '`%s x` with x of type %s: %s' % (op, name, text), where=where)


def expect_incdec(decl, width, k, postfix):
    step = 8 * k if decl == 'ptr' else k            # the pointer operand points to 8-byte elements
    def expect(x):
        if decl in FPR:
            new = conv(decl, x + k)
        elif decl == 'ptr':
            new = conv('ptr', x + step)
        else:
            new = conv(decl, conv(promote(decl), x) + k, width)
        return (x if postfix else new), new
    return expect


def r_incdec(P, rep, rule, which='int'):
    """R01.15: prefix and postfix ++/-- on every integer object type, bit-fields and pointers"""
    B = Builder(P)
    shapes = (INT_OPERANDS + [PTR_OPERAND] + BITFIELDS) if which == 'int' else FP_OPERANDS
    for fname, postfix, parsers in (('unary', False, ('cast', 'unary')), ('postfix', True, ('primary',))):
        where = 'parse.c:%d' % B.pu.fn('new_inc_dec' if postfix else 'unary').line
        for name, decl, width in shapes:
            try:
                trees = B.trees(fname, decl, width, parsers)
            except AnalysisBroken as e:
                rep.undecided(rule, 'parse.c:%s:inc-dec/%s' % (fname, name), '%s() not explorable: %s' % (fname, e), where=where)
                continue
            for op, k in (('++', 1), ('--', -1)):
                form = ('postfix' if postfix else 'prefix') + ('-increment' if k == 1 else '-decrement')
                key = 'parse.c:%s:%s/%s' % (fname, form, name)
                cands = trees.get(op, [])
                if len(cands) != 1:
                    if not cands:
                        rep.ob(rule, key, False, '%s() has no arm for the operator `%s`' % (fname, op), where=where)
                    else:
                        rep.undecided(rule, key, '%s() has %d paths for the operator `%s`' % (fname, len(cands), op), where=where)
                    continue
                it, ctx, tree, leaf = cands[0]
                try:
                    ok, text, tag = judge(B, it, ctx, tree, leaf, decl, width, expect_incdec(decl, width, k, postfix))
                    got_t = c_type_of(B, it, tree)
                except NotEvaluable as e:
                    rep.undecided(rule, key, 'the tree built for `%s` is not evaluable: %s' % (('x' + op) if postfix else (op + 'x'), e), where=where)
                    continue
                except AnalysisBroken as e:
                    rep.undecided(rule, key, 'add_type not interpretable on the tree: %s' % e, where=where)
                    continue
                want_t = 'int' if decl == 'enum' else decl
                klass = 'bit-field' if width is not None else (decl if decl in ('bool', 'ptr') or decl in FPR else 'integer')
                lost = False
                if ok and width is None and got_t != want_t:
                    ok = False
                    text = 'the expression has type %s, C11 6.5.2.4p2/6.5.3.1p2: the type of the operand (%s)' % (got_t, want_t)
                    key += ':type'
                elif not ok:
                    lost = postfix and tag == 'value'
                    key = 'parse.c:%s:%s/%s:%s' % (fname, form, klass, 'old-value-lost' if lost else tag) if (lost or klass != 'integer') else key + ':' + tag
                src = ('x' + op) if postfix else (op + 'x')
                rep.ob(rule, key, ok, '`%s` with x of type %s: %s%s' % (src, name, text,
                       ' (the old value is recomputed from the new one, which is not possible when the conversion to the operand\'s type cannot be undone)' if lost else ''), where=where)


# ------------------------------------------------------------------ bit-field operands of the binary operators ---
def r_bitfield_operands(P, rep, rule):
    """R01.16: add_type on an operator whose operand is a bit-field member: the operand takes part with its promoted type"""
    from .lib_types import common
    B = Builder(P)
    T, E = B.T, B.E
    where = 'type.c:%d' % T.tu.fn('add_type').line
    NK = {v: k for k, v in E.items() if k.startswith('ND_')}
    BIN = ['ND_ADD', 'ND_SUB', 'ND_MUL', 'ND_DIV', 'ND_MOD', 'ND_BITAND', 'ND_BITOR', 'ND_BITXOR']
    CMP = ['ND_EQ', 'ND_NE', 'ND_LT', 'ND_LE']
    for k in BIN + CMP + ['ND_SHL', 'ND_SHR', 'ND_COND']:
        if k not in E:
            raise AnalysisBroken('enumerator %s vanished' % k)

    def outer_type(it, n, leaf):
        """n must be the leaf under conversions only: -> type class the operand takes part with"""
        n = it.settle(n) if isinstance(n, View) else n
        t = None
        d = 0
        while isinstance(n, Obj) and n is not leaf and n.fields.get('kind') == E['ND_CAST'] and d < 6:
            t = t or T.classify(it, n.fields.get('ty'))
            n = n.fields.get('lhs')
            n = it.settle(n) if isinstance(n, View) else n
            d += 1
        if n is not leaf:
            raise NotEvaluable('the operand is no longer the bit-field under conversions')
        return t or T.classify(it, leaf.fields.get('ty'))

    CLASSES = [('arithmetic', [(k, 'int', 'lhs') for k in BIN] + [('ND_SUB', 'int', 'rhs'), ('ND_ADD', 'long', 'lhs'), ('ND_MUL', 'ulong', 'lhs')]),
               ('comparison', [(k, 'int', 'lhs') for k in ('ND_LT', 'ND_LE')] + [('ND_LT', 'int', 'rhs'), ('ND_LT', 'uint', 'lhs')]),
               ('shift', [('ND_SHL', 'int', 'lhs'), ('ND_SHR', 'int', 'lhs')]), ('conditional', [('ND_COND', 'int', 'then')])]
    for name, decl, width in C11_BITFIELDS:
        pt = promoted(decl, width)
        for cname, cases in CLASSES:
            key = 'type.c:add_type:bit-field-operand/%s/%s' % (name, cname)
            bad = []
            undec = None
            for kind, other, side in cases:
                it = T.interp(opaque=['error_tok'], rec_limit=16, max_depth=120)
                box = {}

                def mk(ctx, kind=kind, other=other, side=side):
                    it.ctx = ctx
                    leaf = B.operand(it, decl, width)
                    o = Obj('Node', lazy=False, label='B', fields={'kind': E['ND_VAR'], 'ty': T.make(it, other), 'tok': leaf.fields['tok']})
                    n = Obj('Node', lazy=False, label='node', fields={'kind': E[kind], 'tok': leaf.fields['tok']})
                    if kind == 'ND_COND':
                        n.fields['cond'] = Obj('Node', lazy=False, label='C', fields={'kind': E['ND_VAR'], 'ty': T.make(it, 'int'), 'tok': leaf.fields['tok']})
                        n.fields['then'] = leaf; n.fields['els'] = o
                    else:
                        n.fields[side] = leaf
                        n.fields['rhs' if side == 'lhs' else 'lhs'] = o
                    box.update(n=n, leaf=leaf, o=o)
                    return [n]
                try:
                    outs = [(c, o) for c, o in it.explore('add_type', mk) if o[0] == 'ret']
                except AnalysisBroken as e:
                    undec = 'add_type not interpretable on %s: %s' % (kind, e); break
                if len(outs) != 1:
                    undec = 'add_type has %d returning paths on %s' % (len(outs), kind); break
                n, leaf = box['n'], box['leaf']
                try:
                    got_op = outer_type(it, n.fields.get(side), leaf)
                except NotEvaluable as e:
                    undec = '%s: %s' % (kind, e); break
                nt = T.classify(it, n.fields.get('ty'))
                if kind in ('ND_SHL', 'ND_SHR'):
                    want_op = pt; want_nt = pt
                else:
                    want_op = common(pt, other); want_nt = 'int' if kind in CMP else want_op
                if not (got_op == want_op and nt == want_nt):
                    bad.append('%s with %s %s: operand taken as %s, result %s (C11: %s, %s)' % (kind, other, 'on the right' if side in ('lhs', 'then') else 'on the left', got_op, nt, want_op, want_nt))
            if undec:
                rep.undecided(rule, key, undec, where=where); continue
            if bad:
                key = 'type.c:add_type:bit-field-operand/%s:not-promoted-to-int' % cname
            rep.ob(rule, key, not bad, 'a bit-field `%s : %d` as operand: %s. C11 6.3.1.1p2 promotes a bit-field whose values all fit an int to int (the width, not the declared type, decides) - '
                   'e.g. `s.u - 2 < 0` is true for `unsigned u : 3` holding 1' % ({'uint': 'unsigned', 'bool': '_Bool'}.get(decl, decl), width, '; '.join(bad)), where=where)


# ------------------------------------------------------------------ expressions whose value is a bit-field ---
VALUE_FORMS = [('simple-assignment', 'x = b', 'C11 6.5.16p3: an assignment expression has the type the left operand would have after lvalue conversion'),
               ('comma', '(b, x)', 'C11 6.5.17p2: the result of the comma operator has the type and value of its right operand'),
               ('compound-assignment', '++x / x += b', 'C11 6.5.16.2p3 and 6.5.3.1p2: x op= b and ++x are equivalent to x = x op b'),
               ('postfix-increment', 'x++', 'C11 6.5.2.4p2: the result of postfix ++ is the value of the operand'),
               ('explicit-cast', '(T)x', 'C11 6.5.4p5: a cast converts the value to the named type; the result is no bit-field any more'),
               ('gnu-conditional', 'x ?: b', 'GNU C (Conditionals with Omitted Operands): x ?: b is x ? x : b with x evaluated once; the second operand of ?: undergoes the integer promotions (6.5.15p5)'),
               ('statement-expression', '({ x; })', 'GNU C (Statement Exprs): the value of the last expression statement is the value of the construct, with its type')]


def gnu_conditional_trees(B, decl, width):
    """the trees conditional() (parse.c) builds for `x ?: b` with x an operand of the given shape (first operand parsed) and b an int variable:
    [(interpreter, ctx, tree)]. The operand parser of the level (logor) is cut; conditional() itself, new_lvar's callers, new_var_node, new_binary
    and add_type run for real."""
    T, E = B.T, B.E
    pu = B.pu
    for f in ('conditional', 'logor'):
        if f not in pu.functions:
            raise AnalysisBroken('parse.c: %s vanished' % f)
    tm = None

    def h_operand(it, ctx, n, args):
        k = getattr(ctx, 'c01_operands', 0)
        ctx.c01_operands = k + 1
        if k == 0:
            node = B.operand(it, decl, width)
            ctx.c01_leaf = node
        else:
            tok = Obj('Token', lazy=True, label=ctx.fresh('B.tok'))
            node = Obj('Node', lazy=False, label=ctx.fresh('B'), fields={'kind': E['ND_VAR'], 'ty': T.make(it, 'int'), 'tok': tok,
                                                                        'var': Obj('Obj', lazy=False, label=ctx.fresh('B.var'), fields={'ty': T.make(it, 'int'), 'is_local': 1})})
        ctx.emit('call', 'logor', args, n.line, node)
        nxt = Obj('Token', lazy=True, label=ctx.fresh('tok.after.logor'))
        if k > 0:
            nxt.meta['spell'] = Cell([OTHER], nxt.label + '.spelling')       # the expression ends after the second operand
        tm._store_rest(it, args[0], nxt)
        return node
    opaque = [f for f in ('expr', 'error_tok', 'new_unique_name') if f in pu.functions]
    tm = TokenModel(B.P, pu, ['conditional'], extra_opaque=opaque, cut={'logor': h_operand}, forever_limit=2)
    tm.cfg['models'] = {'new_lvar': lambda it_, ctx, n, a: Obj('Obj', lazy=False, label=ctx.fresh('tmp'), fields={'ty': a[1], 'name': a[0], 'is_local': 1})}
    tm.cfg['rec_limit'] = 16
    tm.cfg['max_depth'] = 120
    it = tm.interp()

    def mk(ctx):
        it.ctx = ctx
        return [_Ref(VarPlace({'rest': None}, 'rest')), tm.token('tok')]
    from .lib_exprparse import ops_taken
    out = []
    for ctx, o in it.explore('conditional', mk, max_paths=200):
        if o[0] != 'ret':
            continue
        if [x for x in ops_taken(ctx) if x != '<other>'] != ['?', ':'] or getattr(ctx, 'c01_operands', 0) != 2:
            continue
        if any(e[0] == 'call' and e[1] == 'expr' for e in ctx.events):
            continue                                   # x ? y : b with a middle operand: not the GNU form
        tree = it.settle(o[1]) if isinstance(o[1], View) else o[1]
        if isinstance(tree, Obj):
            out.append((it, ctx, tree))
    return out


def r_bitfield_values(P, rep, rule):
    """R01.16 (second half): an expression that yields the value of a bit-field without being the member access itself (the operators whose result
    has 'the type of' an operand: = op= ++ -- and the comma operator) is promoted like the bit-field (C11 6.7.2.1p10: a bit-field has an integer
    type of `width` bits; 6.3.1.1p2: an int if int holds all its values), while an explicit cast to the declared type is not.
    Decided on the trees the lowering helpers build (to_assign, new_inc_dec run for real) with add_type run on `<form> - b` and `<form> < b`."""
    from .lib_types import common
    B = Builder(P)
    T, E = B.T, B.E
    where = 'type.c:%d' % T.tu.fn('add_type').line
    for k in ('ND_SUB', 'ND_LT', 'ND_ASSIGN', 'ND_COMMA', 'ND_CAST', 'ND_VAR'):
        if k not in E:
            raise AnalysisBroken('enumerator %s vanished' % k)

    def operand_class(it, n, inner):
        """class of the type `inner` takes part with: the outermost conversion wrapped around it by add_type"""
        n = it.settle(n) if isinstance(n, View) else n
        t, d = None, 0
        while isinstance(n, Obj) and n is not inner and n.fields.get('kind') == E['ND_CAST'] and d < 6:
            t = t or T.classify(it, n.fields.get('ty'))
            n = n.fields.get('lhs')
            n = it.settle(n) if isinstance(n, View) else n
            d += 1
        if n is not inner:
            raise NotEvaluable('the operand is no longer the expression under conversions')
        return t or T.classify(it, inner.fields.get('ty'))

    for name, decl, width in C11_BITFIELDS:
        pt = promoted(decl, width)
        forms = {}
        try:
            pre = B.trees('unary', decl, width, ('cast', 'unary')).get('++', [])
            post = B.trees('postfix', decl, width, ('primary',)).get('++', [])
        except AnalysisBroken as e:
            rep.undecided(rule, 'type.c:add_type:bit-field-valued/%s' % name, 'unary()/postfix() not explorable: %s' % e, where=where)
            continue
        if len(pre) == 1:
            forms['compound-assignment'] = pre[0][:3]
        if len(post) == 1:
            forms['postfix-increment'] = post[0][:3]
        if pre:
            it, ctx = pre[0][0], pre[0][1]
            it.ctx = ctx
            for form in ('simple-assignment', 'comma', 'explicit-cast'):
                leaf = B.operand(it, decl, width)
                tok = leaf.fields['tok']
                o = Obj('Node', lazy=False, label='B', fields={'kind': E['ND_VAR'], 'ty': T.make(it, 'int'), 'tok': tok})
                if form == 'simple-assignment':
                    f = Obj('Node', lazy=False, label='F', fields={'kind': E['ND_ASSIGN'], 'lhs': leaf, 'rhs': o, 'tok': tok})
                elif form == 'comma':
                    f = Obj('Node', lazy=False, label='F', fields={'kind': E['ND_COMMA'], 'lhs': o, 'rhs': leaf, 'tok': tok})
                else:
                    f = Obj('Node', lazy=False, label='F', fields={'kind': E['ND_CAST'], 'lhs': leaf, 'ty': T.make(it, decl), 'tok': tok})
                forms[form] = (it, ctx, f)
            for k in ('ND_STMT_EXPR', 'ND_EXPR_STMT'):
                if k not in E:
                    raise AnalysisBroken('enumerator %s vanished' % k)
            leaf = B.operand(it, decl, width)
            tok = leaf.fields['tok']
            st = Obj('Node', lazy=False, label='F.stmt', fields={'kind': E['ND_EXPR_STMT'], 'lhs': leaf, 'tok': tok, 'next': 0})
            forms['statement-expression'] = (it, ctx, Obj('Node', lazy=False, label='F', fields={'kind': E['ND_STMT_EXPR'], 'body': st, 'tok': tok}))
        try:
            gc = gnu_conditional_trees(B, decl, width)
        except AnalysisBroken as e:
            gc = []
        if len(gc) == 1:
            forms['gnu-conditional'] = gc[0]
        for form, text, clause in VALUE_FORMS:
            key = 'type.c:add_type:bit-field-valued/%s/%s' % (name, form)
            if form not in forms:
                rep.undecided(rule, key, 'no single tree found for the form %s' % text, where=where)
                continue
            it, ctx, f = forms[form]
            vt = decl if form == 'explicit-cast' else pt          # type the value takes part with after the integer promotions
            bad = []
            try:
                for kind, other in (('ND_SUB', 'int'), ('ND_LT', 'int'), ('ND_SUB', 'long')):
                    it.ctx = ctx
                    tok = Obj('Token', lazy=True, label='op.tok')
                    o = Obj('Node', lazy=False, label='B', fields={'kind': E['ND_VAR'], 'ty': T.make(it, other), 'tok': tok})
                    # each use gets its own copy of the top node only when the form is shared: add_type is idempotent on typed nodes
                    n = Obj('Node', lazy=False, label='node', fields={'kind': E[kind], 'lhs': f, 'rhs': o, 'tok': tok})
                    typed(it, ctx, n)
                    got_op = operand_class(it, n.fields.get('lhs'), f)
                    nt = T.classify(it, n.fields.get('ty'))
                    want_op = common(vt, other)
                    want_nt = 'int' if kind == 'ND_LT' else want_op
                    if (got_op, nt) != (want_op, want_nt):
                        bad.append('%s with %s on the right: operand taken as %s, result %s (C11: %s, %s)' % (kind, other, got_op, nt, want_op, want_nt))
            except NotEvaluable as e:
                rep.undecided(rule, key, str(e), where=where)
                continue
            except (AnalysisBroken, Infeasible) as e:
                rep.undecided(rule, key, 'add_type not interpretable on the tree built for %s: %s' % (text, e), where=where)
                continue
            if bad:
                key = 'type.c:add_type:bit-field-valued/%s:%s' % (form, 'not-promoted-to-int' if vt == 'int' else 'promoted-despite-%s' % vt)
            rep.ob(rule, key, not bad, 'the expression %s with x a bit-field `%s : %d`: %s. %s; a bit-field has an integer type of `width` bits (6.7.2.1p10) which 6.3.1.1p2 promotes to int when int '
                   'holds all its values - e.g. `(s.u = 7) - 8 < 0` is true for `unsigned u : 3`' % (text, {'uint': 'unsigned', 'bool': '_Bool'}.get(decl, decl), width, '; '.join(bad), clause), where=where)


# ------------------------------------------------------------------ the size of a variable length array type ---
VLA_LEN_TYPES = ['bool', 'char', 'uchar', 'short', 'ushort', 'int', 'uint', 'long', 'ulong', 'enum']
BIG_ELEMENT = 1 << 20


def r_vla_size_arith(P, rep, rule):
    """R01.17: the size of a VLA type (what sizeof yields and what is allocated) is length * element size computed in size_t (C11 6.5.3.4p2,p5),
    whatever the integer type of the length expression. compute_vla_size runs for real on a VLA type whose length is a variable of each
    integer type; the returned tree, typed by add_type, is evaluated on boundary lengths and the value left in the type's size variable is
    compared with the mathematical product (whenever that fits an object: < 2^63)."""
    B = Builder(P)
    T, E, pu = B.T, B.E, B.pu
    fn = 'compute_vla_size'
    if fn not in pu.functions:
        raise AnalysisBroken('parse.c: %s vanished' % fn)
    for k in ('TY_VLA', 'TY_ARRAY', 'ND_NULL_EXPR'):
        if k not in E:
            raise AnalysisBroken('enumerator %s vanished' % k)
    where = 'parse.c:%d' % pu.fn(fn).line
    for lt in VLA_LEN_TYPES:
        for shape in ('int-elements', 'large-elements', 'vla-of-vla'):
            key = 'parse.c:%s:size-in-size_t/%s-length/%s' % (fn, lt, shape)
            it = Interp(P, pu, {'opaque': ['new_unique_name', 'error_tok'], 'rec_limit': 16, 'max_depth': 120,
                                'models': {'new_lvar': lambda it_, ctx, n, a: Obj('Obj', lazy=False, label=ctx.fresh('tmp'), fields={'ty': a[1], 'name': a[0], 'is_local': 1})}})
            box = {}

            def mk(ctx, lt=lt, shape=shape):
                it.ctx = ctx
                tok = Obj('Token', lazy=True, label='tok')
                if shape == 'large-elements':
                    el = Obj('Type', lazy=False, label='char[%d]' % BIG_ELEMENT, fields={'kind': E['TY_ARRAY'], 'size': BIG_ELEMENT, 'align': 1, 'is_unsigned': 0, 'is_atomic': 0,
                                                                                      'base': T.make(it, 'char'), 'array_len': BIG_ELEMENT, 'vla_len': 0, 'vla_size': 0})
                    esz = BIG_ELEMENT
                else:
                    el = T.make(it, 'int')
                    esz = 4
                lens, tys, base = [], [], el
                for d in range(2 if shape == 'vla-of-vla' else 1):
                    lty = T.make(it, lt)
                    var = Obj('Obj', lazy=False, label='n%d' % d, fields={'ty': lty, 'is_local': 1, 'name': 'n%d' % d})
                    ln = Obj('Node', lazy=False, label='len%d' % d, fields={'kind': E['ND_VAR'], 'var': var, 'tok': tok})
                    t = Obj('Type', lazy=False, label='vla%d' % d, fields={'kind': E['TY_VLA'], 'size': 8, 'align': 8, 'is_unsigned': 0, 'is_atomic': 0, 'base': base, 'vla_len': ln, 'vla_size': 0, 'array_len': 0})
                    lens.append(ln); tys.append(t); base = t
                box.update(lens=lens, tys=tys, esz=esz)
                return [tys[-1], tok]
            try:
                outs = [(ctx, out[1]) for ctx, out in it.explore(fn, mk) if out[0] == 'ret']
                if len(outs) != 1:
                    rep.undecided(rule, key, '%s has %d returning paths' % (fn, len(outs)), where=where)
                    continue
                ctx, tree = outs[0]
                tree = it.settle(tree) if isinstance(tree, View) else tree
                typed(it, ctx, tree)
            except AnalysisBroken as e:
                rep.undecided(rule, key, '%s / add_type not interpretable: %s' % (fn, e), where=where)
                continue
            lens, tys, esz = box['lens'], box['tys'], box['esz']
            lo, hi = value_range(lt)
            xs = [v for v in boundary_values(lt) if v >= 1]
            combos = [(x,) for x in xs] if len(lens) == 1 else [(x, y) for x in xs for y in xs]
            bad = None
            undec = None
            n_eval = 0
            for combo in combos:
                want = esz
                for x in combo:
                    want *= x
                if want >= 2 ** 63:
                    continue                      # no object of that size: nothing prescribed
                ev = Evaluator(it, T, E)
                try:
                    for ln, x in zip(lens, combo):
                        ev.mem[ev.place(ln)] = x
                    ev.eval(tree)
                    sv = tys[-1].fields.get('vla_size')
                    sv = it.settle(sv) if isinstance(sv, View) else sv
                    if not isinstance(sv, Obj):
                        bad = ('no-size-variable', 'the type has no size variable after compute_vla_size'); break
                    p = ('var', id(sv))
                    if p not in ev.mem:
                        bad = ('size-variable-not-set', 'the expression does not store to the size variable of the type'); break
                    got = ev.mem[p]
                except UnwrittenRead:
                    bad = ('reads-unwritten-variable', 'the expression reads a variable before anything is stored to it'); break
                except NotEvaluable as e:
                    undec = str(e); break
                n_eval += 1
                if got != want:
                    mul_t = None
                    bad = ('product-not-computed-in-size_t', 'for %s the size variable receives %d; C11 prescribes %d (the product is computed in a type narrower than size_t and wraps)' % (
                        ' x '.join(['%d' % x for x in combo] + ['%d-byte elements' % esz]), got, want))
                    break
            if undec:
                rep.undecided(rule, key, 'the tree built by %s is not evaluable: %s' % (fn, undec), where=where)
                continue
            if not bad and n_eval == 0:
                rep.undecided(rule, key, 'no boundary length evaluated', where=where)
                continue
            if bad:
                key = 'parse.c:%s:size-in-size_t/%s:%s' % (fn, shape, bad[0])
            rep.ob(rule, key, not bad, 'sizeof / allocation of a variable length array whose length has type %s: %s' % (lt, bad[1] if bad else ''), where=where)
