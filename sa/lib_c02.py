"""C02 private helper.

(1) Value semantics of the trees the parser builds for `A++`, `A--` and `A op= B` when a floating type is involved: the lowering
    (new_inc_dec / to_assign of parse.c) is interpreted by Engine I on a concrete operand tree, add_type() types the result, and a small
    evaluator walks the typed tree over a symbolic store.  Floating arithmetic is an uninterpreted (rounding) operation: `(x + 1) - 1` is NOT
    `x`.  Integer arithmetic is modular and folds.
(2) include/float.h against the formats the compiler gives float / double / long double (C11 5.2.4.2.2): clang is only the reader of the
    header (macro definitions, type and value of each expansion); the prescribed values are computed here from (precision, emin, emax).
"""
import json, os, re, subprocess
from .build import AnalysisBroken
from .interp import Interp, Obj, View, Sym
from .lib_types import Types, common

FPP = {'float': 24, 'double': 53, 'ldouble': 64}          # precision in bits (long double: x87 extended, established by r_float_h's format check)
INTBITS = {'bool': 1, 'char': 8, 'uchar': 8, 'short': 16, 'ushort': 16, 'int': 32, 'uint': 32, 'long': 64, 'ulong': 64, 'ptr': 64}


class Undecidable(Exception):
    pass


class Diagnosed(Exception):
    """the parser rejects the operand (error_tok): nothing is compiled, so nothing can be miscompiled"""


# ------------------------------------------------------------------------------------------------------------- terms
def num(c, ty):
    return ('num', c, ty)


def conv(to, frm, v):
    """value v of type frm converted to type to"""
    if to == frm:
        return v
    if to == 'ptr' and frm == 'ptr':
        return v
    if v[0] == 'num' and isinstance(v[1], int):
        c = v[1]
        if to in FPP and abs(c) < (1 << 24):
            return num(c, to)                              # small integers are exact in every floating format
        if to in INTBITS and to != 'bool' and frm in INTBITS and abs(c) < 127:
            return num(c, to) if (c >= 0 or to not in ('uchar', 'ushort', 'uint', 'ulong')) else ('conv', to, frm, v)
    if v[0] == 'conv' and v[1] == frm and v[2] == to and to in FPP and frm in FPP and FPP[frm] >= FPP[to]:
        return v[3]                                        # widening and narrowing back is the identity
    return ('conv', to, frm, v)


def binop(op, ty, l, r):
    if op == 'sub' and r[0] == 'num' and isinstance(r[1], int):
        op, r = 'add', num(-r[1], r[2])                    # x - c is x + (-c), exactly, in integer and IEEE arithmetic alike
    if op in ('add', 'mul') and l[0] == 'num' and r[0] != 'num':
        l, r = r, l
    if l[0] == 'num' and r[0] == 'num' and isinstance(l[1], int) and isinstance(r[1], int) and ty in INTBITS and op in ('add', 'mul'):
        return num(l[1] + r[1] if op == 'add' else l[1] * r[1], ty)
    if ty in INTBITS and ty != 'bool' and op == 'add' and r[0] == 'num' and l[0] == 'bin' and l[1] == 'add' and l[2] == ty and l[4][0] == 'num':
        c = l[4][1] + r[1]                                  # modular arithmetic is a group: (x + a) + b = x + (a + b)
        return l[3] if c == 0 else ('bin', 'add', ty, l[3], num(c, ty))
    if ty in INTBITS and op == 'add' and r == num(0, ty):
        return l
    if op in ('add', 'mul') and l[0] != 'num' and r[0] != 'num' and repr(r) < repr(l):
        l, r = r, l                                         # + and * commute, in IEEE arithmetic too
    return ('bin', op, ty, l, r)


def show(t):
    if not isinstance(t, tuple):
        return repr(t)
    if t[0] == 'num':
        return '%r:%s' % (t[1], t[2])
    if t[0] == 'x0':
        return 'old(%s)' % show_loc(t[1])
    if t[0] == 'conv':
        return '(%s)%s' % (t[1], show(t[3]))
    if t[0] == 'bin':
        return '(%s %s:%s %s)' % (show(t[3]), {'add': '+', 'sub': '-', 'mul': '*', 'div': '/'}.get(t[1], t[1]), t[2], show(t[4]))
    if t[0] == 'ptr':
        return '&' + show_loc(t[1])
    return repr(t)


def show_loc(l):
    if l[0] == 'var':
        return l[1]
    if l[0] == 'member':
        return show_loc(l[1]) + '.m'
    if l[0] == 'pointee':
        return '*' + show(l[1])
    return repr(l)


def fp_ops(t, acc=None):
    """the floating operations inside a term"""
    acc = [] if acc is None else acc
    if isinstance(t, tuple):
        if t[0] == 'bin' and t[2] in FPP:
            acc.append(t)
        for x in t[1:]:
            if isinstance(x, tuple):
                fp_ops(x, acc)
    return acc


def mentions(t, x):
    if t == x:
        return True
    return isinstance(t, tuple) and any(mentions(y, x) for y in t[1:] if isinstance(y, tuple))


# ------------------------------------------------------------------------------------------------------------- evaluator
class TreeEval:
    """evaluates a typed chibicc expression tree (concrete Obj nodes) over a symbolic store. Single thread, no interference: a
    compare-exchange whose expected value is, as a term, the value the object holds succeeds (its retry behaviour is C16's subject)."""
    BIN = {'ND_ADD': 'add', 'ND_SUB': 'sub', 'ND_MUL': 'mul', 'ND_DIV': 'div'}

    def __init__(self, it, T, E):
        self.it, self.T, self.E = it, T, E
        self.NK = {v: k for k, v in E.items() if k.startswith('ND_')}
        self.store = {}
        self.names = {}
        self.written = []

    def obj(self, n):
        if isinstance(n, View):
            n = self.it.settle(n)
        return n if isinstance(n, Obj) else None

    def kind(self, n):
        n = self.obj(n)
        return self.NK.get(n.fields.get('kind')) if n is not None else None

    def ty(self, n):
        n = self.obj(n)
        t = n.fields.get('ty') if n is not None else None
        if t is None or t == 0:
            raise Undecidable('a node of kind %s has no type after add_type' % self.kind(n))
        return self.T.classify(self.it, t)

    def kid(self, n, f):
        c = self.obj(self.obj(n).fields.get(f))
        if c is None:
            raise Undecidable('%s node without %s' % (self.kind(n), f))
        return c

    def name(self, o, hint):
        if id(o) not in self.names:
            lab = getattr(o, 'label', None) or hint
            if lab in self.names.values():
                lab = '%s~%d' % (lab, len(self.names))
            self.names[id(o)] = lab
        return self.names[id(o)]

    def read(self, loc):
        if loc not in self.store:
            self.store[loc] = ('x0', loc)
        return self.store[loc]

    def write(self, loc, v):
        self.store[loc] = v
        self.written.append(loc)

    def lval(self, n):
        k = self.kind(n)
        if k == 'ND_VAR':
            v = self.obj(self.obj(n).fields.get('var'))
            if v is None:
                raise Undecidable('ND_VAR without var')
            return ('var', self.name(v, 'var'))
        if k == 'ND_DEREF':
            p = self.rval(self.kid(n, 'lhs'))
            return p[1] if p[0] == 'ptr' else ('pointee', p)
        if k == 'ND_MEMBER':
            m = self.obj(self.obj(n).fields.get('member'))
            return ('member', self.lval(self.kid(n, 'lhs')), self.name(m, 'member') if m is not None else '?')
        if k == 'ND_COMMA':
            self.rval(self.kid(n, 'lhs'))
            return self.lval(self.kid(n, 'rhs'))
        raise Undecidable('%s is not an lvalue the evaluator knows' % k)

    def rval(self, n):
        k = self.kind(n)
        if k == 'ND_NUM':
            o = self.obj(n)
            t = self.ty(n)
            if t in FPP:
                fv = o.fields.get('fval', 0)
                if isinstance(fv, float) and fv == int(fv):
                    fv = int(fv)
                if not isinstance(fv, int):
                    raise Undecidable('floating constant %r' % (fv,))
                return num(fv, t)
            v = o.fields.get('val', 0)
            if not isinstance(v, int):
                raise Undecidable('non-concrete constant %r' % (v,))
            return num(v, t)
        if k in ('ND_VAR', 'ND_DEREF', 'ND_MEMBER'):
            return self.read(self.lval(n))
        if k == 'ND_ADDR':
            l = self.lval(self.kid(n, 'lhs'))
            return l[1] if l[0] == 'pointee' else ('ptr', l)
        if k == 'ND_CAST':
            c = self.kid(n, 'lhs')
            return conv(self.ty(n), self.ty(c), self.rval(c))
        if k == 'ND_COMMA':
            self.rval(self.kid(n, 'lhs'))
            return self.rval(self.kid(n, 'rhs'))
        if k == 'ND_ASSIGN':
            l, r = self.kid(n, 'lhs'), self.kid(n, 'rhs')
            loc = self.lval(l)
            v = conv(self.ty(l), self.ty(r), self.rval(r))
            self.write(loc, v)
            return v
        if k in self.BIN:
            l, r = self.kid(n, 'lhs'), self.kid(n, 'rhs')
            t = self.ty(n)
            a = conv(t, self.ty(l), self.rval(l)) if self.ty(l) != 'ptr' or t != 'ptr' else self.rval(l)
            b = self.rval(r)
            if t != 'ptr':
                b = conv(t, self.ty(r), b)
            return binop(self.BIN[k], t, a, b)
        if k == 'ND_NEG':
            c = self.kid(n, 'lhs')
            return ('neg', self.ty(n), conv(self.ty(n), self.ty(c), self.rval(c)))
        if k == 'ND_NOT':
            v = self.rval(self.kid(n, 'lhs'))
            if v[0] == 'num':
                return num(0 if v[1] else 1, 'int')
            raise Undecidable('logical not of a symbolic value')
        if k == 'ND_CAS':
            a = self.rval(self.kid(n, 'cas_addr')); o = self.rval(self.kid(n, 'cas_old')); nv = self.rval(self.kid(n, 'cas_new'))
            if a[0] != 'ptr' and a[0] != 'x0':
                raise Undecidable('compare-exchange on an address the evaluator cannot name')
            la = a[1] if a[0] == 'ptr' else ('pointee', a)
            if o[0] != 'ptr':
                raise Undecidable('compare-exchange whose expected-value operand is not the address of an object')
            if self.read(la) != self.read(o[1]):
                raise Undecidable('compare-exchange whose expected value is not the value just read from the object')
            self.write(la, nv)
            return num(1, 'bool')
        if k == 'ND_STMT_EXPR':
            s = self.obj(self.obj(n).fields.get('body'))
            last = None
            cnt = 0
            while s is not None:
                last = self.stmt(s)
                s = self.obj(s.fields.get('next'))
                cnt += 1
                if cnt > 40:
                    raise Undecidable('statement expression too long')
            if last is None:
                raise Undecidable('statement expression without a value')
            return last
        raise Undecidable('node kind %s is outside the evaluator' % k)

    def stmt(self, s):
        k = self.kind(s)
        if k == 'ND_EXPR_STMT':
            return self.rval(self.kid(s, 'lhs'))
        if k == 'ND_BLOCK':
            b = self.obj(s.fields.get('body'))
            cnt = 0
            while b is not None:
                self.stmt(b)
                b = self.obj(b.fields.get('next'))
                cnt += 1
                if cnt > 40:
                    raise Undecidable('block too long')
            return None
        if k == 'ND_DO':
            for _ in range(3):
                self.stmt(self.kid(s, 'then'))
                c = self.rval(self.kid(s, 'cond'))
                if c[0] != 'num':
                    raise Undecidable('loop condition is symbolic')
                if not c[1]:
                    return None
            raise Undecidable('retry loop does not terminate without interference')
        raise Undecidable('statement kind %s is outside the evaluator' % k)


# ------------------------------------------------------------------------------------------------------------- lowering runs
def _interp(P, pu):
    return Interp(P, pu, {'rec_limit': 24, 'opaque': ['new_unique_name', 'error_tok'],
                          'models': {'new_lvar': lambda it_, ctx, n, a: Obj('Obj', lazy=False, label=ctx.fresh('tmp'), fields={'ty': a[1], 'name': a[0]})}})


def _operand(it, T, E, lkind, tname, atomic, label):
    ty = T.make(it, tname)
    if atomic:
        ty = it.call_fn(*it.find_def('copy_type'), [ty])
        ty.fields['is_atomic'] = 1
    tok = Obj('Token', lazy=True, label=label + '.tok')
    n = Obj('Node', lazy=False, label=label)
    n.fields['kind'] = E[lkind]; n.fields['ty'] = ty; n.fields['tok'] = tok
    if lkind == 'ND_VAR':
        n.fields['var'] = Obj('Obj', lazy=False, label='obj' + label, fields={'ty': ty, 'is_local': 1})
    elif lkind == 'ND_MEMBER':
        base = Obj('Node', lazy=False, label=label + '.base')
        bty = T.make(it, 'long')
        base.fields['kind'] = E['ND_VAR']; base.fields['ty'] = bty; base.fields['tok'] = tok
        base.fields['var'] = Obj('Obj', lazy=False, label='obj' + label + '.base', fields={'ty': bty, 'is_local': 1})
        n.fields['lhs'] = base
        n.fields['member'] = Obj('Member', lazy=False, label=label + '.member', fields={'ty': ty, 'is_bitfield': 0})
    elif lkind == 'ND_DEREF':
        p = Obj('Node', lazy=False, label=label + '.ptr')
        pty = it.call_fn(*it.find_def('pointer_to'), [ty])
        p.fields['kind'] = E['ND_VAR']; p.fields['tok'] = tok; p.fields['ty'] = pty
        p.fields['var'] = Obj('Obj', lazy=False, label='obj' + label + '.ptr', fields={'ty': pty, 'is_local': 1})
        n.fields['lhs'] = p
    return n


def run_lowering(P, pu, T, fname, build):
    """interpret parse.c:fname on the arguments build(it) -> (args, A); type the result; evaluate. Returns dict(value, stored, x0, tree kinds)
    or raises Undecidable"""
    it = _interp(P, pu)
    E = pu.enums
    box = {}

    def mk(ctx):
        it.ctx = ctx
        args, A = build(it)
        box['A'] = A
        return args
    try:
        allouts = it.explore(fname, mk, max_paths=64)
    except AnalysisBroken as e:
        raise Undecidable('%s is not interpretable on a concrete operand: %s' % (fname, e))
    outs = [(ctx, out[1]) for ctx, out in allouts if out[0] == 'ret']
    if not outs and allouts and all(out[0] == 'noreturn' and str(out[1]).startswith('error') for ctx, out in allouts):
        raise Diagnosed()
    if len(outs) != 1:
        raise Undecidable('%s has %d returning paths on a concrete operand' % (fname, len(outs)))
    ctx, root = outs[0]
    it.ctx = ctx
    try:
        it.call_fn(*it.find_def('add_type'), [root])
    except AnalysisBroken as e:
        raise Undecidable('add_type on the built tree: %s' % e)
    except Exception as e:
        if type(e).__name__ == 'NoReturn' and str(getattr(e, 'fn', '')).startswith('error'):
            raise Diagnosed()
        if type(e).__name__ in ('NoReturn', 'Infeasible', 'NeedChoice'):
            raise Undecidable('add_type on the built tree does not return (%s)' % type(e).__name__)
        raise
    ev0 = TreeEval(it, T, E)
    locA = ev0.lval(box['A'])
    ev = TreeEval(it, T, E)
    ev.names = ev0.names
    value = ev.rval(root)
    return {'value': value, 'stored': ev.store.get(locA) if locA in ev.written else None, 'x0': ('x0', locA), 'locA': locA, 'ev': ev,
            'root_ty': ev.ty(root), 'writes': list(ev.written)}


SHAPES = ('ND_VAR', 'ND_DEREF', 'ND_MEMBER')


def _wider_exact(T_, W):
    """evaluating one +,-,*,/ on operands of floating type T_ in the wider format W and rounding to T_ gives the correctly rounded T_ result
    (double rounding is innocuous when p(W) >= 2 p(T_) + 2)"""
    return T_ in FPP and W in FPP and FPP[W] >= 2 * FPP[T_] + 2


def _judge_update(stored, want, T_, x0):
    """(verdict, tag, text): verdict True / False / None (undecided)"""
    if stored is None:
        return False, 'object-not-updated', 'the object is not written'
    if stored == want:
        return True, None, ''
    # the same operation in another type
    s = stored
    if s[0] == 'conv' and s[1] == T_:
        s = s[3]
    if s[0] == 'bin' and want[0] == 'bin' and s[1] == want[1] and s[2] != want[2]:
        W = s[2]
        a, b = s[3], s[4]
        if a == conv(W, T_, x0) and want[4][0] == 'num' and b == num(want[4][1], W) and _wider_exact(T_, W):
            return True, None, ''
        return False, 'computed-in-%s' % W, 'the new value is computed in type %s (%s)' % (W, show(stored))
    return None, None, 'the stored value %s is not recognised' % show(stored)


def r_incdec(P, rep, rule):
    """A++ / A-- for floating A: value = value of A before, object = (old + 1) in the type of A"""
    pu = P.unit('parse.c')
    for f in ('new_inc_dec', 'to_assign', 'new_add'):
        if f not in pu.functions:
            raise AnalysisBroken('parse.c: %s vanished' % f)
    T = Types(P)
    E = pu.enums
    where = 'parse.c:%d' % pu.fn('new_inc_dec').line
    bad = {}
    cases = []
    for tname in ('float', 'double', 'ldouble'):
        for atomic in (False, True):
            for lkind in SHAPES:
                cases.append((tname, atomic, lkind, 1))
            cases.append((tname, atomic, 'ND_VAR', -1))
    for tname, atomic, lkind, k in cases:
        mode = 'atomic' if atomic else 'plain'
        op = 'inc' if k > 0 else 'dec'
        key = 'parse.c:new_inc_dec:%s/%s/%s/%s' % (op, lkind, tname, mode)

        def build(it, tname=tname, atomic=atomic, lkind=lkind, k=k):
            A = _operand(it, T, E, lkind, tname, atomic, 'A')
            return [A, A.fields['tok'], k], A
        try:
            r = run_lowering(P, pu, T, 'new_inc_dec', build)
        except Diagnosed:
            rep.ob(rule, key + ':diagnosed', True, '', where=where)
            continue
        except Undecidable as e:
            rep.undecided(rule, key, 'the tree built for A%s is outside the evaluator: %s' % ('++' if k > 0 else '--', e), where=where)
            continue
        x0 = r['x0']
        want = binop('add', tname, x0, num(k, tname))
        v = r['value']
        facts = {'value': show(v), 'stored': show(r['stored']) if r['stored'] else None}
        # --- the value of the expression
        if v == x0 and r['root_ty'] == tname:
            rep.ob(rule, key + ':value', True, '', where=where, facts=facts)
        else:
            ops = fp_ops(v)
            if r['root_ty'] != tname:
                tag, txt = 'type-%s' % r['root_ty'], 'the expression has type %s' % r['root_ty']
            elif ops and mentions(v, x0) and any(o[1] == 'add' and o[4][0] == 'num' and o[4][1] != 0 for o in ops) and len(ops) >= 2:
                tag = 'recomputed-from-new-value'
                txt = ('its value is recomputed from the updated object as %s; floating addition rounds, so this is not the old value '
                       '(old = 1e-30: (old + 1) - 1 is 0; old = -0.0 gives +0.0; float 16777216 gives 16777215)' % show(v))
            elif not mentions(v, x0):
                tag, txt = 'unrelated-value', 'its value is %s, which does not depend on the value of the operand before the update' % show(v)
            elif v == r['stored']:
                tag, txt = 'yields-new-value', 'its value is the updated value %s' % show(v)
            else:
                tag = None
            if tag is None:
                rep.undecided(rule, key + ':value', 'the value %s of the postfix expression is not recognised' % show(v), where=where)
            else:
                bad.setdefault(('value', tname, mode, tag), []).append((op, lkind, txt, facts))
        # --- the update
        ok, tag, txt = _judge_update(r['stored'], want, tname, x0)
        if ok is None:
            rep.undecided(rule, key + ':update', txt, where=where)
        elif ok:
            rep.ob(rule, key + ':update', True, '', where=where, facts=facts)
        else:
            bad.setdefault(('update', tname, mode, tag), []).append((op, lkind, txt, facts))
    n_per_group = len(SHAPES) + 1
    for (what, tname, mode, tag), lst in sorted(bad.items()):
        which = sorted(set('%s/%s' % (o, l) for o, l, _, _ in lst))
        key = 'parse.c:new_inc_dec:%s/%s:%s:%s' % (tname, mode, what, tag)
        if len(lst) != n_per_group:
            key += ':' + '+'.join(which)
        if what == 'value':
            msg = 'postfix ++/-- on %s %s operand (%s): %s; C11 6.5.2.4p2: the result is the value of the operand before the update' % (
                'an _Atomic' if mode == 'atomic' else 'a', CTYPE[tname], ', '.join(which), lst[0][2])
        else:
            msg = 'postfix ++/-- on %s %s operand (%s): %s; C11 6.5.2.4p2 with 6.5.16.2: the object becomes old + 1 computed in the type the usual arithmetic conversions give (%s)' % (
                'an _Atomic' if mode == 'atomic' else 'a', CTYPE[tname], ', '.join(which), lst[0][2], CTYPE[tname])
        rep.ob(rule, key, False, msg, where=where, facts=lst[0][3])


OPS = {'ND_ADD': 'add', 'ND_SUB': 'sub', 'ND_MUL': 'mul', 'ND_DIV': 'div'}


def r_compound(P, rep, rule, tier='quick'):
    """A op= B with a floating type on either side: the object becomes (T)((C)A op (C)B), C the common type; that is also the value"""
    pu = P.unit('parse.c')
    if 'to_assign' not in pu.functions:
        raise AnalysisBroken('parse.c: to_assign vanished')
    T = Types(P)
    E = pu.enums
    where = 'parse.c:%d' % pu.fn('to_assign').line
    lts = ('float', 'double', 'ldouble', 'int', 'ulong')
    rts = ('int', 'float', 'double', 'ldouble')
    cases = []
    for a in lts:
        for b in rts:
            if a not in FPP and b not in FPP:
                continue
            cases.append(('ND_ADD', a, b, 'ND_VAR', False))
            cases.append(('ND_ADD', a, b, 'ND_VAR', True))
            if a in FPP and b in ('int', 'double'):
                cases.append(('ND_ADD', a, b, 'ND_DEREF', False))
                cases.append(('ND_ADD', a, b, 'ND_MEMBER', False))
    for op in ('ND_SUB', 'ND_MUL', 'ND_DIV'):
        for atomic in (False, True):
            cases.append((op, 'float', 'double', 'ND_VAR', atomic))
        for lkind in ('ND_DEREF', 'ND_MEMBER'):
            cases.append((op, 'double', 'int', lkind, False))
    for op, a, b, lkind, atomic in cases:
        mode = 'atomic' if atomic else 'plain'
        key = 'parse.c:to_assign:%s/%s/(%s,%s)/%s' % (op, lkind, a, b, mode)

        def build(it, op=op, a=a, b=b, lkind=lkind, atomic=atomic):
            A = _operand(it, T, E, lkind, a, atomic, 'A')
            B = _operand(it, T, E, 'ND_VAR', b, False, 'B')
            n = Obj('Node', lazy=False, label='binary')
            n.fields['kind'] = E[op]; n.fields['lhs'] = A; n.fields['rhs'] = B; n.fields['tok'] = A.fields['tok']
            return [n], A
        try:
            r = run_lowering(P, pu, T, 'to_assign', build)
        except Diagnosed:
            rep.ob(rule, key + ':diagnosed', True, '', where=where)
            continue
        except Undecidable as e:
            rep.undecided(rule, key, 'the tree built for A op= B is outside the evaluator: %s' % e, where=where)
            continue
        C_ = common(a, b)
        xa = r['x0']
        xb = ('x0', ('var', 'objB'))
        want = conv(a, C_, binop(OPS[op], C_, conv(C_, a, xa), conv(C_, b, xb)))
        st, v = r['stored'], r['value']
        facts = {'value': show(v), 'stored': show(st) if st else None, 'prescribed': show(want)}
        if st == want and v == want and r['root_ty'] == a:
            rep.ob(rule, key, True, '', where=where, facts=facts)
            continue
        tag = None
        if st is None:
            tag, txt = 'object-not-updated', 'the object is not written'
        elif st != want:
            s = st[3] if (st[0] == 'conv' and st[1] == a) else st
            w = want[3] if (want[0] == 'conv' and want[1] == a) else want
            if s[0] == 'bin' and s[1] == w[1] and s[2] != w[2]:
                W = s[2]
                exact_ops = a in FPP and b in FPP or (a in FPP and b == 'int' and False)
                if exact_ops and _wider_exact(C_, W) and s[3] == conv(W, a, xa) and s[4] == conv(W, b, xb) and v == st:
                    rep.ob(rule, key, True, '', where=where, facts=facts)
                    continue
                tag, txt = 'computed-in-%s' % W, 'the operation is done in type %s: %s' % (W, show(st))
            elif s[0] == 'bin' and s[1] != w[1] and s[2] == w[2]:
                tag, txt = 'operator-%s' % s[1], 'the operation performed is %s' % show(st)
            elif s[0] == 'bin' and s[1] == w[1] and s[2] == w[2] and (s[3], s[4]) == (w[4], w[3]) and s[1] in ('sub', 'div'):
                tag, txt = 'operands-swapped', 'the operands are swapped: %s' % show(st)
            elif not mentions(st, xa) or not mentions(st, xb):
                tag, txt = 'operand-dropped', 'the stored value %s does not depend on both operands' % show(st)
        elif r['root_ty'] != a:
            tag, txt = 'type-%s' % r['root_ty'], 'the expression has type %s, C11 6.5.16p3: the type of the left operand' % r['root_ty']
        elif v != want:
            if not mentions(v, xa) and not mentions(v, xb):
                tag, txt = 'value-unrelated', 'the value of the expression is %s' % show(v)
            elif fp_ops(v) != fp_ops(want):
                tag, txt = 'value-recomputed', 'the value of the expression is %s, not the value stored' % show(v)
        if tag is None:
            rep.undecided(rule, key, 'stored %s / value %s not recognised (prescribed %s)' % (show(st) if st else None, show(v), show(want)), where=where)
        else:
            rep.ob(rule, key + ':' + tag, False, '`A %s= B` with A of type %s (%s, %s) and B of type %s: %s; C11 6.5.16.2p3: A = (T)((C)A op (C)B) with C = %s, i.e. %s' % (
                {'add': '+', 'sub': '-', 'mul': '*', 'div': '/'}[OPS[op]], a, lkind, mode, b, txt, C_, show(want)), where=where, facts=facts)


# ------------------------------------------------------------------------------------------------------------- <float.h>
def _ilog10_floor(n):
    """largest q with 10**q <= n (n a positive Fraction/int)"""
    from fractions import Fraction
    n = Fraction(n)
    q = 0
    if n >= 1:
        while Fraction(10) ** (q + 1) <= n:
            q += 1
    else:
        while Fraction(10) ** q > n:
            q -= 1
    return q


def _ilog10_ceil(n):
    """smallest q with 10**q >= n"""
    from fractions import Fraction
    n = Fraction(n)
    q = _ilog10_floor(n)
    return q if Fraction(10) ** q == n else q + 1


def float_h_expectation(fmt):
    """C11 5.2.4.2.2 characteristics of a binary format (p, emin, emax); values as exact Fractions"""
    from fractions import Fraction
    p, emin, emax = fmt
    two = Fraction(2)
    mx = (1 - two ** (-p)) * two ** emax
    mn = two ** (emin - 1)
    return {
        'MANT_DIG': p, 'MIN_EXP': emin, 'MAX_EXP': emax,
        'DIG': _ilog10_floor(two ** (p - 1)),                      # floor((p-1) log10 2)
        'DECIMAL_DIG': 1 + _ilog10_ceil(two ** p),                 # ceil(1 + p log10 2)
        'MIN_10_EXP': _ilog10_ceil(mn),                            # ceil(log10 2^(emin-1))
        'MAX_10_EXP': _ilog10_floor(mx),                           # floor(log10 max)
        'HAS_SUBNORM': 1,
        'MAX': mx, 'MIN': mn, 'EPSILON': two ** (1 - p), 'TRUE_MIN': two ** (emin - p),
    }


def _hexlit(fr, suffix):
    """exact hexadecimal floating literal of a positive dyadic Fraction"""
    num_, den = fr.numerator, fr.denominator
    e = -(den.bit_length() - 1)
    assert den == 1 << (-e), 'not dyadic'
    while num_ % 2 == 0 and num_:
        num_ //= 2; e += 1
    return '0x%xp%+d%s' % (num_, e, suffix)


FORMATS = {(4, 'ss'): (24, -125, 128), (8, 'sd'): (53, -1021, 1024), (16, 'x87'): (64, -16381, 16384)}
PREFIX = {'float': 'FLT', 'double': 'DBL', 'ldouble': 'LDBL'}
CTYPE = {'float': 'float', 'double': 'double', 'ldouble': 'long double'}
TYCODE = {1: 'float', 2: 'double', 3: 'long double', 4: 'int', 5: 'unsigned int', 6: 'long', 7: 'unsigned long', 0: 'another type'}


def compiler_formats(P, cg=None):
    """{'float': ((p, emin, emax) | None, size, class), ...}: from the object size type.c gives the type and the instruction load() of codegen.c
    emits for it on every path (Engine I: movss / movsd / fldt). None for a pair that is not one of the three x86-64 psABI formats."""
    from .chibi import CG, Trace
    from .interp import Ctx
    T = Types(P)
    itt = T.interp()
    itt.ctx = Ctx([])
    cg = cg or CG(P)
    if cg.cu.fn('load') is None:
        raise AnalysisBroken('codegen.c: load vanished')
    out = {}
    for tname in ('float', 'double', 'ldouble'):
        g = T.glob(itt, 'ty_' + tname)
        size = g.fields.get('size')
        it = cg.interp()
        classes = set()
        try:
            res = it.explore('load', lambda ctx, tname=tname: [cg.tcell('ty', only=(tname,))], max_paths=200)
        except AnalysisBroken:
            res = []
        for ctx, o in res:
            if o[0] != 'ret':
                continue
            mn = [l.split('#')[0].split() for l in Trace(ctx).asm()]
            mn = [m[0] for m in mn if m]
            classes.add({('movss',): 'ss', ('movsd',): 'sd', ('fldt',): 'x87'}.get(tuple(mn), 'other:' + ' '.join(mn)))
        cls = classes.pop() if len(classes) == 1 else None
        out[tname] = (FORMATS.get((size, cls)), size, cls)
    return out


C_KEYWORDS = {'float', 'double', 'long', 'int', 'short', 'char', 'signed', 'unsigned', 'sizeof', '_Bool', 'const', 'volatile'}
REQUIRED_COMMON = {'FLT_RADIX': 2, 'FLT_ROUNDS': 1, 'FLT_EVAL_METHOD': 0}
INT_CHARS = ('MANT_DIG', 'DECIMAL_DIG', 'DIG', 'MIN_EXP', 'MIN_10_EXP', 'MAX_EXP', 'MAX_10_EXP', 'HAS_SUBNORM')
FP_CHARS = ('MAX', 'MIN', 'EPSILON', 'TRUE_MIN')


def _clang(args, text):
    p = subprocess.run(['clang-14', '-x', 'c', '-std=c11', '-w', '-nostdinc'] + args + ['-'], input=text, capture_output=True, text=True)
    return p


def r_float_h(P, rep, rule, cg=None):
    H = 'include/float.h'
    path = P.header(H)
    fm = compiler_formats(P, cg)
    for tname, (fmt, size, cls) in fm.items():
        if fmt is None:
            rep.undecided(rule, '%s:%s:format' % (H, PREFIX[tname]), 'type %s has size %r and is loaded with class %r: not one of the psABI formats the oracle knows' % (tname, size, cls), where=H)
    # --- which macros the header defines, and from what
    base = _clang(['-E', '-dM'], '')
    mine = _clang(['-E', '-dM'], '#include "%s"\n' % path)
    if base.returncode != 0 or mine.returncode != 0:
        raise AnalysisBroken('clang could not preprocess %s: %s' % (H, (mine.stderr or base.stderr)[-300:]))

    def defs(txt):
        d = {}
        for l in txt.splitlines():
            m = re.match(r'#define (\w+)(\([^)]*\))? ?(.*)$', l)
            if m:
                d[m.group(1)] = (m.group(2), m.group(3))
        return d
    d0, d1 = defs(base.stdout), defs(mine.stdout)
    hdr = {k: v for k, v in d1.items() if k not in d0 or d0[k] != v}
    predefined_by_reader = set(d0)

    def foreign(body):
        """identifiers of a macro body that the header does not define itself (the reader's own predefined macros would be substituted)"""
        b = re.sub(r'\.?\d(?:[eEpP][+-]|[\w.])*', ' ', body)      # pp-numbers (hex floats contain letters)
        return sorted(set(x for x in re.findall(r'[A-Za-z_]\w*', b) if x not in hdr and x not in C_KEYWORDS))

    # names the compiler itself predefines (first arguments of the define_macro / add_builtin calls of preprocess.c)
    predefined = set()
    ppu = P.unit('preprocess.c')
    for fn in ppu.functions.values():
        for c in fn.find('CallExpr'):
            if c.callee() in ('define_macro', 'add_builtin') and c.args():
                a0 = c.args()[0].strip_all()
                if a0.kind == 'StringLiteral' and a0.str_value():
                    predefined.add(a0.str_value())
    want = {}                # macro -> (kind, value, ctype)
    for n, v in REQUIRED_COMMON.items():
        want[n] = ('int', v, None)
    widest = None
    for tname in ('float', 'double', 'ldouble'):
        fmt = fm[tname][0]
        if fmt is None:
            continue
        ex = float_h_expectation(fmt)
        if widest is None or fmt[0] > widest[0]:
            widest = fmt
        for c in INT_CHARS:
            want['%s_%s' % (PREFIX[tname], c)] = ('int', ex[c], None)
        for c in FP_CHARS:
            want['%s_%s' % (PREFIX[tname], c)] = ('fp', ex[c], tname)
    if widest is not None:
        want['DECIMAL_DIG'] = ('int', float_h_expectation(widest)['DECIMAL_DIG'], None)
    # --- generate the probe
    lines = ['#include "%s"' % path]
    probes = []
    for n, (kind, val, tname) in sorted(want.items()):
        if n not in hdr:
            continue
        if hdr[n][0] is not None:
            continue
        fo = foreign(hdr[n][1])
        if fo:
            continue
        probes.append(n)
        lines.append('enum { c02_ty_%s = _Generic((%s), float: 1, double: 2, long double: 3, int: 4, unsigned: 5, long: 6, unsigned long: 7, default: 0) };' % (n, n))
        if kind == 'int':
            lines.append('enum { c02_eq_%s = ((%s) == (%d)) };' % (n, n, val))
        else:
            lines.append('enum { c02_eq_%s = ((long double)(%s) == %s) };' % (n, n, _hexlit(val, 'L')))
            lines.append('enum { c02_gt_%s = ((long double)(%s) > %s) };' % (n, n, _hexlit(val, 'L')))
    vals = {}

    def enums_of(text):
        p = _clang(['-fsyntax-only', '-Xclang', '-ast-dump=json'], text)
        if p.returncode != 0:
            return None, p.stderr.strip().splitlines()[:3]
        out = {}
        for d in json.loads(p.stdout).get('inner', []):
            if d.get('kind') == 'EnumDecl':
                for c in d.get('inner', []):
                    if c.get('kind') == 'EnumConstantDecl' and c.get('name', '').startswith('c02_'):
                        v = None
                        for x in c.get('inner', []):
                            if 'value' in x:
                                v = int(x['value'])
                        out[c['name']] = v
        return out, None
    if probes:
        got, err = enums_of('\n'.join(lines) + '\n')
        if got is None:
            rep.undecided(rule, '%s:probe' % H, 'clang rejects the probe of the header\'s macros: %s' % err, where=H)
            return
        vals.update(got)
        # second pass: the integer characteristics with the right value and type, inside #if (one run; one run per macro if that is rejected)
        def pp(n):
            return '#if (%s) == (%d)\nenum { c02_pp_%s = 1 };\n#else\nenum { c02_pp_%s = 0 };\n#endif' % (n, want[n][1], n, n)
        ints = [n for n in probes if want[n][0] == 'int' and n != 'FLT_ROUNDS' and vals.get('c02_eq_' + n) == 1 and vals.get('c02_ty_' + n) in (4, 5, 6, 7)]
        got, err = enums_of('\n'.join([lines[0]] + [pp(n) for n in ints]) + '\n')
        if got is not None:
            vals.update(got)
        else:
            for n in ints:
                g1, e1 = enums_of(lines[0] + '\n' + pp(n) + '\n')
                vals['c02_pp_' + n] = g1.get('c02_pp_' + n) if g1 is not None else 0
    # --- obligations: one per macro and aspect while it holds; the failing macros of one family (FLT / DBL / LDBL / common) and aspect form one
    # obligation whose key names them (one defect of the header = one key; another macro going wrong = another key)
    bad = {}

    def ob(n, aspect, ok, msg):
        if ok:
            rep.ob(rule, '%s:%s:%s' % (H, n, aspect), True, '', where=H)
        else:
            fam = n.split('_', 1)[0] if n.split('_', 1)[0] in ('FLT', 'DBL', 'LDBL') and n not in REQUIRED_COMMON else 'common'
            bad.setdefault((fam, aspect), []).append((n, msg))
    for n, (kind, val, tname) in sorted(want.items()):
        if n not in hdr:
            ob(n, 'defined', False, n)
            continue
        if hdr[n][0] is not None:
            ob(n, 'object-like', False, '%s is a function-like macro' % n); continue
        fo = foreign(hdr[n][1])
        if fo:
            unknown = [x for x in fo if x not in predefined]
            if unknown and predefined:
                ob(n, 'expands-to-undefined-name', False, '%s is `%s`: %s is neither defined by the header nor predefined by the compiler (init_macros), the expansion does not compile' % (n, hdr[n][1], ', '.join(unknown)))
            else:
                rep.undecided(rule, '%s:%s' % (H, n), '%s is defined through %s, which the header does not define: its expansion under chibicc is not what the reader sees' % (n, ', '.join(fo)), where=H)
            continue
        ob(n, 'defined', True, '')
        ty, eq = vals.get('c02_ty_' + n), vals.get('c02_eq_' + n)
        if ty is None or eq is None:
            rep.undecided(rule, '%s:%s' % (H, n), 'the probe has no value for %s' % n, where=H); continue
        body = hdr[n][1]
        if kind == 'int':
            ob(n, 'value', eq == 1, '%s is `%s`, prescribed %d' % (n, body, val))
            ob(n, 'type', ty == 4, '%s (`%s`) has type %s, not int' % (n, body, TYCODE.get(ty, ty)))
            if n != 'FLT_ROUNDS' and eq == 1 and ty in (4, 5, 6, 7):
                ob(n, 'usable-in-#if', vals.get('c02_pp_' + n) == 1, '%s (`%s`) does not evaluate to %d in #if' % (n, body, val))
        else:
            gt = vals.get('c02_gt_' + n)
            ob(n, 'value', eq == 1, '%s is `%s` (%s than the prescribed %s)' % (n, body, 'greater' if gt else 'less', _hexlit(val, {'float': 'f', 'double': '', 'ldouble': 'L'}[tname])))
            code = {'float': 1, 'double': 2, 'ldouble': 3}[tname]
            ob(n, 'type', ty == code, '%s (`%s`) has type %s' % (n, body, TYCODE.get(ty, ty)))
    famty = {'FLT': 'float', 'DBL': 'double', 'LDBL': 'ldouble'}
    for (fam, aspect), lst in sorted(bad.items()):
        names = sorted(n for n, _ in lst)
        short = [n.split('_', 1)[1] if fam != 'common' else n for n in names]
        key = '%s:%s:%s:%s' % (H, fam, aspect, '+'.join(short))
        fmt = ''
        if fam in famty and fm[famty[fam]][0]:
            fmt = ' (the compiler\'s %s: %d-byte object, precision %d bits, emin %d, emax %d)' % ((CTYPE[famty[fam]], fm[famty[fam]][1]) + fm[famty[fam]][0])
        if aspect == 'defined':
            msg = '<float.h> does not define %s; C11 5.2.4.2.2 lists %s (a program using one does not compile)' % (', '.join(names), 'them' if len(names) > 1 else 'it')
        elif aspect == 'value':
            msg = 'the values of <float.h> do not describe the format of the type%s: %s; C11 5.2.4.2.2' % (fmt, '; '.join(m for _, m in lst))
        elif aspect == 'type':
            msg = ('constants of <float.h> do not have the type they characterise%s: %s; C11 5.2.4.2.2 (the constants are expressions of the respective floating type: '
                   'sizeof, _Generic and the usual arithmetic conversions of expressions they appear in depend on it)' % (fmt, '; '.join(m for _, m in lst)))
        else:
            msg = '; '.join(m for _, m in lst)
        rep.ob(rule, key, False, msg, where=H)


def _fmt_of(n, fm):
    pre = n.split('_', 1)[0]
    for tname, p in PREFIX.items():
        if p == pre and fm[tname][0]:
            f = fm[tname][0]
            return 'p=%d, emin=%d, emax=%d' % f
    return 'widest format'


# ------------------------------------------------------------------ explicit casts ---
def r_explicit_cast(P, rep, rule):
    """parse.c cast(): `( type-name ) cast-expression` (not a compound literal) yields new_cast(operand, type-name) on every accepting path -
    whatever the operand's type is (no path that looks at sizes or kinds and returns the operand unconverted or converted to another type).
    The conversion itself is code generation (R02.1/R02.17)."""
    from .interp import Obj, View, _Ref, VarPlace
    from .lib_parse import TokenModel
    pu = P.unit('parse.c')
    for f in ('cast', 'new_cast', 'typename'):
        if f not in pu.functions:
            raise AnalysisBroken('parse.c: %s vanished' % f)
    where = 'parse.c:%d' % pu.fn('cast').line
    key = 'parse.c:cast:type-cast'
    tm = TokenModel(P, pu, ['cast'], extra_opaque=['cast', 'unary', 'typename', 'is_typename', 'add_type', 'new_cast', 'copy_type'], loop_limit=1)
    it = tm.interp()
    try:
        res = it.explore('cast', lambda ctx: [_Ref(VarPlace({'rest': None}, 'rest')), tm.token('tok')], max_paths=600)
    except AnalysisBroken as e:
        rep.undecided(rule, key, 'cast() is not interpretable: %s' % e, where=where)
        return

    def ident(v):
        v = it.settle(v) if isinstance(v, View) else v
        if isinstance(v, View):
            return ('cell', id(v.cell))
        return ('obj', id(v)) if isinstance(v, Obj) else ('val', repr(v))
    n = 0
    for ctx, out in res:
        if out[0] != 'ret':
            continue
        calls = [e for e in ctx.events if e[0] == 'call']
        tn = [e for e in calls if e[1] == 'typename']
        rec = [e for e in calls if e[1] == 'cast']
        if not tn or not rec:
            continue          # no type name in parentheses, or a compound literal (handed to unary)
        n += 1
        nc = [e for e in calls if e[1] == 'new_cast']
        if not nc:
            rep.ob(rule, key + ':operand-returned-unconverted', False,
                   'on a path of cast() a parenthesised type name followed by a cast-expression yields the operand without a conversion node '
                   '(decisions: %s): `(float)i` would keep the bits of i, `(int)f` those of f (C11 6.5.4p5)' % '; '.join(ctx.trail[-3:]), where=where, facts={'path': ctx.trail})
            continue
        last = nc[-1]
        ok_operand = len(nc) == 1 and ident(last[2][0]) == ident(rec[-1][4])
        ok_type = ident(last[2][1]) == ident(tn[-1][4])
        ok_ret = ident(out[1]) == ident(last[4])
        tag = '' if (ok_operand and ok_type and ok_ret) else (':wrong-operand' if not ok_operand else ':wrong-type' if not ok_type else ':conversion-not-returned')
        rep.ob(rule, key + tag, not tag,
               'a type cast builds new_cast(%s, %s) and returns %s; C11 6.5.4: the value of the cast-expression converted to the named type'
               % (getattr(it.settle(last[2][0]) if isinstance(last[2][0], View) else last[2][0], 'label', '?'),
                  getattr(it.settle(last[2][1]) if isinstance(last[2][1], View) else last[2][1], 'label', '?'),
                  'it' if ok_ret else 'something else'), where=where, facts={'path': ctx.trail})
    if n == 0:
        rep.undecided(rule, key, 'no accepting path of cast() parses a parenthesised type name followed by a cast-expression', where=where)
