"""C02 private helper: the way of a floating constant from its spelling to the bytes the compiler emits for it.

A floating constant of type T denotes the value of its spelling rounded ONCE to the format of T (C11 6.4.4.2p3 with correct rounding,
which is what gcc/clang and the run-time strtof/strtod/strtold give).  chibicc carries the value through four places:

    spelling --text->binary--> local(s) of convert_pp_number --> Token.fval --> Node.fval --+--> gen_expr ND_NUM: union member --> immediate
                                                                                           +--> eval_double ND_NUM (static initialisers, folding)

Every step that stores into a floating format of p digits is a rounding to p digits (a no-op when the value has at most p digits already).
The composition is the single rounding to T iff the FIRST step that rounds at all rounds to p(T), and no later step goes below p(T).
The check derives the sequence of formats per step from the value flow (Engine I: the conversion function is an uninterpreted operator that
carries the precision of its result type; C floating conversions appear as cast terms) and from the declared types of the carriers:

 * stage 1 (R02.6)   per suffix class: the value stored into Token.fval is text->binary at the precision of the constant's type, widened only;
 * stage 2 (R02.15)  Token.fval, Node.fval hold every floating type's values; the parser copies the one into the other without a narrower stop;
 * stage 3 (R02.15)  gen_expr takes the bytes of (T)node->fval - one conversion, to the node's type; eval_double returns (T)node->fval.

With stage 1 holding, the conversions of stage 3 are value preserving; with stage 1 converting at a wider precision (today: strtold for every
constant) the conversion of stage 3 is a second rounding: `1.00000000000000011102230246251565404236316680908203126` becomes 0x3ff0000000000000.
"""
from .build import AnalysisBroken
from .interp import Interp, Obj, View, Sym, Term, _Ref

PREC = {'float': 24, 'double': 53, 'long double': 64}
NAME = {24: 'float', 53: 'double', 64: 'long double'}
CATS = (('float', 'float', 'ty_float'), ('double', 'double', 'ty_double'), ('ldouble', 'long double', 'ty_ldouble'))
TEXT2BIN = {'strtof': 24, 'strtod': 53, 'strtold': 64, 'atof': 53}
INF = 1 << 20


def _ctype(t):
    t = (t or '').replace('const ', '').replace('volatile ', '').strip()
    return t


def peel(v):
    """value -> (core, [precision of each floating conversion, innermost first]) ; an unknown cast target gives None in the list"""
    chain = []
    while isinstance(v, Term) and v.op.startswith('cast:'):
        chain.append(PREC.get(_ctype(v.op[5:])))
        v = v.args[0]
    chain.reverse()
    return v, chain


def effective(chain, start=INF):
    """the conversions of the chain that can change a value that has `start` digits"""
    p = start
    real = []
    for r in chain:
        if r < p:
            real.append(r)
            p = r
    return real


def slug(p):
    return NAME.get(p, '%d-digits' % p).replace(' ', '-')


def judge(chain, pT, start=INF):
    """None when the chain is the single rounding to pT (from `start` digits); else (tag, text)"""
    real = effective(chain, start)
    if real == [pT] or (not real and start == pT):
        return None
    if not real or real[-1] > pT:
        have = real[-1] if real else start
        return ('kept-at-' + slug(have), 'keeps %s precision and is never rounded to %s' % (NAME.get(have, '%d-digit' % have), NAME[pT]))
    if real[-1] < pT:
        return ('narrowed-to-' + slug(real[-1]), 'passes through %s: digits of a %s value are lost' % (NAME.get(real[-1], '%d digits' % real[-1]), NAME[pT]))
    return ('rounded-twice:' + '-'.join(slug(r) for r in real),
            'is rounded to %s and then to %s: two roundings differ from the single rounding for spellings just above or below a midpoint of the %s format' % (
                ' and to '.join(NAME.get(r, '%d digits' % r) for r in real[:-1]), NAME[pT], NAME[pT]))


def field_prec(P, unit, rec, field):
    u = P.unit(unit)
    for f, qt, bf in u.records.get(rec, []):
        if f == field:
            return PREC.get(_ctype(qt)), qt
    return None, None


# ------------------------------------------------------------------------------------------------------------------- stage 1
def tokenizer_chains(P):
    """{suffix: [(type label, core, chain incl. the store into Token.fval)]} by interpretation of convert_pp_number"""
    tu = P.unit('tokenize.c')
    if tu.fn('convert_pp_number') is None:
        raise AnalysisBroken('tokenize.c: convert_pp_number vanished')
    ptok, qt = field_prec(P, 'tokenize.c', 'Token', 'fval')
    out = {}
    for suffix in ('f', 'F', 'l', 'L', ''):
        def mkmodel(fname, p, suffix=suffix):
            def model(it_, ctx, n, args):
                endp = args[1] if len(args) > 1 else None
                if isinstance(endp, _Ref):
                    endp.place.set(it_, suffix)      # *end = what follows the digits
                ctx.events.append(('text2bin', fname, p))
                return Term('text2bin:%d' % p, args[0] if args else 0)
            return model
        models = {f: mkmodel(f, p) for f, p in TEXT2BIN.items()}
        models['convert_pp_int'] = lambda it_, ctx, n, a: 0
        it = Interp(P, tu, {'models': models, 'track_stores': True})
        res = []
        for ctx, o in it.explore('convert_pp_number', lambda ctx: [Obj('Token', lazy=True, label='tok')], max_paths=400):
            if o[0] != 'ret':
                continue
            ty = [e for e in ctx.events if e[0] == 'fstore' and e[2] == 'ty' and getattr(e[1], 'label', '') == 'tok']
            fv = [e for e in ctx.events if e[0] == 'fstore' and e[2] == 'fval' and getattr(e[1], 'label', '') == 'tok']
            if not ty or not fv:
                res.append((None, None, None)); continue
            tv = ty[-1][4]
            if isinstance(tv, View):
                tv = it.settle(tv)
            core, chain = peel(fv[-1][4])
            res.append((str(getattr(tv, 'label', None) or tv), core, chain + [ptok]))
        out[suffix] = res
    return out, ptok, qt


def r_text_to_token(P, rep, rule):
    where = 'tokenize.c:%d' % P.unit('tokenize.c').fn('convert_pp_number').line
    chains, ptok, qt = tokenizer_chains(P)
    if ptok is None:
        rep.undecided(rule, 'tokenize.c:Token:fval', 'Token.fval has type %r, not one of float / double / long double' % qt, where=where)
        return chains
    for cat, cname, glob in CATS:
        pT = PREC[cname]
        key = 'tokenize.c:convert_pp_number:text-rounded-once/%s' % cat
        bad, und, n = {}, None, 0
        for suffix, res in chains.items():
            for tl, core, chain in res:
                if tl is None:
                    und = 'a returning path for suffix %r stores no type or no value' % suffix; continue
                if glob not in tl:
                    continue
                n += 1
                if not (isinstance(core, Term) and core.op.startswith('text2bin:')):
                    und = 'the value stored into Token.fval for suffix %r is %r: not the result of strtof / strtod / strtold' % (suffix, core); continue
                if None in chain:
                    und = 'the value stored into Token.fval for suffix %r passes through a type that is not float / double / long double' % suffix; continue
                p0 = int(core.op.split(':')[1])
                j = judge([p0] + chain, pT)
                if j:
                    first = effective([p0] + chain)[0]
                    fn = [f for f, p in TEXT2BIN.items() if p == p0 and f != 'atof'][0]
                    tag = j[0] if not j[0].startswith('kept-at-') else 'via-' + slug(first)
                    if j[0].startswith('kept-at-'):
                        msg = ('the spelling is converted by %s (%d digits) and Token.fval keeps that: the rounding to %s in the code generator / the folder is a second rounding '
                               '(`double d = 1.00000000000000011102230246251565404236316680908203126;` is 0x3ff0000000000000, correctly rounded 0x3ff0000000000001; '
                               '`0x1.000001000000000004p0f` is 0x3f800000, correctly rounded 0x3f800001)' % (fn, p0, cname))
                    else:
                        msg = 'the value of the spelling %s' % j[1]
                    bad[tag] = 'a constant of type %s (suffix %s): %s' % (cname, '/'.join(s or 'none' for s in chains if any(glob in (r[0] or '') for r in chains[s])), msg)
        for tag, msg in sorted(bad.items()):
            rep.ob(rule, key + ':' + tag, False, msg, where=where)
        if bad:
            continue
        if und or n == 0:
            rep.undecided(rule, key, und or 'no suffix gives a constant the type %s (see the suffix obligations)' % cname, where=where)
        else:
            rep.ob(rule, key, True, '', where=where)
    return chains


# ------------------------------------------------------------------------------------------------------------------- stage 2
def _ast_chain(e):
    """typed AST expression -> (core node, [precisions of floating conversions, innermost first])"""
    chain = []
    while True:
        if e.kind == 'ParenExpr':
            e = e.inner[0]; continue
        if e.kind in ('ImplicitCastExpr', 'CStyleCastExpr'):
            if e.cast_kind == 'FloatingCast':
                chain.append(PREC.get(_ctype(e.dtype or e.type)))
            elif e.cast_kind not in ('LValueToRValue', 'NoOp'):
                return e, None
            e = e.inner[0]; continue
        break
    chain.reverse()
    return e, chain


def _is_field(e, field, rec):
    if e.kind != 'MemberExpr' or e.name != field:
        return False
    bt = _ctype(e.inner[0].dtype or e.inner[0].type)
    return rec in bt.replace('struct ', '').replace('*', ' ').split()


def r_carriers(P, rep, rule):
    ptok, qtok = field_prec(P, 'tokenize.c', 'Token', 'fval')
    pnode, qnode = field_prec(P, 'parse.c', 'Node', 'fval')
    widest = max(PREC.values())
    for rec, p, qt, unit in (('Token', ptok, qtok, 'tokenize.c'), ('Node', pnode, qnode, 'parse.c')):
        if p is None:
            rep.undecided(rule, '%s:%s:fval' % (unit, rec), '%s.fval has type %r, not one of float / double / long double' % (rec, qt))
            continue
        rep.ob(rule, '%s:%s:fval-holds-every-floating-type' % (unit, rec) + ('' if p >= widest else '/' + slug(p)), p >= widest,
               '%s.fval has type %s: every long double constant (`1.1L`, LDBL_EPSILON) is rounded to %d digits on its way to the generated code' % (rec, qt, p or 0), where=unit)
    # every store into Node.fval, in any unit: what is stored and through which formats
    n = 0
    for un in P.unit_names:
        cu = P.unit(un)
        for fname, fd in cu.functions.items():
            for a in fd.walk():
                if a.kind != 'BinaryOperator' or a.opcode != '=' or not _is_field(a.inner[0].strip(), 'fval', 'Node'):
                    continue
                where = '%s:%d' % (un, a.line)
                key = '%s:%s:Node.fval-copied-unrounded' % (un, fname)
                core, chain = _ast_chain(a.inner[1])
                if chain is None or None in chain:
                    rep.undecided(rule, key, 'the value stored into Node.fval passes through a conversion that is not between float / double / long double', where=where); n += 1; continue
                if core.kind in ('FloatingLiteral', 'IntegerLiteral'):
                    continue
                chain = list(chain)
                if core.kind == 'DeclRefExpr' and core.ref_kind == 'ParmVarDecl':
                    # a constructor taking the value: the parameter is one more carrier; its callers provide the value
                    pp = PREC.get(_ctype(core.dtype or core.type))
                    params = [p.name for p in cu.params(fname)]
                    idx = params.index(core.ref_name) if core.ref_name in params else None
                    calls = [c for f2, fd2 in cu.functions.items() for c in fd2.calls(fname)] if idx is not None else []
                    srcs = []
                    for c in calls:
                        if idx < len(c.args()):
                            c2, ch2 = _ast_chain(c.args()[idx])
                            srcs.append((c2, ch2))
                    srcs = [(c2, ch2) for c2, ch2 in srcs if not (c2.kind in ('FloatingLiteral', 'IntegerLiteral'))]
                    if pp is None or not srcs or any(ch2 is None or None in ch2 or not _is_field(c2, 'fval', 'Token') for c2, ch2 in srcs):
                        if srcs or pp is None:
                            rep.undecided(rule, key, 'the value stored into Node.fval comes from parameter %s; its callers pass something else than Token.fval' % core.ref_name, where=where); n += 1
                        continue
                    worst = min(srcs, key=lambda s: min(s[1] + [INF]))
                    chain = worst[1] + [pp] + chain
                elif not _is_field(core, 'fval', 'Token'):
                    rep.undecided(rule, key, 'the value stored into Node.fval is %s: not a literal token\'s value' % core.src()[:60], where=where); n += 1
                    continue
                n += 1
                lo = min(chain + [INF])
                ok = lo >= widest
                rep.ob(rule, key if ok else key + '/' + slug(lo), ok,
                       'the constant\'s value passes through %s between Token.fval and Node.fval: long double constants lose digits, and float / double constants are rounded a second time '
                       'unless the tokenizer rounded them to that very format' % NAME.get(lo, '?'), where=where)
    if n == 0:
        rep.undecided(rule, 'parse.c:primary:Node.fval-copied-unrounded', 'no store of a token\'s value into Node.fval found')
    return pnode


# ------------------------------------------------------------------------------------------------------------------- stage 3
def _mentions(v, sym):
    if v is sym:
        return True
    if isinstance(v, Term):
        return any(_mentions(a, sym) for a in v.args)
    if isinstance(v, (list, tuple)):
        return any(_mentions(a, sym) for a in v)
    return False


def _cast_tops(v, sym, acc):
    """maximal sub-terms of v that are conversions(sym)"""
    core, chain = peel(v)
    if core is sym:
        acc.append(chain); return
    if isinstance(v, Term):
        for a in v.args:
            _cast_tops(a, sym, acc)
    elif isinstance(v, (list, tuple)):
        for a in v:
            _cast_tops(a, sym, acc)


def _code_args(tmpl, args):
    """arguments of an emitted template that are substituted before a `#` comment"""
    code = tmpl.split('#')[0]
    k = 0
    i = 0
    while i < len(code):
        if code[i] == '%':
            if i + 1 < len(code) and code[i + 1] == '%':
                i += 2; continue
            k += 1
        i += 1
    return args[:k]


def emission_chains(cg):
    """{cat: (chains | None, why)}: for a ND_NUM node of each floating type, the conversions node->fval goes through before its bytes are
    taken (from the immediates' argument terms and the stores on the path), on every returning path of gen_expr"""
    out = {}
    for cat, cname, glob in CATS:
        box = {}

        def mk(ctx, cat=cat):
            n = cg.node('node', 'ND_NUM')
            n.fields['ty'] = cg.tcell('ty', only=(cat,))
            box['fval'] = n.fields['fval'] = Sym('node.fval', 'long double')
            return n
        it, res = cg.explore('gen_expr', mk)
        chains, und, npaths = [], None, 0
        for ctx, o in res:
            if o[0] != 'ret':
                continue
            npaths += 1
            fv = box['fval']
            tops = []
            for e in ctx.events:
                if e[0] == 'emit':
                    _cast_tops(_code_args(e[1], e[2]), fv, tops)
                elif e[0] in ('store', 'fstore'):
                    _cast_tops(e[-2] if e[0] == 'store' else e[4], fv, tops)
            if not tops:
                und = 'the emitted immediates do not derive from node->fval on a path'
            for chain in tops:
                if None in chain:
                    und = 'node->fval passes through a type that is not float / double / long double'
                else:
                    chains.append(chain)
        if not npaths:
            und = 'no returning path'
        out[cat] = (None if und else chains, und)
    return out


def r_emission(P, rep, rule, cg, pnode):
    where = 'codegen.c:%d' % cg.cu.fn('gen_expr').line
    ech = emission_chains(cg)
    for cat, cname, glob in CATS:
        pT = PREC[cname]
        key = 'codegen.c:gen_expr:ND_NUM/%s:bytes-of-the-value-in-the-node-type' % cat
        chains, und = ech[cat]
        if chains is None:
            rep.undecided(rule, key, und, where=where); continue
        bad = {}
        for chain in chains:
            j = judge(chain, pT, start=pnode)
            if j:
                bad[j[0]] = 'the immediate of a %s constant is taken from a value that %s' % (cname, j[1])
        for tag, msg in sorted(bad.items()):
            rep.ob(rule, key + ':' + tag, False, msg, where=where)
        if not bad:
            rep.ob(rule, key, True, '', where=where)


def r_folder_literal(P, rep, rule, pnode):
    """eval_double on a literal: (T)node->fval, once (static initialisers take their bytes from this value)"""
    from .lib_types import Types
    from .lib_c02 import _interp
    pu = P.unit('parse.c')
    if pu.fn('eval_double') is None:
        raise AnalysisBroken('parse.c: eval_double vanished')
    T = Types(P)
    E = pu.enums
    where = 'parse.c:%d' % pu.fn('eval_double').line
    for cat, cname, glob in CATS:
        pT = PREC[cname]
        key = 'parse.c:eval_double:ND_NUM/%s:value-in-the-node-type' % cat
        it = _interp(P, pu)
        box = {}

        def mk(ctx, cat=cat, it=it):
            it.ctx = ctx
            n = Obj('Node', lazy=False, label='node')
            n.fields['kind'] = E['ND_NUM']; n.fields['ty'] = T.make(it, cat); n.fields['tok'] = Obj('Token', lazy=True, label='tok')
            box['fval'] = n.fields['fval'] = Sym('node.fval', 'long double')
            return [n]
        try:
            res = it.explore('eval_double', mk, max_paths=64)
        except AnalysisBroken as e:
            rep.undecided(rule, key, 'eval_double is not interpretable on a literal: %s' % e, where=where); continue
        bad, und, n = {}, None, 0
        for ctx, out in res:
            if out[0] != 'ret':
                continue
            n += 1
            core, chain = peel(out[1])
            if core is not box['fval']:
                und = 'the folder returns %r for a literal' % (out[1],); continue
            if None in chain:
                und = 'node->fval passes through a type that is not float / double / long double'; continue
            j = judge(chain, pT, start=pnode)
            if j:
                bad[j[0]] = 'the folded value of a %s constant %s (static initialisers and folded comparisons see another value than the generated code)' % (cname, j[1])
        for tag, msg in sorted(bad.items()):
            rep.ob(rule, key + ':' + tag, False, msg, where=where)
        if bad:
            continue
        if und or not n:
            rep.undecided(rule, key, und or 'no returning path', where=where)
        else:
            rep.ob(rule, key, True, '', where=where)


def r_literal_path(P, rep, rule, cg):
    pnode = r_carriers(P, rep, rule)
    if pnode is None:
        return
    r_emission(P, rep, rule, cg, pnode)
    r_folder_literal(P, rep, rule, pnode)
