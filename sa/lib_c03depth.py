"""C03 helper: `depth` counts what the generator has moved %rsp by at every place where `depth` is relied on.

A break/continue/goto that leaves a statement expression releases `8*depth - <bytes recorded at its label>` bytes (gen_jump), and a label
records `8*depth`. Both are right only if `depth`, at the moment a child (operand, sub-statement, address) is handed to the generator, has
grown by exactly the number of 8-byte slots the arm's own code has moved %rsp down by since the arm was entered: the child may contain the
jump or the label. R20.3 (C20) compares the two only at the END of an arm; an arm that parks an operand on the stack without counting it
(or counts one it has not parked) while it generates a child is balanced at its end and still makes every jump out of that child release
the wrong amount.

Decided here, per node kind of gen_expr / gen_addr / gen_stmt (abstract node of the kind, children cut by contract: stack-neutral, C20
R20.1/2/7) and for concrete call expressions: along the emitted code's own control flow, the %rsp displacement the emitted instructions
have accumulated when
  * a child is generated,
  * a label's `.set <symbol>, <8*depth>` record is emitted,
  * a release `add $<8*depth>-<symbol>, %rsp` is emitted
equals -8 * (`depth` at that moment - `depth` at entry of the arm).
"""
import re
from .chibi import Trace, linearise, parse_ins, stack_effect, JCC, apply_invariants
from .interp import Lin, Sym, Obj, View, Infeasible

U = 'codegen.c'
EV = 'c03-depth-at'
GEN = ('gen_expr', 'gen_addr', 'gen_stmt')
UNKNOWN = 'unknown'


def install(cg):
    """while cg._c03_at_on: every println and every hand-off of a child to gen_expr/gen_addr/gen_stmt of the explored generator is preceded by
    an event carrying the current value of `depth`"""
    if getattr(cg, '_c03_at', False):
        return
    orig = cg.interp

    def interp(*a, **kw):
        it = orig(*a, **kw)
        if getattr(cg, '_c03_at_on', False):
            for name in ('println',) + GEN:
                base = it.cut.get(name)
                if base is None:
                    continue

                def h(it_, ctx, n, args, base=base):
                    ctx.emit(EV, it_.read_global('depth'))
                    return base(it_, ctx, n, args)
                it.cut[name] = h
        return it
    cg.interp = interp
    cg._c03_at = True


class probing:
    def __init__(self, cg):
        self.cg = cg

    def __enter__(self):
        install(self.cg)
        self.cg._c03_at_on = True

    def __exit__(self, *a):
        self.cg._c03_at_on = False
        return False


class _One:
    def __init__(self, item):
        self.items = [item]


def nodes_depths(ctx, tr):
    """linearise(tr) and, per node, the value of `depth` when the line was emitted / the child handed over (None: not recorded)"""
    per_item = []
    cur = None
    for e in ctx.events:
        if e[0] == EV:
            cur = e[1]
        elif e[0] == 'emit' or e[0] in GEN:
            per_item.append(cur); cur = None
        elif e[0] in ('call', 'depth'):
            per_item.append(None)
    nodes, nd = [], []
    if len(per_item) != len(tr.items):
        return linearise(tr), None
    for item, d in zip(tr.items, per_item):
        part = linearise(_One(item))
        nodes += part
        nd += [d] * len(part)
    return nodes, nd


def rsp_heights(nodes):
    """per node index: the set of %rsp displacements (bytes, relative to the first node; UNKNOWN after an adjustment by a non-constant)
    with which the emitted code can reach the node, following its own jumps. -> (heights, problems)"""
    labels = {}
    for i, n in enumerate(nodes):
        if n[0] == 'label':
            labels.setdefault(n[1], []).append(i)
    problems = []

    def target(lab, i):
        m = re.match(r'^(\d+)([fb])$', lab)
        if m:
            c = labels.get(m.group(1), [])
            c = [j for j in c if j > i] if m.group(2) == 'f' else [j for j in c if j < i]
            return (min(c) if m.group(2) == 'f' else max(c)) if c else None
        c = labels.get(lab)
        return c[0] if c else None
    heights = {}
    external = set()
    work = [(0, 0)]
    steps = 0
    while work:
        i, h = work.pop()
        steps += 1
        if steps > 40000:
            problems.append('flow over the emitted code did not converge'); break
        if i >= len(nodes):
            continue
        hs = heights.setdefault(i, set())
        if h in hs:
            continue
        if len(hs) >= 4:
            problems.append('more than four stack heights reach one emitted line'); continue
        hs.add(h)
        n = nodes[i]
        if n[0] != 'ins':
            work.append((i + 1, h)); continue
        ins = parse_ins(n[1])
        if ins is None:
            work.append((i + 1, h)); continue
        mn, ops = ins
        if mn == 'jmp' or mn in JCC:
            t = ops[0] if ops else ''
            j = None if t.startswith('*') else target(t, i)
            if j is not None:
                work.append((j, h))
            elif not t.startswith('*') and not (i > 0 and nodes[i - 1][0] == 'ins' and _is_release(nodes[i - 1][1])):
                external.add(h)
            if mn != 'jmp':
                work.append((i + 1, h))
            continue
        if mn == 'ret':
            continue
        r, x, known = stack_effect(n[1])
        if isinstance(r, tuple):
            h = UNKNOWN
        elif h != UNKNOWN:
            h += r
        work.append((i + 1, h))
    # a child the emitted code only enters through labels inside that child (the body of a switch: the dispatch jumps to the case labels)
    # is entered with the heights of the arm's jumps to labels it does not define itself
    for i, n in enumerate(nodes):
        if n[0] == 'pseudo' and i not in heights and external:
            heights[i] = set(external)
    return heights, problems


def _is_release(text):
    ins = parse_ins(text)
    return bool(ins and ins[0] in ('add', 'addq', 'sub', 'subq') and len(ins[1]) == 2 and ins[1][1] == '%rsp' and _REL.match(ins[1][0]))


def _delta(depth, depth0):
    """depth - depth0 as an integer (None: not a constant)"""
    a, b = Lin.of(depth), Lin.of(depth0)
    if a is None or b is None:
        return None
    d = a.add(b, -1)            # simp(): a plain int when no symbol is left
    return d if isinstance(d, int) and not isinstance(d, bool) else None


_SET = re.compile(r'^\.set\s+(\S+?)\s*,')
_REL = re.compile(r'^\$(?:-?\d+|\{[^{}]*\})-\S+$')


def _label_of(o):
    l = getattr(o, 'label', None) or '?'
    l = l[5:] if l.startswith('node.') else l
    return re.sub(r'[^\w.\[\]]', '_', l)


def points(nodes, nd):
    """the places of one trace where `depth` is relied on: [(index, stable name, description)]"""
    out = []
    for i, n in enumerate(nodes):
        if n[0] == 'pseudo':
            out.append((i, 'child-%s' % _label_of(n[2]), 'the child `%s` is handed to gen_%s' % (_label_of(n[2]), n[1])))
        elif n[0] == 'ins':
            s = n[1].strip()
            m = _SET.match(s)
            if m and 'depth' in m.group(1):
                fld = re.sub(r'^.*?\{?(?:node\.)?([\w.]+)\}?$', r'\1', m.group(1))
                # (the record precedes its label; control arrives at the label)
                j = i + 1 if i + 1 < len(nodes) and nodes[i + 1][0] == 'label' else i
                out.append((i, 'record-%s' % fld, '`%s` records the bytes pushed at a label' % s, j))
                continue
            if _is_release(s):
                out.append((i, 'release', '`%s` releases the operands pushed beyond a label\'s record' % s))
    return out


class Collector:
    def __init__(self):
        self.res = {}      # key -> [ok, message, trace, where]
        self.und = {}      # key -> (why, where)
        self.npaths = 0

    def path(self, fname, kind, ctx, depth0, where):
        tr = Trace(ctx)
        nodes, nd = nodes_depths(ctx, tr)
        base = '%s:%s:%s' % (U, fname, kind)
        if nd is None:
            self.und[base + ':depth-counts-rsp'] = ('the trace of the arm could not be aligned with the recorded values of `depth`', where); return
        heights, problems = rsp_heights(nodes)
        self.npaths += 1
        for pt in points(nodes, nd):
            i, name, desc = pt[:3]
            at = pt[3] if len(pt) > 3 else i
            key = '%s:depth-counts-rsp-at-%s' % (base, name)
            if at not in heights:
                continue      # not reachable in the emitted code (R03.3 / C20 decide that)
            if nd[i] is None:
                self.und.setdefault(key, ('`depth` was not recorded where %s' % desc, where)); continue
            d = _delta(nd[i], depth0)
            for h in sorted(heights[at], key=str):
                if h == UNKNOWN:
                    self.und.setdefault(key, ('%s after %%rsp was moved by an amount that is not a constant' % desc, where)); continue
                if d is None:
                    self.und.setdefault(key, ('`depth` is %r where %s: not the value at entry plus a constant' % (nd[i], desc), where)); continue
                ok = (h == -8 * d)
                cur = self.res.get(key)
                if cur is None or (cur[0] and not ok):
                    msg = ('' if ok else
                           '%s while the code this arm of %s(%s) has emitted so far has moved %%rsp by %+d bytes but `depth` has changed by %+d (= %+d bytes): `depth` is what a '
                           'break/continue/goto inside that child releases the stack from (gen_jump: 8*depth - <bytes recorded at the label>) and what a label inside it records, so a jump out of a '
                           'statement expression in this position arrives with %%rsp %+d bytes off, every time it is taken (a loop walks off the stack / pops what it never pushed)'
                           % (desc, fname, kind, h, d, 8 * d, -(h + 8 * d)))
                    self.res[key] = [ok, msg, tr.text(), where]
        for p in problems:
            self.und.setdefault(base + ':depth-counts-rsp', (p, where))

    def issue(self, rep, rule):
        for key, (ok, msg, text, where) in sorted(self.res.items()):
            rep.ob(rule, key, ok, msg, where=where, facts={'trace': text})
        for key, (why, where) in sorted(self.und.items()):
            if key in self.res and not self.res[key][0]:
                continue       # a violation stands on its own
            rep.undecided(rule, key, why, where=where)


def run_kinds(cg, col, plan):
    """plan: [(function, kind, make_node)]"""
    d0 = Sym('depth0', 'int')
    with probing(cg):
        for fname, kind, mk in plan:
            fn = cg.cu.fn(fname)
            where = '%s:%d' % (U, fn.line if fn else 0)
            it, res = cg.explore(fname, mk)
            n = 0
            for ctx, out in res:
                if out[0] != 'ret':
                    continue
                try:
                    apply_invariants(it, ctx, ctx.root)
                except Infeasible:
                    continue
                n += 1
                col.path(fname, kind, ctx, d0, where)
            if n == 0:
                col.und['%s:%s:%s:depth-counts-rsp' % (U, fname, kind)] = ('no returning path of the arm', where)


def run_calls(cg, P, col, sigs):
    """call expressions on concrete argument lists (the arguments are the children): sigs = [(argument types, return type, depth at entry)]"""
    from .lib_abi import Builder
    from .rules.c06 import run_caller
    from .x86 import Unknown
    B = Builder(P)
    fn = cg.cu.fn('push_args') or cg.cu.fn('gen_expr')
    where = '%s:%d' % (U, fn.line if fn else 0)
    with probing(cg):
        for types, ret, depth0 in sigs:
            tag = 'call(%s)->%s/depth%%2=%d' % (','.join(types), ret, depth0 % 2)
            try:
                ctx, tr, s = run_caller(cg, B, types, ret, depth0)
            except Unknown as e:
                col.und['%s:gen_expr:ND_FUNCALL/%s:depth-counts-rsp' % (U, tag)] = (str(e), where); continue
            col.path('gen_expr', 'ND_FUNCALL/' + tag, ctx, depth0, where)
