"""C03 R03.17: function prototype scope (C11 6.2.1p4). Private helper of sa/rules/c03.py.

A parameter-type-list is parsed by a function that builds a function type (calls func_type) and hands each parameter declaration to the
declaration-specifier parser. The specifiers (and the declarator: array bounds, nested parameter lists) may declare tags and enumerators; they are
entered into the innermost scope. The rule replays enter_scope/leave_scope along every path of that function (or, when the function itself opens
no scope, along every path of each of its callers) and requires every parameter declaration to be parsed inside a scope opened for the list and
closed again before the declarator is complete."""
from .build import AnalysisBroken
from .interp import Interp, Obj, Sym, _Ref, VarPlace

RULE = 'R03.17'
U = 'parse.c'
OPEN, CLOSE = 'enter_scope', 'leave_scope'
FUNC_TYPE = 'func_type'
SPECIFIERS = 'declspec'


def _args(pu, f):
    def mk(ctx):
        out = []
        for p in pu.params(f):
            t = (p.type or '').replace(' ', '')
            if t.endswith('**'):
                out.append(_Ref(VarPlace({p.name: None}, p.name)))
            elif t.endswith('*'):
                out.append(Obj(t[:-1].replace('struct', '').replace('const', ''), lazy=True, label=p.name))
            else:
                out.append(Sym(p.name, p.type))
        return out
    return mk


def _callees(fd):
    return set(c.callee() for c in fd.find('CallExpr') if c.callee())


def _replay(P, pu, f, watched):
    """[(watched callee, scopes opened by f and still open at the call, line)] over all paths of f, and whether every returning path closes what it opened;
    the callees of f are opaque calls"""
    opaque = sorted(g for g in _callees(pu.functions[f]) if g != f and g in pu.functions)
    it = Interp(P, pu, {'opaque': opaque, 'loop_limit': 1})
    res = it.explore(f, _args(pu, f), max_paths=4000)
    sites = []
    balanced = True
    for ctx, out in res:
        depth = 0
        for e in ctx.events:
            if e[0] != 'call':
                continue
            if e[1] == OPEN:
                depth += 1
            elif e[1] == CLOSE:
                depth -= 1
            elif e[1] in watched:
                sites.append((e[1], depth, e[3]))
        if out[0] == 'ret' and depth != 0:
            balanced = False
    return sites, balanced, len(res)


def r_prototype_scope(P, rep):
    rep.rule(RULE, 'function prototype scope (C11 6.2.1p4, p7): every parameter declaration of a function declarator is parsed inside a scope that is opened for the parameter-type-list and closed again when '
                   'the list is complete, so a tag or enumerator declared there (`void g(int a[sizeof(enum { N = 7 })]);`, `void g(struct S { int x; } *p);`) does not enter - and hide or clash with '
                   'a declaration of - the enclosing scope', floor=1)
    pu = P.unit(U)
    for a in (OPEN, CLOSE, SPECIFIERS):
        if a not in pu.functions:
            raise AnalysisBroken('parse.c: %s vanished' % a)
    lists = sorted(f for f, fd in pu.functions.items() if f != FUNC_TYPE and {FUNC_TYPE, SPECIFIERS} <= _callees(fd))
    if not lists:
        rep.undecided(RULE, '%s:parameter-type-list' % U, 'no function that builds a function type from parsed parameter declarations (func_type + declspec) was recognised',
                      where='%s:%d' % (U, pu.fn(SPECIFIERS).line))
        return
    msg = ('%s() hands a parameter declaration to %s() in the scope the function declarator itself appears in: a tag or enumerator declared in the parameter list has function prototype scope '
           '(C11 6.2.1p4), but here it is entered into the enclosing (file or block) scope, stays visible after the declarator and hides an outer declaration of the same name '
           '(`enum { N = 1 }; void g(int a[sizeof(enum { N = 7 })]); int h(void) { return N; }` returns 7)')
    for f in lists:
        w = '%s:%d' % (U, pu.fn(f).line)
        try:
            sites, balanced, npaths = _replay(P, pu, f, {SPECIFIERS})
        except AnalysisBroken as e:
            rep.undecided(RULE, '%s:%s:prototype-scope' % (U, f), 'cannot explore: %s' % e, where=w)
            continue
        except Exception as e:
            rep.undecided(RULE, '%s:%s:prototype-scope' % (U, f), 'cannot explore: %s: %s' % (type(e).__name__, e), where=w)
            continue
        if not sites:
            rep.undecided(RULE, '%s:%s:prototype-scope' % (U, f), 'no path of %s reaches %s (%d paths)' % (f, SPECIFIERS, npaths), where=w)
            continue
        inside = all(d >= 1 for _, d, _ in sites)
        line = next((l for _, d, l in sites if d < 1), sites[0][2])
        if inside:
            rep.ob(RULE, '%s:%s:%s-parsed-inside-prototype-scope' % (U, f, SPECIFIERS), True, '', where='%s:%d' % (U, line))
            if not balanced and any(b.opcode == '=' and b.inner and b.inner[0].strip().ref_name == 'scope' for b in pu.functions[f].find('BinaryOperator')):
                rep.undecided(RULE, '%s:%s:prototype-scope-closed' % (U, f), '%s() assigns the scope chain directly instead of calling %s(): the replay of %s/%s calls cannot tell whether the list\'s scope is closed' % (f, CLOSE, OPEN, CLOSE), where=w)
                continue
            rep.ob(RULE, '%s:%s:prototype-scope-closed' % (U, f), balanced,
                   '%s() returns on some path with a scope it has opened for the parameter list still open: everything declared after the declarator lands in the prototype scope' % f, where=w)
            continue
        # the list parser opens no scope itself: every caller has to bracket the call
        callers = sorted(g for g, gd in pu.functions.items() if g != f and f in _callees(gd))
        ok = bool(callers) and not any(d >= 1 for _, d, _ in sites)
        und = None
        if ok:
            for g in callers:
                try:
                    s2, bal2, _ = _replay(P, pu, g, {f})
                except Exception as e:
                    und = 'cannot explore the caller %s: %s' % (g, e)
                    break
                if not s2 or not all(d >= 1 for _, d, _ in s2) or not bal2:
                    ok = False
                    break
        if und and ok:
            rep.undecided(RULE, '%s:%s:%s-parsed-inside-prototype-scope' % (U, f, SPECIFIERS), und, where='%s:%d' % (U, line))
        else:
            rep.ob(RULE, '%s:%s:%s-parsed-inside-prototype-scope' % (U, f, SPECIFIERS), ok, msg % (f, SPECIFIERS), where='%s:%d' % (U, line))
