"""C03 R03.17: function prototype scope (C11 6.2.1p4). Private helper of sa/rules/c03.py.

A parameter-type-list is parsed by a function that builds a function type (calls func_type) and hands each parameter declaration to the
declaration-specifier parser. The specifiers (and the declarator: array bounds, nested parameter lists) may declare tags and enumerators; they are
entered into the innermost scope. The rule replays enter_scope/leave_scope along every path of that function (or, when the function itself opens
no scope, along every path of each of its callers) and requires every parameter declaration to be parsed inside a scope opened for the list and
closed again before the declarator is complete."""
from .build import AnalysisBroken
from .interp import Interp, Obj, Sym, _Ref, VarPlace

RULE = 'R03.17'
U = 'parse.c'
OPEN, CLOSE = 'enter_scope', 'leave_scope'
FUNC_TYPE = 'func_type'
SPECIFIERS = 'declspec'


def _args(pu, f):
    def mk(ctx):
        out = []
        for p in pu.params(f):
            t = (p.type or '').replace(' ', '')
            if t.endswith('**'):
                out.append(_Ref(VarPlace({p.name: None}, p.name)))
            elif t.endswith('*'):
                out.append(Obj(t[:-1].replace('struct', '').replace('const', ''), lazy=True, label=p.name))
            else:
                out.append(Sym(p.name, p.type))
        return out
    return mk


def _callees(fd):
    return set(c.callee() for c in fd.find('CallExpr') if c.callee())


def _replay(P, pu, f, watched):
    """[(watched callee, scopes opened by f and still open at the call, line)] over all paths of f, and whether every returning path closes what it opened;
    the callees of f are opaque calls"""
    opaque = sorted(g for g in _callees(pu.functions[f]) if g != f and g in pu.functions)
    it = Interp(P, pu, {'opaque': opaque, 'loop_limit': 1})
    res = it.explore(f, _args(pu, f), max_paths=4000)
    sites = []
    balanced = True
    for ctx, out in res:
        depth = 0
        for e in ctx.events:
            if e[0] != 'call':
                continue
            if e[1] == OPEN:
                depth += 1
            elif e[1] == CLOSE:
                depth -= 1
            elif e[1] in watched:
                sites.append((e[1], depth, e[3]))
        if out[0] == 'ret' and depth != 0:
            balanced = False
    return sites, balanced, len(res)


def r_prototype_scope(P, rep):
    rep.rule(RULE, 'function prototype scope (C11 6.2.1p4, p7): every parameter declaration of a function declarator is parsed inside a scope that is opened for the parameter-type-list and closed again when '
                   'the list is complete, so a tag or enumerator declared there (`void g(int a[sizeof(enum { N = 7 })]);`, `void g(struct S { int x; } *p);`) does not enter - and hide or clash with '
                   'a declaration of - the enclosing scope', floor=1)
    pu = P.unit(U)
    for a in (OPEN, CLOSE, SPECIFIERS):
        if a not in pu.functions:
            raise AnalysisBroken('parse.c: %s vanished' % a)
    lists = sorted(f for f, fd in pu.functions.items() if f != FUNC_TYPE and {FUNC_TYPE, SPECIFIERS} <= _callees(fd))
    if not lists:
        rep.undecided(RULE, '%s:parameter-type-list' % U, 'no function that builds a function type from parsed parameter declarations (func_type + declspec) was recognised',
                      where='%s:%d' % (U, pu.fn(SPECIFIERS).line))
        return
    msg = ('%s() hands a parameter declaration to %s() in the scope the function declarator itself appears in: a tag or enumerator declared in the parameter list has function prototype scope '
           '(C11 6.2.1p4), but here it is entered into the enclosing (file or block) scope, stays visible after the declarator and hides an outer declaration of the same name '
           '(`enum { N = 1 }; void g(int a[sizeof(enum { N = 7 })]); int h(void) { return N; }` returns 7)')
    for f in lists:
        w = '%s:%d' % (U, pu.fn(f).line)
        try:
            sites, balanced, npaths = _replay(P, pu, f, {SPECIFIERS})
        except AnalysisBroken as e:
            rep.undecided(RULE, '%s:%s:prototype-scope' % (U, f), 'cannot explore: %s' % e, where=w)
            continue
        except Exception as e:
            rep.undecided(RULE, '%s:%s:prototype-scope' % (U, f), 'cannot explore: %s: %s' % (type(e).__name__, e), where=w)
            continue
        if not sites:
            rep.undecided(RULE, '%s:%s:prototype-scope' % (U, f), 'no path of %s reaches %s (%d paths)' % (f, SPECIFIERS, npaths), where=w)
            continue
        inside = all(d >= 1 for _, d, _ in sites)
        line = next((l for _, d, l in sites if d < 1), sites[0][2])
        if inside:
            rep.ob(RULE, '%s:%s:%s-parsed-inside-prototype-scope' % (U, f, SPECIFIERS), True, '', where='%s:%d' % (U, line))
            if not balanced and any(b.opcode == '=' and b.inner and b.inner[0].strip().ref_name == 'scope' for b in pu.functions[f].find('BinaryOperator')):
                rep.undecided(RULE, '%s:%s:prototype-scope-closed' % (U, f), '%s() assigns the scope chain directly instead of calling %s(): the replay of %s/%s calls cannot tell whether the list\'s scope is closed' % (f, CLOSE, OPEN, CLOSE), where=w)
                continue
            rep.ob(RULE, '%s:%s:prototype-scope-closed' % (U, f), balanced,
                   '%s() returns on some path with a scope it has opened for the parameter list still open: everything declared after the declarator lands in the prototype scope' % f, where=w)
            continue
        # the list parser opens no scope itself: every caller has to bracket the call
        callers = sorted(g for g, gd in pu.functions.items() if g != f and f in _callees(gd))
        ok = bool(callers) and not any(d >= 1 for _, d, _ in sites)
        und = None
        if ok:
            for g in callers:
                try:
                    s2, bal2, _ = _replay(P, pu, g, {f})
                except Exception as e:
                    und = 'cannot explore the caller %s: %s' % (g, e)
                    break
                if not s2 or not all(d >= 1 for _, d, _ in s2) or not bal2:
                    ok = False
                    break
        if und and ok:
            rep.undecided(RULE, '%s:%s:%s-parsed-inside-prototype-scope' % (U, f, SPECIFIERS), und, where='%s:%d' % (U, line))
        else:
            rep.ob(RULE, '%s:%s:%s-parsed-inside-prototype-scope' % (U, f, SPECIFIERS), ok, msg % (f, SPECIFIERS), where='%s:%d' % (U, line))


# ----------------------------------------------------------------------- R03.20: the body of a definition continues the parameter list's scope ---
BODY_RULE = 'R03.20'
BODY_PARSER = 'compound_stmt'
DECLARATOR = 'declarator'


def _scope_links(pu, rec):
    return [f for f, t, _ in pu.records.get(rec, []) if (t or '').replace(' ', '').replace('struct', '') == 'Scope*']


def _settled(it, v):
    from .interp import View
    return it.settle(v) if isinstance(v, View) else v


def _same_value(a, b):
    """b is a itself or the copy a structure assignment makes of it (the interpreter copies an object assigned by value: same origin, same members)"""
    if a is b:
        return True
    if not (isinstance(a, Obj) and isinstance(b, Obj)) or a.tname != b.tname or not a.label or a.label != b.label:
        return False
    return all(a.fields[k] is b.fields[k] or (isinstance(a.fields[k], (int, str)) and a.fields[k] == b.fields[k]) for k in a.fields if k in b.fields)


def declare_body_scope(rep):
    rep.rule(BODY_RULE, 'the body of a function definition continues the scope of its parameter list (C11 6.2.1p4: a parameter-list declaration of a definition has block scope, which ends with the body), for '
                        'every name space alike: when the declarator\'s function type carries the scope its parameter list was parsed in, the body is parsed either in that very scope or in a scope each of whose '
                        'tables (every member of Scope that is not a link to another scope: ordinary identifiers, tags) starts as the table the parameter list filled, so an enumerator or tag declared among the '
                        'parameters (`int f(enum { LO, HI } sel) { return sel == HI; }`) is the innermost visible declaration of its name in the body', floor=2)


def r_body_scope(P, rep, pu, it, f, paths):
    """paths: decl_events() of the function-definition parser f (enter_scope / leave_scope opaque, field stores tracked)"""
    from .interp import View
    w = '%s:%d' % (U, pu.fn(f).line)
    saved_fields = _scope_links(pu, 'Type')
    tables = [x for x, t, _ in pu.records.get('Scope', []) if x not in _scope_links(pu, 'Scope')]
    if not saved_fields or not tables:
        rep.undecided(BODY_RULE, '%s:%s:body-scope' % (U, f), 'no member of Type that records a scope / no table member of Scope: how the body gets at the declarations of the parameter list is not recognised', where=w)
        return
    n = 0
    for ctx, o, evs in paths:
        calls = [(i, e) for i, e in enumerate(ctx.events) if e[0] == 'call']
        body = next((i for i, e in calls if e[1] == BODY_PARSER), None)
        if body is None:
            continue
        it.ctx = ctx
        ty = next((_settled(it, e[4]) for i, e in calls if e[1] == DECLARATOR and i < body), None)
        if not isinstance(ty, Obj):
            continue
        cur = _settled(it, ctx.globals.get('scope'))
        for sf in saved_fields:
            if sf not in ty.fields:
                saved = None            # the path never looks at it
            else:
                saved = _settled(it, ty.fields[sf])
                if isinstance(saved, View):
                    saved = None
                elif not isinstance(saved, Obj):
                    continue            # the path has established that no parameter-list scope was recorded (null): nothing to continue
            for t in tables:
                key = '%s:%s:body-starts-with-parameter-list-%s' % (U, f, t)
                n += 1
                if saved is None:
                    rep.ob(BODY_RULE, key, False, '%s() hands the body to %s() on a path that never consults the scope its parameter list was parsed in (Type.%s): what the parameter list declared besides the '
                           'parameters themselves - enumerators, tags - is not visible in the body' % (f, BODY_PARSER, sf), where=w, facts={'path': ctx.trail[-6:]})
                    continue
                if cur is saved:
                    rep.ob(BODY_RULE, key, True, '', where=w)
                    continue
                if cur is not None and not isinstance(cur, Obj):
                    rep.undecided(BODY_RULE, key, 'the innermost scope at the hand-off to %s() is not an object the analysis follows' % BODY_PARSER, where=w)
                    continue
                want = _settled(it, saved.fields.get(t)) if t in saved.fields else None
                last = None
                for e in ctx.events[:body]:
                    if cur is not None and e[0] == 'fstore' and e[1] is cur and e[2] == t:
                        last = _settled(it, e[4])
                rep.ob(BODY_RULE, key, last is not None and want is not None and _same_value(want, last),
                       '%s() opens the scope of the body and hands the body to %s() while the new scope\'s `%s` table %s: the body continues the scope of the parameter list (C11 6.2.1p4), but a name the parameter list '
                       'entered into that table - %s - is not found there, so a use in the body binds to a file-scope declaration of the same name or is rejected as undeclared '
                       '(`enum { LO = 1, HI = 2 }; int f(enum { LO = 10, HI = 20 } sel) { return HI; }` returns 2)'
                       % (f, BODY_PARSER, t, 'is not the one the parameter list filled (Type.%s->%s)' % (sf, t) if last is not None else 'starts empty - it is never set from Type.%s->%s' % (sf, t),
                          'an enumerator' if t != 'tags' else 'a struct/union/enum tag'), where=w, facts={'path': ctx.trail[-6:]})
    if not n:
        rep.undecided(BODY_RULE, '%s:%s:body-scope' % (U, f), 'no path of %s() hands a body to %s() with a function type whose parameter-list scope is known to be recorded or absent' % (f, BODY_PARSER), where=w)


def r_scope_recorded(P, rep):
    """the other half of R03.20: the parameter-type-list parser records, in the function type it returns, the scope the list was parsed in"""
    pu = P.unit(U)
    saved_fields = _scope_links(pu, 'Type')
    lists = sorted(f for f, fd in pu.functions.items() if f != FUNC_TYPE and {FUNC_TYPE, SPECIFIERS, OPEN} <= _callees(fd))
    if not saved_fields or not lists:
        return          # r_body_scope reports the missing member; a list parser that opens no scope itself is R03.17's business
    for f in lists:
        w = '%s:%d' % (U, pu.fn(f).line)
        key = '%s:%s:returned-function-type-records-the-list-scope' % (U, f)
        try:
            opaque = sorted(g for g in _callees(pu.functions[f]) if g not in (f, OPEN, CLOSE) and g in pu.functions)
            it = Interp(P, pu, {'opaque': opaque, 'loop_limit': 1, 'track_stores': True, 'globals': {'scope': lambda ctx: Obj('Scope', lazy=True, label='scope')}})
            res = it.explore(f, _args(pu, f), max_paths=4000)
        except Exception as e:
            rep.undecided(BODY_RULE, key, 'cannot explore: %s: %s' % (type(e).__name__, e), where=w)
            continue
        n = 0
        for ctx, out in res:
            if out[0] != 'ret' or not any(e[0] == 'call' and e[1] == SPECIFIERS for e in ctx.events):
                continue
            it.ctx = ctx
            r = _settled(it, out[1])
            made = [e[1] for e in ctx.events if e[0] == 'fstore' and isinstance(e[1], Obj) and e[1].tname == 'Scope' and e[2] in _scope_links(pu, 'Scope') and e[3] is None]
            if not isinstance(r, Obj) or len(made) != 1:
                rep.undecided(BODY_RULE, key, 'a path of %s() that parses parameter declarations opens %d scopes / returns a value the analysis does not follow' % (f, len(made)), where=w)
                continue
            n += 1
            for sf in saved_fields:
                v = _settled(it, r.fields.get(sf)) if sf in r.fields else None
                rep.ob(BODY_RULE, key, v is made[0],
                       '%s() parses the parameter declarations in a scope of their own and returns a function type whose `%s` is %s: a function definition continues that scope in its body (C11 6.2.1p4), '
                       'but the tables the list filled are lost, so an enumerator or tag declared among the parameters is not visible in the body'
                       % (f, sf, 'not set' if v is None else 'another scope than the one the list was parsed in'), where=w, facts={'path': ctx.trail[-6:]})
        if not n:
            rep.undecided(BODY_RULE, key, 'no returning path of %s() parses a parameter declaration' % f, where=w)
