"""C03 R03.18: the size expression of a variable length array type is evaluated exactly once, when its declarator is reached
(C11 6.7.6.2p5, 6.8p3; 6.7.8p3 for a typedef name). Private helper of sa/rules/c03.py.

The length expression of a VLA type is a tree stored in the Type (`vla_len`); Types are shared by every declaration that names the type through a
typedef name (or typeof). Two structural facts are decided over all paths:
 (A) a function that links the stored length tree into generated code (passes the value of a `vla_len` field to a node constructor) does so only on
     paths that have established that the size of that very type has not been computed yet (its `vla_size` is null) - otherwise each object declared
     with the typedef name evaluates the expression again (side effects repeated, and the size is that of the wrong moment);
 (B) a function that binds a typedef name to the type of a declarator (stores it into `type_def`) hands that type to a size-computing function on
     the same path, so that the expression is evaluated when the typedef is reached."""
from .build import AnalysisBroken
from .interp import Interp, View, Obj
from .lib_c03proto import _args, _callees

RULE = 'R03.18'
U = 'parse.c'
LEN_FIELD, SIZE_FIELD, TYPEDEF_FIELD = 'vla_len', 'vla_size', 'type_def'
DECLARATOR = 'declarator'


def _label(v):
    return v.cell.label if isinstance(v, View) else None


def _reads(fd, field):
    return any(m.name == field for m in fd.find('MemberExpr'))


def _explore(P, pu, f, stores=False):
    opaque = sorted(g for g in _callees(pu.functions[f]) if g in pu.functions)
    cfg = {'opaque': opaque, 'loop_limit': 1}
    if 'scope' in pu.globals:
        def any_scope(ctx):
            # any scope, not the file scope of the initializer: the enclosing scope may or may not exist
            from .interp import Cell
            sc = Obj('Scope', lazy=True, label='scope')
            sc.fields['next'] = View(Cell([0, Obj('Scope', lazy=True, label='scope.next')], 'scope.next'))
            return sc
        cfg['globals'] = {'scope': any_scope}
    if stores:
        cfg['track_stores'] = True
    it = Interp(P, pu, cfg)
    return it, it.explore(f, _args(pu, f), max_paths=4000)


def r_vla_once(P, rep):
    rep.rule(RULE, 'the size expression of a variable length array type is evaluated exactly once, when the declarator that contains it is reached: the length tree stored in a Type is linked into the generated '
                   'code only while the size of that type has not been computed yet (a typedef name / typeof shares the Type between declarations: `typedef int A[f()]; A x; A y;` calls f once), and a typedef '
                   'declaration computes the size of the type it names where it stands (`typedef int A[n]; n = 5; A x;` has the old n elements; C11 6.7.8p3)', floor=2)
    pu = P.unit(U)
    if DECLARATOR not in pu.functions:
        raise AnalysisBroken('parse.c: %s vanished' % DECLARATOR)
    cgr = {f: _callees(fd) for f, fd in pu.functions.items()}
    # (A)
    linkers = []
    for f in sorted(pu.functions):
        fd = pu.functions[f]
        if not _reads(fd, LEN_FIELD):
            continue
        w = '%s:%d' % (U, fd.line)
        try:
            it, res = _explore(P, pu, f)
        except Exception as e:
            rep.undecided(RULE, '%s:%s:%s-linked-once' % (U, f, LEN_FIELD), 'cannot explore: %s: %s' % (type(e).__name__, e), where=w)
            continue
        links = 0
        ok = True
        line = fd.line
        for ctx, out in res:
            for e in ctx.events:
                if e[0] != 'call':
                    continue
                for a in e[2]:
                    lab = _label(a)
                    if not lab or not lab.endswith('.' + LEN_FIELD):
                        continue
                    links += 1
                    owner = lab[:-len(LEN_FIELD) - 1]
                    guard = '%s.%s in {NULL}' % (owner, SIZE_FIELD)
                    if guard not in ctx.trail:
                        ok = False
                        line = e[3]
        if not links:
            continue        # reads the field without linking it (a test, a copy)
        linkers.append(f)
        rep.ob(RULE, '%s:%s:%s-linked-once' % (U, f, LEN_FIELD), ok,
               '%s() links the length expression stored in a VLA type (`%s`) into the generated code on a path that has not established that the size of this type is still to be computed (`%s` null): '
               'the Type is shared by every declaration that uses a typedef name of it, so the expression is evaluated again for each object (`typedef int A[f()]; A x; A y;` calls f twice, gcc once) '
               'and an object gets the size of the moment of its own declaration instead of the typedef\'s' % (f, LEN_FIELD, SIZE_FIELD), where='%s:%d' % (U, line))
    if not linkers:
        rep.undecided(RULE, '%s:%s-linker' % (U, LEN_FIELD), 'no function of parse.c that links the stored length expression of a VLA type into generated code was recognised', where='%s:1' % U)
        return

    def reaches_linker(g, seen=None):
        seen = set() if seen is None else seen
        if g in linkers:
            return True
        seen.add(g)
        return any(h in pu.functions and h not in seen and reaches_linker(h, seen) for h in cgr.get(g, ()))
    # (B)
    binders = 0
    for f in sorted(pu.functions):
        fd = pu.functions[f]
        if DECLARATOR not in cgr[f] or not _reads(fd, TYPEDEF_FIELD):
            continue
        w = '%s:%d' % (U, fd.line)
        try:
            it, res = _explore(P, pu, f, stores=True)
        except Exception as e:
            rep.undecided(RULE, '%s:%s:typedef-size-computed' % (U, f), 'cannot explore: %s: %s' % (type(e).__name__, e), where=w)
            continue
        bound = computing = 0
        ok = True
        for ctx, out in res:
            if out[0] != 'ret':
                continue
            decls = set()
            computed = set()
            exempt = set()      # types the path has found not to be variably modified (a predicate on the type answered false)
            stored = []
            for e in ctx.events:
                if e[0] == 'call' and e[1] == DECLARATOR:
                    decls.add(_label(e[4]))
                elif e[0] == 'call' and e[1] in pu.functions and reaches_linker(e[1]):
                    computed.update(_label(a) for a in e[2])
                elif e[0] == 'call' and isinstance(e[4], View) and len(e[2]) == 1:
                    try:
                        vals = [e[4].proj(c) for c in e[4].cell.cands]
                    except Exception:
                        vals = [None]
                    if vals and all(isinstance(v, int) and v == 0 for v in vals):
                        exempt.add(_label(e[2][0]))
                elif e[0] == 'fstore' and e[2] == TYPEDEF_FIELD:
                    stored.append(_label(e[4]))
            file_scope = 'scope.next in {NULL}' in ctx.trail or 'scope.next in {0}' in ctx.trail
            for lab in stored:
                if lab is None or lab not in decls:
                    continue
                bound += 1
                if lab in computed:
                    computing += 1
                elif lab not in exempt and not file_scope:
                    ok = False
        if not bound:
            continue
        binders += 1
        ok = ok and computing > 0
        rt = (fd.type or '').split('(')[0].strip().replace(' ', '')
        key = '%s:%s:typedef-size-computed' % (U, f)
        if ok or rt not in ('Node*', 'Type*'):
            rep.ob(RULE, key, ok,
                   '%s() binds a typedef name to the type of a declarator without handing the type to a function that generates the computation of its size (%s), and has no way to hand code back to the block: '
                   'the size expression of a variably modified typedef is not evaluated where the typedef stands but at every later declaration that uses the name '
                   '(`int n = 2; typedef int A[n]; n = 5; A x;` makes x 5 elements, C11 6.7.8p3 says 2)' % (f, ', '.join(linkers)), where=w)
        else:
            rep.undecided(RULE, key, 'the typedef binder returns a %s; whether its caller generates the size computation is not followed' % rt, where=w)
    if not binders:
        rep.undecided(RULE, '%s:typedef-binder' % U, 'no function that binds a typedef name to a declarator\'s type (%s() result stored into `%s`) was recognised' % (DECLARATOR, TYPEDEF_FIELD), where='%s:1' % U)
