"""C03 R03.18 (see r_vla_once for the clause as decided now; a typedef binder may also FREEZE the lengths: bind a private copy of the type whose
length trees are reads of hidden variables assigned once by code emitted where the typedef stands - re-linking such a tree is harmless).
The size expression of a variable length array type is evaluated exactly once, when its declarator is reached
(C11 6.7.6.2p5, 6.8p3; 6.7.8p3 for a typedef name). Private helper of sa/rules/c03.py.

The length expression of a VLA type is a tree stored in the Type (`vla_len`); Types are shared by every declaration that names the type through a
typedef name (or typeof). Two structural facts are decided over all paths:
 (A) a function that links the stored length tree into generated code (passes the value of a `vla_len` field to a node constructor) does so only on
     paths that have established that the size of that very type has not been computed yet (its `vla_size` is null) - otherwise each object declared
     with the typedef name evaluates the expression again (side effects repeated, and the size is that of the wrong moment);
 (B) a function that binds a typedef name to the type of a declarator (stores it into `type_def`) hands that type to a size-computing function on
     the same path, so that the expression is evaluated when the typedef is reached."""
from .build import AnalysisBroken
from .interp import Interp, View, Obj, Cell, _Ref, VarPlace, Sym
from .lib_c03proto import _callees

RULE = 'R03.18'
U = 'parse.c'
LEN_FIELD, SIZE_FIELD, TYPEDEF_FIELD = 'vla_len', 'vla_size', 'type_def'
DECLARATOR = 'declarator'


def _label(v):
    return v.cell.label if isinstance(v, View) else None


def _args(pu, f):
    """like lib_c03proto._args, but an out-parameter (`T **p`) may be null or point to a place that holds null or a T; the place is kept in ctx.c03_out[p]"""
    def mk(ctx):
        out = []
        ctx.c03_out = {}
        for p in pu.params(f):
            t = (p.type or '').replace(' ', '')
            if t.endswith('**'):
                env = {p.name: View(Cell([0, Obj(t[:-2].replace('struct', ''), lazy=True, label='*' + p.name)], '*' + p.name))}
                ctx.c03_out[p.name] = env
                out.append(View(Cell([0, _Ref(VarPlace(env, p.name))], p.name)))
            elif t.endswith('*'):
                out.append(Obj(t[:-1].replace('struct', '').replace('const', ''), lazy=True, label=p.name))
            else:
                out.append(Sym(p.name, p.type))
        return out
    return mk


def _vals(v):
    """the values a view can still have on this path (None: not enumerable)"""
    if isinstance(v, int):
        return [v]
    if isinstance(v, View):
        try:
            return [v.proj(c) for c in v.cell.cands]
        except Exception:
            return None
    return None


def _is_null(v):
    vs = _vals(v)
    return bool(vs) and all(isinstance(x, int) and x == 0 for x in vs)


def _out_params(pu, f):
    return [(i, p.name) for i, p in enumerate(pu.params(f)) if (p.type or '').replace(' ', '').endswith('**') and 'Node' in (p.type or '')]


def _reads(fd, field):
    return any(m.name == field for m in fd.find('MemberExpr'))


def _explore(P, pu, f, stores=False):
    opaque = sorted(g for g in _callees(pu.functions[f]) if g in pu.functions)
    cfg = {'opaque': opaque, 'loop_limit': 1}
    if 'scope' in pu.globals:
        def any_scope(ctx):
            # any scope, not the file scope of the initializer: the enclosing scope may or may not exist
            from .interp import Cell
            sc = Obj('Scope', lazy=True, label='scope')
            sc.fields['next'] = View(Cell([0, Obj('Scope', lazy=True, label='scope.next')], 'scope.next'))
            return sc
        cfg['globals'] = {'scope': any_scope}
    if stores:
        cfg['track_stores'] = True
    it = Interp(P, pu, cfg)
    return it, it.explore(f, _args(pu, f), max_paths=4000)


def _freezer(P, pu, rep, g, var_readers):
    """does g(type, .., out) return a type none of whose VLA lengths is the tree the declarator stored: the type itself only when it is not variably modified, else a fresh Type whose base went
    through g and whose `vla_len` (if it can be a VLA) is a read of a fresh variable that an assignment handed out through the out-parameter sets to the old tree. -> (True|False|None, why)"""
    fd = pu.functions[g]
    outs = _out_params(pu, g)
    tps = [q.name for q in pu.params(g) if (q.type or '').replace(' ', '') in ('Type*', 'structType*')]
    if len(outs) != 1 or len(tps) != 1:
        return None, '%s() has not exactly one Type and one Node ** parameter' % g
    oname, tname = outs[0][1], tps[0]
    E = pu.enums
    try:
        it, res = _explore(P, pu, g, stores=True)
    except Exception as e:
        return None, 'cannot explore %s: %s: %s' % (g, type(e).__name__, e)
    nfrozen = 0
    for ctx, out in res:
        if out[0] != 'ret':
            continue
        it.ctx = ctx
        R = out[1]
        R = it.settle(R) if isinstance(R, View) and not isinstance(it.settle(R), View) else R
        calls = [e for e in ctx.events if e[0] == 'call']
        byres = {_label(e[4]): e for e in calls if _label(e[4])}
        if isinstance(R, View) or (isinstance(R, Obj) and R.label == tname):
            lab = _label(R) if isinstance(R, View) else R.label
            if lab != tname:
                return None, '%s() returns a type that is neither its argument nor a fresh one (%s)' % (g, lab)
            if not any(len(e[2]) == 1 and (getattr(e[2][0], 'label', None) == tname or _label(e[2][0]) == tname) and _is_null(e[4]) for e in calls):
                if any(e[0] == 'fstore' and e[2] in (LEN_FIELD, 'base') for e in ctx.events):
                    return None, '%s() changes the lengths of the declarator\'s type in place; whether that type is shared with another declaration is not followed' % g
                return False, '%s() returns the type unchanged on a path that has not found it free of variable length arrays' % g
            continue
        if not isinstance(R, Obj):
            return None, '%s() returns %r' % (g, R)
        b = R.fields.get('base')
        be = byres.get(_label(b))
        if not _is_null(b) and not (be is not None and be[1] == g and any(_label(a) == oname for a in be[2])):
            return False, '%s() keeps the element type of the copy as it was: the lengths of the inner dimensions are still the declarator\'s expressions' % g
        kv = _vals(R.fields.get('kind'))
        if kv is not None and all(isinstance(x, int) for x in kv) and E.get('TY_VLA') not in kv:
            continue
        ve = byres.get(_label(R.fields.get(LEN_FIELD)))
        if ve is None or ve[1] not in var_readers or not ve[2]:
            return False, '%s() leaves the declarator\'s length expression in `%s` of the type it returns' % (g, LEN_FIELD)
        var = _label(ve[2][0])
        if var not in byres or byres[var][1] not in pu.functions:
            return False, '%s(): the variable that stands for the length is not a fresh one' % g
        asg = [e for e in calls if len(e[2]) >= 3 and e[2][0] == E.get('ND_ASSIGN') and byres.get(_label(e[2][1])) is not None and byres[_label(e[2][1])][1] in var_readers
               and _label(byres[_label(e[2][1])][2][0]) == var and (_label(e[2][2]) or '').endswith('.' + LEN_FIELD)]
        if not asg:
            return False, '%s(): no assignment of the declarator\'s length expression to the variable that replaces it is built' % g
        final = ctx.c03_out[oname][oname]
        fl = _label(final)
        handed = any(fl == _label(a[4]) or (fl in byres and any(_label(x) == _label(a[4]) for x in byres[fl][2])) for a in asg)
        if not handed:
            return False, '%s() does not hand the assignment that sets the length variable out through `*%s`: the variable is never set' % (g, oname)
        nfrozen += 1
    if not nfrozen:
        return None, 'no path of %s() that freezes a length was seen' % g
    return True, ''


def _code_emitted(pu, f, idx, cgr):
    """every caller of the binder f either passes no place for code and runs at file scope only, or links what comes back into a tree. -> [(caller, True|False|None, why, line)]"""
    openers = set(h for h in pu.functions if 'enter_scope' in cgr[h])

    def reach(h, seen):
        for k in cgr.get(h, ()):
            if k in pu.functions and k not in seen:
                seen.add(k); reach(k, seen)
        return seen
    in_block = set()
    for h in openers:
        in_block |= reach(h, {h})
    out = []
    for h in sorted(pu.functions):
        for c in pu.functions[h].calls(f):
            a = c.args()
            if idx >= len(a):
                out.append((h, None, 'call without the code argument', c.line)); continue
            x = a[idx].strip_all()
            if x.int_value() == 0:
                out.append((h, h not in in_block, '%s() passes no place for the code of a typedef although it can run inside a block' % h, c.line)); continue
            if x.kind == 'UnaryOperator' and x.opcode == '&' and x.inner and x.inner[0].strip().kind == 'DeclRefExpr':
                vid = x.inner[0].strip().ref_id
                linked = False
                for k in pu.functions[h].find('CallExpr'):
                    if k is c or not any(r.ref_id == vid for ar in k.args() for r in ar.find('DeclRefExpr')):
                        continue
                    for anc in k.ancestors():
                        if anc.kind == 'ReturnStmt' or (anc.kind == 'BinaryOperator' and anc.opcode == '=' and anc.inner[0].strip().kind == 'MemberExpr'):
                            linked = True
                out.append((h, linked, '%s() does not link the code a typedef hands back into the statements of the block: the lengths are never evaluated' % h, c.line)); continue
            out.append((h, None, 'the code argument of %s() in %s() is neither null nor the address of a local' % (f, h), c.line))
    return out


def r_vla_once(P, rep):
    rep.rule(RULE, 'the length expression a declarator wrote (the tree the declarator stores in `vla_len` of the Type) is evaluated exactly once, where the declarator stands: a function links that tree into the '
                   'generated code a second time (for another declaration that shares the Type through a typedef name: `typedef int A[f()]; A x; A y;` calls f once) only if the size of that type has not been '
                   'computed yet, or if the tree is by then a read of a variable (no side effect, no re-evaluation of the program\'s expression); a typedef declaration either computes the size of the type it names '
                   'where it stands or binds the name to a copy whose lengths are all such variables, set once by code emitted where the typedef stands (`typedef int A[n]; n = 5; A x;` has the old n elements; '
                   'C11 6.7.8p3)', floor=2)
    pu = P.unit(U)
    if DECLARATOR not in pu.functions:
        raise AnalysisBroken('parse.c: %s vanished' % DECLARATOR)
    cgr = {f: _callees(fd) for f, fd in pu.functions.items()}
    var_readers = set(f for f, fd in pu.functions.items() if (fd.type or '').split('(')[0].replace(' ', '') == 'Node*'
                      and any(r.ref_name == 'ND_VAR' for r in fd.find('DeclRefExpr')) and not any(c.callee() in pu.functions for c in fd.find('CallExpr') if c.callee() != 'new_node'))
    # (A) who links the stored tree, and under which guard
    linkers, relinks, first = [], {}, {}
    for f in sorted(pu.functions):
        fd = pu.functions[f]
        if not _reads(fd, LEN_FIELD):
            continue
        w = '%s:%d' % (U, fd.line)
        try:
            it, res = _explore(P, pu, f, stores=True)
        except Exception as e:
            rep.undecided(RULE, '%s:%s:%s-linked-once' % (U, f, LEN_FIELD), 'cannot explore: %s: %s' % (type(e).__name__, e), where=w)
            continue
        links = 0
        bad = None
        for ctx, out in res:
            replaced = set(e[1].label if isinstance(e[1], Obj) else _label(e[1]) for e in ctx.events if e[0] == 'fstore' and e[2] == LEN_FIELD)
            for e in ctx.events:
                if e[0] != 'call':
                    continue
                for a in e[2]:
                    lab = _label(a)
                    if not lab or not lab.endswith('.' + LEN_FIELD):
                        continue
                    links += 1
                    owner = lab[:-len(LEN_FIELD) - 1]
                    guard = '%s.%s in {NULL}' % (owner, SIZE_FIELD)
                    if guard not in ctx.trail and not replaced:
                        bad = e[3]
        if not links:
            continue        # reads the field without linking it (a test, a copy)
        linkers.append(f)
        if bad is None:
            first[f] = fd.line
        else:
            relinks[f] = bad
    if not linkers:
        rep.undecided(RULE, '%s:%s-linker' % (U, LEN_FIELD), 'no function of parse.c that links the stored length expression of a VLA type into generated code was recognised', where='%s:1' % U)
        return

    def reaches_linker(g, seen=None):
        seen = set() if seen is None else seen
        if g in linkers:
            return True
        seen.add(g)
        return any(h in pu.functions and h not in seen and reaches_linker(h, seen) for h in cgr.get(g, ()))
    # (B)
    binders = 0
    all_frozen = True       # every typedef binder binds only types whose lengths are variable reads
    for f in sorted(pu.functions):
        fd = pu.functions[f]
        if DECLARATOR not in cgr[f] or not _reads(fd, TYPEDEF_FIELD):
            continue
        w = '%s:%d' % (U, fd.line)
        fouts = dict((n, i) for i, n in _out_params(pu, f))
        try:
            it, res = _explore(P, pu, f, stores=True)
        except Exception as e:
            rep.undecided(RULE, '%s:%s:typedef-size-computed' % (U, f), 'cannot explore: %s: %s' % (type(e).__name__, e), where=w)
            all_frozen = False
            continue
        bound = computing = 0
        ok = True
        freezers, nocode = set(), set()
        for ctx, out in res:
            if out[0] != 'ret':
                continue
            decls = set()
            computed = set()
            exempt = set()      # types the path has found not to be variably modified (a predicate on the type answered false)
            via = {}            # result of a parse.c function applied to a declarator's type and to this function's place for code
            stored = []
            for e in ctx.events:
                if e[0] == 'call' and e[1] == DECLARATOR:
                    decls.add(_label(e[4]))
                elif e[0] == 'call' and e[1] in pu.functions and reaches_linker(e[1]) and not any(_label(a) in fouts for a in e[2]):
                    computed.update(_label(a) for a in e[2])
                elif e[0] == 'call' and e[1] in pu.functions and any(_label(a) in decls for a in e[2]) and any(_label(a) in fouts for a in e[2]):
                    via[_label(e[4])] = (e[1], [n for n in fouts if any(_label(a) == n for a in e[2])][0])
                elif e[0] == 'call' and isinstance(e[4], View) and len(e[2]) == 1:
                    if _is_null(e[4]):
                        exempt.add(_label(e[2][0]))
                elif e[0] == 'fstore' and e[2] == TYPEDEF_FIELD:
                    stored.append(_label(e[4]))
            file_scope = 'scope.next in {NULL}' in ctx.trail or 'scope.next in {0}' in ctx.trail
            for lab in stored:
                if lab in via:
                    bound += 1
                    freezers.add(via[lab])
                    continue
                if lab is None or lab not in decls:
                    continue
                bound += 1
                if lab in computed:
                    computing += 1
                elif lab not in exempt and not file_scope:
                    none = [n for n in fouts if '%s in {0}' % n in ctx.trail or '%s in {NULL}' % n in ctx.trail]
                    if none:
                        nocode.update(none)     # the caller gave no place for code: decided at the callers
                    else:
                        ok = False
        if not bound:
            continue
        binders += 1
        key = '%s:%s:typedef-size-computed' % (U, f)
        if freezers:
            for g, oparam in sorted(freezers):
                v, why = _freezer(P, pu, rep, g, var_readers)
                k2 = '%s:%s:typedef-lengths-frozen' % (U, g)
                if v is None:
                    rep.undecided(RULE, k2, why, where='%s:%d' % (U, pu.functions[g].line))
                else:
                    rep.ob(RULE, k2, v, why + ': an object declared with the typedef name evaluates the expression again, with the values of that moment (C11 6.7.8p3)', where='%s:%d' % (U, pu.functions[g].line))
                if v is not True:
                    all_frozen = False
                for h, v2, why2, line in _code_emitted(pu, f, fouts[oparam], cgr):
                    k3 = '%s:%s:typedef-code-emitted' % (U, h)
                    if v2 is None:
                        rep.undecided(RULE, k3, why2, where='%s:%d' % (U, line))
                    else:
                        rep.ob(RULE, k3, v2, why2, where='%s:%d' % (U, line))
                    if v2 is not True:
                        all_frozen = False
            if nocode - set(o for g, o in freezers) or computing:
                rep.undecided(RULE, key, 'the typedef binder mixes ways of fixing the size (computes / freezes / unconditional null place)', where=w)
                all_frozen = False
                continue
            rep.ob(RULE, key, ok, '%s() binds a typedef name to the unchanged type of a declarator on a path that has a place for code' % f, where=w)
            if not ok:
                all_frozen = False
            continue
        all_frozen = False
        ok = ok and computing > 0 and not nocode
        rt = (fd.type or '').split('(')[0].strip().replace(' ', '')
        if ok or (rt not in ('Node*', 'Type*') and not fouts):
            rep.ob(RULE, key, ok,
                   '%s() binds a typedef name to the type of a declarator without handing the type to a function that generates the computation of its size (%s), and has no way to hand code back to the block: '
                   'the size expression of a variably modified typedef is not evaluated where the typedef stands but at every later declaration that uses the name '
                   '(`int n = 2; typedef int A[n]; n = 5; A x;` makes x 5 elements, C11 6.7.8p3 says 2)' % (f, ', '.join(linkers)), where=w)
        else:
            rep.undecided(RULE, key, 'the typedef binder returns a %s or has a place for code; whether its caller generates the size computation is not followed' % rt, where=w)
    if not binders:
        rep.undecided(RULE, '%s:typedef-binder' % U, 'no function that binds a typedef name to a declarator\'s type (%s() result stored into `%s`) was recognised' % (DECLARATOR, TYPEDEF_FIELD), where='%s:1' % U)
        all_frozen = False
    # (A) verdicts: linking the tree of a type whose size may already have been computed is harmless only if every shared type has frozen lengths
    for f in linkers:
        k = '%s:%s:%s-linked-once' % (U, f, LEN_FIELD)
        if f in first:
            rep.ob(RULE, k, True, '', where='%s:%d' % (U, first[f]))
            continue
        rep.ob(RULE, k, all_frozen and binders > 0,
               '%s() links the length expression stored in a VLA type (`%s`) into the generated code on a path that has not established that the size of this type is still to be computed (`%s` null): '
               'the Type is shared by every declaration that uses a typedef name of it, so the expression is evaluated again for each object (`typedef int A[f()]; A x; A y;` calls f twice, gcc once) '
               'and an object gets the size of the moment of its own declaration instead of the typedef\'s' % (f, LEN_FIELD, SIZE_FIELD), where='%s:%d' % (U, relinks[f]),
               facts={'typedef names are bound to types whose lengths are variable reads': all_frozen})
