"""private helpers of sa/rules/c04.py: element addresses of variably modified types (R04.13) and the zero fill of automatic objects (R04.14)"""
from .build import AnalysisBroken
from .interp import Obj, View, Interp, Sym, _Ref
from .lib_types import Types


# ------------------------------------------------------------------------------------------------
# R04.13  p + n, n + p, p - n, p - q where p points to (or is, and decays to a pointer to) a variable-length row
# ------------------------------------------------------------------------------------------------
# operand shapes.  `row` is the element type the arithmetic steps over; its byte size exists only at run time, in the hidden
# variable row->vla_size (R04.12 decides that this variable holds vla_len * element size).
#   ptr-to-vla       int (*p)[n]            ty = PTR -> VLA(int)                 row = ty->base
#   vla-of-vla       int a[m][n]  (a + i)   ty = VLA -> VLA(int)                 row = ty->base
#   ptr-to-vla2      int (*p)[m][n]         ty = PTR -> VLA -> VLA(int)          row = ty->base   (its size variable is the outer one)
#   array-of-vla     int a[3][n] as seen through array_of(vla, 3)                row = ty->base
#   vla-of-int       int a[n]     (a + i)   ty = VLA -> int                      row = int: constant element size 4
SHAPES = ('ptr-to-vla', 'vla-of-vla', 'ptr-to-vla2', 'array-of-vla', 'vla-of-int')


def _mk_operand(it, T, E, shape, label):
    """(node, row type or None, constant element size or None)"""
    def call(name, *a):
        u, fn = it.find_def(name)
        return it.call_fn(u, fn, list(a))

    def vla(base, tag):
        ln = Obj('Node', lazy=False, label='%s.len%s' % (label, tag), fields={'kind': E['ND_VAR']})
        t = call('vla_of', base, ln)
        t.fields['vla_size'] = Obj('Obj', lazy=False, label='%s.rowsize%s' % (label, tag),
                                   fields={'name': '', 'ty': T.glob(it, 'ty_ulong'), 'is_local': 1})
        return t
    ty_int = T.glob(it, 'ty_int')
    row, esz = None, None
    if shape == 'ptr-to-vla':
        row = vla(ty_int, '0'); ty = call('pointer_to', row)
    elif shape == 'vla-of-vla':
        row = vla(ty_int, '0'); ty = vla(row, '1')
    elif shape == 'ptr-to-vla2':
        row = vla(vla(ty_int, '0'), '1'); ty = call('pointer_to', row)
    elif shape == 'array-of-vla':
        row = vla(ty_int, '0'); ty = call('array_of', row, 3)
    elif shape == 'vla-of-int':
        ty = vla(ty_int, '0'); esz = 4
    else:
        raise AnalysisBroken('unknown operand shape %s' % shape)
    n = Obj('Node', lazy=False, label=label)
    n.fields['kind'] = E['ND_VAR']
    n.fields['tok'] = Obj('Token', lazy=True, label=label + '.tok')
    n.fields['ty'] = ty
    return n, row, esz


def _int_leaf(it, T, E, tname, label):
    n = Obj('Node', lazy=False, label=label)
    n.fields['kind'] = E['ND_VAR']
    n.fields['tok'] = Obj('Token', lazy=True, label=label + '.tok')
    n.fields['ty'] = T.glob(it, 'ty_' + tname)
    return n


def _unwrap(E, x):
    while isinstance(x, Obj) and x.fields.get('kind') == E['ND_CAST'] and isinstance(x.fields.get('lhs'), Obj):
        x = x.fields['lhs']
    return x


def _factor_ok(it, T, E, f, row, esz):
    """f is the run-time size of the row (the hidden variable of exactly this row type) or, for constant elements, its size as a 64-bit constant"""
    if not isinstance(f, Obj):
        return False, 'the scale factor is %r' % (f,)
    if row is not None:
        want = row.fields.get('vla_size')
        if f.fields.get('kind') == E['ND_VAR'] and f.fields.get('var') is want:
            return True, ''
        if f.fields.get('kind') == E['ND_NUM']:
            return False, ('the scale factor is the constant %r: for a variable-length row that is the size of the 8-byte placeholder type, not the row size held in the hidden '
                           'size variable; the resulting lvalue designates bytes in the middle of other rows' % (f.fields.get('val'),))
        if f.fields.get('kind') == E['ND_VAR']:
            v = f.fields.get('var')
            return False, 'the scale factor is the variable %s, not the size variable of the row type stepped over' % (getattr(v, 'label', v),)
        return False, 'the scale factor is not the size variable of the row type'
    if f.fields.get('kind') != E['ND_NUM'] or f.fields.get('val') != esz:
        return False, 'the scale factor is %r, expected the constant element size %d' % (f.fields.get('val', f.fields.get('var')), esz)
    return True, ''


def r_vla_arith(P, rep, rule):
    T = Types(P)
    pu = P.unit('parse.c')
    for f in ('new_add', 'new_sub'):
        if f not in pu.functions:
            rep.undecided(rule, 'parse.c:%s' % f, '%s vanished' % f); return
    for f in ('vla_of', 'pointer_to', 'array_of'):
        if f not in T.tu.functions:
            rep.undecided(rule, 'type.c:%s' % f, '%s vanished' % f); return
    E = pu.enums
    for k in ('ND_VAR', 'ND_ADD', 'ND_SUB', 'ND_MUL', 'ND_DIV', 'ND_NUM', 'ND_CAST', 'TY_VLA'):
        if k not in E:
            rep.undecided(rule, 'parse.c:%s' % k, 'enumerator %s vanished' % k); return

    def run(fn, ls, rs):
        it = Interp(P, pu, {'opaque': ['error_tok'], 'rec_limit': 6})
        box = {}

        def mk(ctx):
            it.ctx = ctx
            for side, s in (('l', ls), ('r', rs)):
                if s in SHAPES:
                    box[side] = _mk_operand(it, T, E, s, side.upper())
                else:
                    box[side] = (_int_leaf(it, T, E, s, side.upper()), None, None)
            return [box['l'][0], box['r'][0], Obj('Token', lazy=True, label='tok')]
        res = list(it.explore(fn, mk))
        outs = [out[1] for ctx, out in res if out[0] == 'ret']
        diag = [out for ctx, out in res if out[0] == 'noreturn']
        return it, outs, diag, box

    cases = []
    for s in SHAPES:
        cases += [('new_add', 'ND_ADD', s, 'int'), ('new_add', 'ND_ADD', 'long', s), ('new_sub', 'ND_SUB', s, 'int'), ('new_sub', 'ND_SUB', s, 'long')]
    for fn, kind, ls, rs in cases:
        key = 'parse.c:%s:%s,%s' % (fn, ls, rs)
        where = 'parse.c:%d' % pu.fn(fn).line
        try:
            it, outs, diag, box = run(fn, ls, rs)
        except AnalysisBroken as e:
            rep.undecided(rule, key, 'not interpretable: %s' % e, where=where); continue
        if len(outs) != 1:
            if not outs and diag:
                rep.ob(rule, key, False, '%s(%s, %s) is rejected with a diagnostic (%s); C11 6.5.6p8: pointer plus/minus integer is valid for pointers to complete object types, '
                       'and a variable-length row type is complete' % (fn, ls, rs, diag[0][1]), where=where)
            else:
                rep.undecided(rule, key, '%d returning paths' % len(outs), where=where)
            continue
        res = it.settle(outs[0]) if isinstance(outs[0], View) else outs[0]
        (p, row, esz), (n, _, _) = (box['l'], box['r']) if ls in SHAPES else (box['r'], box['l'])
        ok = isinstance(res, Obj) and res.fields.get('kind') == E[kind] and res.fields.get('lhs') is p
        detail = 'the result is not %s with the pointer operand on the left' % kind
        if ok:
            m = res.fields.get('rhs')
            if not isinstance(m, Obj) or m.fields.get('kind') != E['ND_MUL']:
                ok, detail = False, 'the integer operand is not multiplied by the row size'
            else:
                a, b = _unwrap(E, m.fields.get('lhs')), _unwrap(E, m.fields.get('rhs'))
                f = b if a is n else (a if b is n else None)
                if f is None:
                    ok, detail = False, 'the multiplication does not use the integer operand'
                else:
                    ok, detail = _factor_ok(it, T, E, f, row, esz)
        if ok and fn == 'new_sub':
            ok = res.fields.get('ty') is p.fields.get('ty')
            detail = 'pointer - integer does not keep the type of the pointer operand'
        rep.ob(rule, key, ok, '%s(%s, %s): %s' % (fn, ls, rs, detail), where=where)
    # ---- difference of two pointers to variable-length rows: (p - q) / row size, as a signed long
    for s in ('ptr-to-vla', 'vla-of-vla', 'vla-of-int'):
        key = 'parse.c:new_sub:%s,%s' % (s, s)
        where = 'parse.c:%d' % pu.fn('new_sub').line
        try:
            it, outs, diag, box = run('new_sub', s, s)
        except AnalysisBroken as e:
            rep.undecided(rule, key, 'not interpretable: %s' % e, where=where); continue
        if len(outs) != 1:
            if not outs and diag:
                rep.ob(rule, key, False, 'the difference of two pointers into the same variably modified array is rejected with a diagnostic', where=where)
            else:
                rep.undecided(rule, key, '%d returning paths' % len(outs), where=where)
            continue
        d = it.settle(outs[0]) if isinstance(outs[0], View) else outs[0]
        (l, row, esz), (r, _, _) = box['l'], box['r']
        ok = isinstance(d, Obj) and d.fields.get('kind') == E['ND_DIV']
        detail = 'the result is not (p - q) / row size'
        if isinstance(d, Obj) and d.fields.get('kind') == E['ND_SUB'] and isinstance(d.fields.get('rhs'), Obj) and d.fields['rhs'].fields.get('kind') == E['ND_MUL']:
            detail = ('the right POINTER operand is multiplied by the row size and subtracted from the left one (the pointer-minus-integer arm is taken without '
                      'looking at the right operand): the value is an address-sized number, not the number of rows between the two')
        if ok:
            sub, num = d.fields.get('lhs'), _unwrap(E, d.fields.get('rhs'))
            ok = isinstance(sub, Obj) and sub.fields.get('kind') == E['ND_SUB'] and sub.fields.get('lhs') is l and sub.fields.get('rhs') is r
            detail = 'the dividend is not lhs - rhs'
            if ok:
                st = T.classify(it, sub.fields.get('ty')) if sub.fields.get('ty') else None
                ok = st == 'long'
                detail = 'the byte difference has type %s, expected long (ptrdiff_t)' % st
            if ok:
                ok, detail = _factor_ok(it, T, E, num, row, esz)
                detail = 'divisor: ' + detail
            if ok:
                outer = d.fields.get('rhs')
                oty = outer.fields.get('ty') if isinstance(outer, Obj) else None
                if not oty and isinstance(outer, Obj) and outer.fields.get('kind') == E['ND_VAR'] and isinstance(outer.fields.get('var'), Obj):
                    oty = outer.fields['var'].fields.get('ty')      # what add_type will give the variable reference
                dt = T.classify(it, oty) if oty else 'int'
                ok = dt in ('int', 'long')
                detail = 'the divisor has type %s: the division is carried out unsigned and a negative difference (q - p with q below p) becomes a huge positive number' % dt
        rep.ob(rule, key, ok, 'new_sub(%s, %s): %s' % (s, s, detail), where=where)


# ------------------------------------------------------------------------------------------------
# R04.14  an automatic object with an initializer is zero-filled as a whole before the assignments, for every class of object
#         whose initializer can leave bytes unmentioned (array, struct, union)
# ------------------------------------------------------------------------------------------------
AGG_CLASSES = (('array', 'TY_ARRAY'), ('struct', 'TY_STRUCT'), ('union', 'TY_UNION'))


def _eval_order(it, E, n, out, d=0):
    """leaves of a tree of comma operators in evaluation order"""
    n = it.settle(n) if isinstance(n, View) else n
    if isinstance(n, Obj) and n.fields.get('kind') == E['ND_COMMA'] and d < 40:
        _eval_order(it, E, n.fields.get('lhs'), out, d + 1)
        _eval_order(it, E, n.fields.get('rhs'), out, d + 1)
    else:
        out.append(n)


def r_zero_fill(P, rep, rule):
    pu = P.unit('parse.c')
    fn = 'lvar_initializer'
    if fn not in pu.functions:
        rep.undecided(rule, 'parse.c:%s' % fn, '%s vanished' % fn); return
    E = pu.enums
    for k in ('ND_COMMA', 'ND_MEMZERO') + tuple(k for _, k in AGG_CLASSES):
        if k not in E:
            rep.undecided(rule, 'parse.c:%s' % k, 'enumerator %s vanished' % k); return
    where = 'parse.c:%d' % pu.fn(fn).line
    for cls, kname in AGG_CLASSES:
        for completed in (False, True):
            # completed: initializer() hands back a NEW type object (array of unknown bound / flexible member completed by the initializer)
            key = 'parse.c:%s:%s%s' % (fn, cls, '/type-completed-by-initializer' if completed else '')
            box = {}

            def m_initializer(it_, ctx, n, a, completed=completed, kname=kname):
                if len(a) < 4 or not isinstance(a[3], _Ref):
                    raise AnalysisBroken('initializer() is no longer called with (&rest, tok, ty, &new_ty)')
                final = box['final'] if completed else box['declared']
                a[3].place.set(it_, final)
                tree = Obj('Initializer', lazy=True, label='init-tree')
                ctx.emit('initializer', a, tree, n.line)
                return tree

            def h_chain(it_, ctx, n, a):
                r = Obj('Node', lazy=False, label='assignment-chain', fields={'kind': E.get('ND_ASSIGN', -1)})
                box['chain'] = r
                return r
            it = Interp(P, pu, {'models': {'initializer': m_initializer}, 'cut': {'create_lvar_init': h_chain}})

            def mk(ctx, kname=kname):
                it.ctx = ctx

                def ty(label):
                    t = Obj('Type', lazy=True, label=label)
                    t.fields['kind'] = E[kname]
                    return t
                box['declared'], box['final'] = ty('declared-type'), ty('final-type')
                box.pop('chain', None)
                var = Obj('Obj', lazy=True, label='var')
                var.fields['ty'] = box['declared']
                var.fields['is_local'] = 1
                box['var'] = var
                return [Sym('rest', 'ptr'), Obj('Token', lazy=True, label='tok'), var]
            try:
                res = list(it.explore(fn, mk))
            except AnalysisBroken as e:
                rep.undecided(rule, key, 'not interpretable: %s' % e, where=where); continue
            rets = [(c, o) for c, o in res if o[0] == 'ret']
            if not rets:
                rep.undecided(rule, key, 'no returning path', where=where); continue
            bad = []
            for ctx, out in rets:
                seq = []
                _eval_order(it, E, out[1], seq)
                zi = [i for i, x in enumerate(seq) if isinstance(x, Obj) and x.fields.get('kind') == E['ND_MEMZERO']
                      and (it.settle(x.fields.get('var')) if isinstance(x.fields.get('var'), View) else x.fields.get('var')) is box['var']]
                ci = [i for i, x in enumerate(seq) if x is box.get('chain')]
                if not ci:
                    bad.append('the assignments built by create_lvar_init are not part of the returned expression'); continue
                if not zi:
                    bad.append('no zero fill (ND_MEMZERO of the variable) is evaluated: every sub-object without an explicit initializer keeps the previous contents of the stack slot instead of reading 0 (C11 6.7.9p21)')
                elif min(zi) > min(ci):
                    bad.append('the zero fill is evaluated after the assignments and wipes them')
            rep.ob(rule, key, not bad, 'block-scope %s with an initializer%s: %s' % (cls, ' whose type the initializer completes' if completed else '', '; '.join(sorted(set(bad)))), where=where)


# ------------------------------------------------------------------------------------------------
# R04.15  a declared VLA object gets storage of exactly the run-time size of its type, computed before the allocation
# ------------------------------------------------------------------------------------------------
def r_vla_object(P, rep, rule):
    pu = P.unit('parse.c')
    fn = 'declaration'
    for f in (fn, 'new_alloca', 'compute_vla_size', 'declarator'):
        if f not in pu.functions:
            rep.undecided(rule, 'parse.c:%s' % f, '%s vanished' % f); return
    E = pu.enums
    for k in ('ND_BLOCK', 'ND_EXPR_STMT', 'ND_ASSIGN', 'ND_VLA_PTR', 'ND_VAR', 'TY_VLA', 'TY_INT'):
        if k not in E:
            rep.undecided(rule, 'parse.c:%s' % k, 'enumerator %s vanished' % k); return
    where = 'parse.c:%d' % pu.fn(fn).line
    for depth, tag in ((1, 'vla'), (2, 'vla-of-vla')):
        key = 'parse.c:%s:%s' % (fn, tag)
        box = {}

        def h_equal(it_, ctx, nd, a):
            if a[1] == ';':
                ctx.c04_k = getattr(ctx, 'c04_k', 0) + 1
                return 0 if ctx.c04_k == 1 else 1
            return 0

        def h_declarator(it_, ctx, nd, a, depth=depth):
            base = Obj('Type', lazy=True, label='int')
            base.fields.update({'kind': E['TY_INT'], 'size': 4, 'align': 4, 'base': 0})
            t = base
            for d in range(depth):
                v = Obj('Type', lazy=True, label='vla%d' % d)
                v.fields.update({'kind': E['TY_VLA'], 'size': 8, 'align': 8, 'base': t, 'vla_size': 0,
                                 'vla_len': Obj('Node', lazy=True, label='len%d' % d)})
                t = v
            t.fields['name'] = Obj('Token', lazy=True, label='name')
            box['ty'] = t
            if isinstance(a[0], _Ref):
                a[0].place.set(it_, Obj('Token', lazy=True, label='after-declarator'))
            return t

        def h_cvs(it_, ctx, nd, a):
            t = it_.settle(a[0]) if isinstance(a[0], View) else a[0]
            x = t
            while isinstance(x, Obj) and x.fields.get('kind') == E['TY_VLA']:
                x.fields['vla_size'] = Obj('Obj', lazy=True, label='size-of-' + x.label)
                x = x.fields.get('base')
            r = Obj('Node', lazy=False, label='size-computation', fields={'kind': E['ND_ASSIGN']})
            ctx.emit('cvs', t, r, nd.line)
            return r

        def h_alloca(it_, ctx, nd, a):
            r = Obj('Node', lazy=False, label='alloca-call', fields={'kind': E.get('ND_FUNCALL', -1)})
            ctx.emit('alloca', a[0], r, nd.line)
            return r

        def h_lvar(it_, ctx, nd, a):
            v = Obj('Obj', lazy=True, label='new-local')
            v.fields.update({'name': a[0], 'ty': a[1], 'is_local': 1})
            ctx.emit('new_lvar', a[1], v, nd.line)
            return v
        it = Interp(P, pu, {'cut': {'equal': h_equal, 'declarator': h_declarator, 'compute_vla_size': h_cvs, 'new_alloca': h_alloca, 'new_lvar': h_lvar,
                                    'get_ident': lambda it_, ctx, nd, a: Sym('declared-name', 'char *'),
                                    'skip': lambda it_, ctx, nd, a: Obj('Token', lazy=True, label='skipped')},
                            'opaque': ['error_tok'], 'rec_limit': 2})

        def mk(ctx):
            it.ctx = ctx
            return [Sym('rest', 'Token **'), Obj('Token', lazy=True, label='tok'), Obj('Type', lazy=True, label='basety'), 0]
        try:
            res = list(it.explore(fn, mk))
        except AnalysisBroken as e:
            rep.undecided(rule, key, 'not interpretable: %s' % e, where=where); continue
        rets = [(c, o) for c, o in res if o[0] == 'ret']
        if not rets:
            rep.undecided(rule, key, 'no returning path (%d diagnosed)' % len(res), where=where); continue
        bad = []
        for ctx, out in rets:
            def S(v):
                return it.settle(v) if isinstance(v, View) else v
            blk = S(out[1])
            stmts = []
            x = S(blk.fields.get('body')) if isinstance(blk, Obj) else None
            while isinstance(x, Obj) and len(stmts) < 10:
                stmts.append(x); x = S(x.fields.get('next', 0))
            exprs = [S(s_.fields.get('lhs')) for s_ in stmts if s_.fields.get('kind') == E['ND_EXPR_STMT']]
            cvs = [e for e in ctx.events if e[0] == 'cvs']
            al = [e for e in ctx.events if e[0] == 'alloca']
            lv = [e for e in ctx.events if e[0] == 'new_lvar']
            ty = box['ty']
            if len(al) != 1 or len(lv) != 1 or S(lv[0][1]) is not ty:
                bad.append('the declaration does not create one local of the declared VLA type and one alloca() call (%d, %d)' % (len(lv), len(al))); continue
            asg = [e for e in exprs if isinstance(e, Obj) and e.fields.get('kind') == E['ND_ASSIGN'] and S(e.fields.get('rhs')) is al[0][2]]
            if len(asg) != 1:
                bad.append('the allocated block is not assigned in a statement of the declaration'); continue
            lhs = S(asg[0].fields.get('lhs'))
            if not (isinstance(lhs, Obj) and lhs.fields.get('kind') == E['ND_VLA_PTR'] and S(lhs.fields.get('var')) is lv[0][2]):
                bad.append('the block is not stored into the hidden pointer (ND_VLA_PTR) of the new variable: the name would designate some other storage'); continue
            arg = S(al[0][1])
            want = S(ty.fields.get('vla_size'))
            if not (isinstance(arg, Obj) and arg.fields.get('kind') == E['ND_VAR'] and isinstance(want, Obj) and S(arg.fields.get('var')) is want):
                bad.append('the block is not allocated with the size variable of the declared type (argument: %s): the object does not get vla_len * element size bytes and '
                           'overlaps what is allocated next' % (getattr(arg, 'label', arg),)); continue
            ci = [i for i, e in enumerate(exprs) if cvs and e is cvs[0][2]]
            ai = exprs.index(asg[0])
            if len(cvs) != 1 or S(cvs[0][1]) is not ty or not ci or ci[0] > ai:
                bad.append('the size variable is not computed (compute_vla_size of the declared type) in a statement before the allocation')
        rep.ob(rule, key, not bad, 'declaration of a %s object: %s' % (tag, '; '.join(sorted(set(bad)))), where=where)


# ------------------------------------------------------------------------------------------------
# R04.28  the size variable a VLA object was allocated by stays the one its type carries
# ------------------------------------------------------------------------------------------------
def r_vla_size_stays(P, rep, rule):
    """sizeof x, x[i] (row stride) and `p + n` read the hidden size variable through the Type object of x (R04.13); x's block was allocated
    from the variable that type carried when x was declared (R04.15). They are the same variable only if no later declarator rebinds it. The
    declaration specifiers may denote ONE variably modified Type object for several declarators (`typedef int T[n]; T x, y;`,
    `typeof(int[n]) x, y;`): declaration() is run on `x , y ;` with such a base type - the real declarator(), compute_vla_size() and node
    constructors interpreted on concrete tokens - and every dimension's size variable is compared at x's allocation and at the end."""
    from .interp import _Ref, _ValPlace
    pu = P.unit('parse.c')
    fn = 'declaration'
    K = 'parse.c:%s:vla-size-variable-stays/' % fn
    for f in (fn, 'new_alloca', 'new_lvar', 'declarator'):
        if f not in pu.functions:
            rep.undecided(rule, K + 'evaluation', '%s vanished' % f); return
    E = pu.enums
    where = 'parse.c:%d' % pu.fn(fn).line
    try:
        from .rules.c08 import TokenWorld
        tw = TokenWorld(P, pu)
    except (ImportError, AnalysisBroken) as e:
        rep.undecided(rule, K + 'evaluation', 'the token model of C08 is not available: %s' % e, where=where); return

    def S(it, v):
        return it.settle(v) if isinstance(v, View) else v

    def chain(it, t):
        out = []
        t = S(it, t)
        while isinstance(t, Obj) and len(out) < 6:
            if S(it, t.fields.get('kind')) == E['TY_VLA']:
                out.append((t, S(it, t.fields.get('vla_size'))))
            t = S(it, t.fields.get('base', 0))
        return out

    for depth, preset, tag in ((1, False, 'array/size-not-yet-computed'), (1, True, 'array/size-computed-before'), (2, False, 'array-of-arrays/size-not-yet-computed')):
        key = K + tag
        box = {}

        def h_lvar(it_, ctx, nd, a):
            k = len([e for e in ctx.events if e[0] == 'new_lvar'])
            v = Obj('Obj', lazy=False, label='local#%d' % k)
            v.fields.update({'name': a[0], 'ty': a[1], 'is_local': 1, 'align': 0, 'next': 0, 'offset': 0})
            ctx.events.append(('new_lvar', a[0], v))
            return v

        def h_alloca(it_, ctx, nd, a):
            r = Obj('Node', lazy=False, label='alloca-call', fields={'kind': E.get('ND_FUNCALL', -1)})
            named = [e for e in ctx.events if e[0] == 'new_lvar' and isinstance(e[1], str) and e[1]]
            ctx.events.append(('alloca', named[-1][2] if named else None, chain(it_, named[-1][2].fields.get('ty')) if named else [], a[0]))
            return r

        def h_ident(it_, ctx, nd, a):
            t = S(it_, a[0])
            return t.fields.get('loc') if isinstance(t, Obj) and isinstance(t.fields.get('loc'), str) else Sym('declared-name', 'char *')
        try:
            it = Interp(P, pu, {'models': dict(tw.models()), 'cut': {'new_lvar': h_lvar, 'new_alloca': h_alloca, 'get_ident': h_ident},
                                'opaque': ['new_unique_name', 'add_type'], 'rec_limit': 6})

            def mk(ctx, depth=depth, preset=preset):
                it.ctx = ctx
                common = {'is_unsigned': 0, 'is_atomic': 0, 'origin': 0, 'name': 0, 'name_pos': 0, 'array_len': 0, 'members': 0}
                t = Obj('Type', lazy=False, label='int')
                t.fields.update(dict(common, kind=E['TY_INT'], size=4, align=4, base=0, vla_len=0, vla_size=0))
                for d in range(depth):
                    v = Obj('Type', lazy=False, label='dim%d' % d)
                    v.fields.update(dict(common, kind=E['TY_VLA'], size=8, align=8, base=t, vla_len=Obj('Node', lazy=False, label='len%d' % d, fields={'kind': E['ND_VAR']}),
                                         vla_size=Obj('Obj', lazy=False, label='earlier-size%d' % d, fields={'name': '', 'is_local': 1}) if preset else 0))
                    t = v
                box['T'] = t
                return [_Ref(_ValPlace(0)), tw.tokens(['x', ',', 'y', ';']), t, 0]
            res = list(it.explore(fn, mk))
        except AnalysisBroken as e:
            rep.undecided(rule, key, 'declaration() is not interpretable on `T x, y;`: %s' % e, where=where); continue
        rets = [(c, o) for c, o in res if o[0] == 'ret']
        if len(rets) != 1 or len(res) != 1:
            rep.undecided(rule, key, 'declaration() has %d paths (%d returning) on the concrete declaration `T x, y;`' % (len(res), len(rets)), where=where); continue
        ctx = rets[0][0]
        it.ctx = ctx
        al = [e for e in ctx.events if e[0] == 'alloca' and e[1] is not None]
        if len(al) != 2:
            rep.undecided(rule, key, '%d allocations for the two declared arrays' % len(al), where=where); continue
        bad = []
        for e in al:
            var, then = e[1], e[2]
            now = chain(it, var.fields.get('ty'))
            if not then or len(now) != len(then):
                bad.append('%s: the type of the object changed its shape' % var.fields.get('name')); continue
            arg = S(it, e[3])
            argv = S(it, arg.fields.get('var')) if isinstance(arg, Obj) else None
            if argv is not then[0][1]:
                continue            # which variable the block is allocated by is R04.15's subject
            for i, ((t0, v0), (t1, v1)) in enumerate(zip(then, now)):
                if v0 is not v1:
                    bad.append('`%s` was allocated while dimension %d of its type carried the size variable %s; when the declaration is complete its type carries %s'
                               % (var.fields.get('name'), i + 1, getattr(v0, 'label', v0), getattr(v1, 'label', v1)))
        rep.ob(rule, key, not bad,
               'declaration of `T x, y;` where T is one variably modified type object (a typedef name or typeof%s): %s - the declarators share the Type object and each one rebinds its hidden size '
               'variable, so sizeof x, the row stride of x[i] and pointer arithmetic on x use the size computed for a LATER declaration (`int k = 4; typedef int T[k]; T x; k = 100; T y;` gives '
               'sizeof x == 400 for a 16-byte block: memset(x, 0, sizeof x) runs over the neighbouring objects)' % (', its size computed before' if preset else '', '; '.join(bad[:3])),
               where=where, facts={'violations': bad})
