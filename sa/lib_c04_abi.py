"""C04 helpers: the objects that cross a function boundary (parameters, aggregate function results).

R04.33  a parameter lvalue designates the bytes the caller stored: C06's callee-side judgement (assign_lvar_offsets + emit_text on concrete
        functions) re-issued on a grid that has each parameter class behind an even and an odd number of 8-byte stack slots
R04.34  the object a call of aggregate type designates holds the returned bytes: C06's return-value judgement re-issued, also for
        aggregates whose size is not a multiple of 8
R04.35  written byte set == object for the aggregate copies of the return path, decided on the BYTES the emitted stores write (any mix
        of store widths is accepted as long as byte i of the destination receives byte i of the source for exactly i in [0, size))
"""
from .report import Report, reissue

U = 'codegen.c'

# aggregates whose size is not a multiple of 8 (one and two eightbytes in registers, and class MEMORY): a copy that moves whole
# quadwords overruns each of them
ODD_SHAPES = {
    's_c9':   (9, 1, [(('arr', 'char', 9), 0)]),                                   # INTEGER, INTEGER; 1 byte in the second eightbyte
    's_c13':  (13, 1, [(('arr', 'char', 13), 0)]),                                 # INTEGER, INTEGER; 5 bytes in the second eightbyte
    's_ffc3': (12, 4, [('float', 0), ('float', 4), (('arr', 'char', 3), 8)]),      # SSE, INTEGER; 4 bytes (3 + padding) in the second eightbyte
    's_c17':  (17, 1, [(('arr', 'char', 17), 0)]),                                 # MEMORY
    's_i5':   (20, 4, [(('arr', 'int', 5), 0)]),                                   # MEMORY
    's_c23':  (23, 1, [(('arr', 'char', 23), 0)]),                                 # MEMORY
    's_c33':  (33, 1, [(('arr', 'char', 33), 0)]),                                 # MEMORY
    'u_i5':   (20, 4, [(('arr', 'int', 5), 0), ('char', 0)]),                      # MEMORY (union)
}


class odd_shapes:
    """ODD_SHAPES are part of the shared shape vocabulary inside a `with` block only"""
    def __enter__(self):
        from .lib_abi import STRUCTS
        self.added = [k for k in ODD_SHAPES if k not in STRUCTS]
        for k in self.added:
            STRUCTS[k] = ODD_SHAPES[k]
        return self

    def __exit__(self, *a):
        from .lib_abi import STRUCTS
        for k in self.added:
            STRUCTS.pop(k, None)
        return False


# ------------------------------------------------------------------------------------------------
# R04.33
# ------------------------------------------------------------------------------------------------
PARAM_GRID = ((0, 0), (6, 0), (7, 0), (6, 8), (7, 8), (6, 9), (7, 9))     # (INTEGER, SSE) scalars before the parameter: registers free, exhausted with an even / odd number of stack slots before it


def r_param_home(cg, P, rep, rule):
    from .rules import c06
    from .lib_abi import Builder, CLASS_ONLY
    B = Builder(P)
    fn = cg.cu.fn('assign_lvar_offsets')
    if fn is None or cg.cu.fn('emit_text') is None:
        rep.undecided(rule, '%s:assign_lvar_offsets' % U, 'assign_lvar_offsets / emit_text vanished'); return
    where = '%s:%d' % (U, fn.line)
    sub = Report('C06')
    sub.rule('R06.7', 'callee side (see C06)', floor=1)
    sub.rule('R06.6', 'epilogue (see C06)', floor=1)
    with odd_shapes():
        from .lib_abi import STRUCTS
        types_ = ['int', 'char', 'long', 'ptr', 'float', 'double', 'ldouble'] + sorted(STRUCTS)
        for t in types_:
            for k, l in PARAM_GRID:
                if (t.startswith('u_') or t in CLASS_ONLY) and (k, l) not in ((0, 0), (7, 8)):
                    continue
                types = ['long'] * k + ['double'] * l + [t, 'int', 'double']
                key = '%s:emit_text:%s-after-%dgp-%dsse' % (U, t, k, l)
                try:
                    box, offsets, stack_size, tr, s = c06.run_callee(cg, B, types)
                except c06.Aborts as e:
                    c06.aborts(sub, 'R06.7', key, e, 'a function with a parameter of type %s' % t, where); continue
                except c06.Unknown as e:
                    sub.undecided('R06.7', key, str(e), where=where); continue
                c06.check_callee(sub, types, box, offsets, stack_size, tr, s, key, where)
    reissue(rep, rule, sub, 'the lvalue of a parameter does not designate the bytes the caller passed: ', keep=lambda o: o['rule'] == 'R06.7')


# ------------------------------------------------------------------------------------------------
# R04.34 / R04.35
# ------------------------------------------------------------------------------------------------
def _byte_image(stores, base):
    """{offset: byte term} of the stores whose address is base + constant; (image, stores elsewhere)"""
    from .lib_abi import bytes_of
    img = {}
    other = []
    for addr, w, val, kind in stores:
        if isinstance(addr, tuple) and addr[0] == 'addr' and addr[1] == base and isinstance(addr[2], int):
            n = max(1, w // 8)
            for j, b in enumerate(bytes_of(val, n)):
                img[addr[2] + j] = b
        else:
            other.append((addr, w))
    return img, other


def r_result_object(cg, P, rep, rule, rule_bytes):
    from .rules import c06
    from .lib_abi import Builder, size_of, shift_addr
    B = Builder(P)
    fn = cg.cu.fn('gen_stmt')
    where = '%s:%d' % (U, fn.line if fn else 0)
    sub = Report('C06')
    with odd_shapes():
        c06.r_returns(cg, B, sub)
        # the shape of the MEMORY copy (one byte store per byte) is C06's business; here the copy is judged by the bytes it writes
        reissue(rep, rule, sub, 'the object a call of aggregate type designates does not hold the returned value: ',
                keep=lambda o: o['rule'] == 'R06.5' and not o['key'].endswith(':callee-copies-into-hidden-buffer'))
        from .lib_abi import STRUCTS
        # the aggregates the callee copies through the hidden pointer; a shape whose psABI class chibicc is known to get wrong (a listed
        # finding of C06) says nothing about the copy
        tail = ':callee-copies-into-hidden-buffer'
        head = 'R06.5:%s:ND_RETURN:returns-' % U
        copied = {o['key'][len(head):-len(tail)] for o in sub.obs if o['key'].startswith(head) and o['key'].endswith(tail) and o['verdict'] != 'known-finding'}
        for t in sorted(STRUCTS):
            if c06.ret_locs(t) != 'MEMORY' or t not in copied:
                continue
            sz = size_of(t)
            key = '%s:ND_RETURN:returns-%s/%d-bytes' % (U, t, sz)
            try:
                tr, s2 = c06.run_return(cg, B, t)
            except c06.Aborts as e:
                rep.ob(rule_bytes, key + ':compiles', False, '`return v;` in a function returning a %d-byte aggregate ends the compiler: %s' % (sz, e), where=where); continue
            except c06.Unknown as e:
                rep.undecided(rule_bytes, key, str(e), where=where); continue
            facts = {'trace': tr.text()[-40:]}
            dst = ('mem', 64, ('addr', ('init', 'rbp'), -8))
            src = ('addr', ('r', 'val', 64), 0)
            img, other = _byte_image(s2.stores, dst)
            over = sorted(o for o in img if not (0 <= o < sz))
            rep.ob(rule_bytes, key + ':writes-inside-the-object', not over and not other,
                   'copying a returned %d-byte aggregate into the caller\'s object the callee also writes the bytes at offsets %r of it%s: the objects that follow the receiving object are overwritten'
                   % (sz, over[:8], ' and %d store(s) elsewhere' % len(other) if other else ''), where=where, facts=facts)
            bad = [i for i in range(sz) if img.get(i) != ('mem', 8, shift_addr(src, i))]
            rep.ob(rule_bytes, key + ':byte-i-to-byte-i', not bad,
                   'copying a returned %d-byte aggregate into the caller\'s object, byte(s) %r of the destination do not receive the same byte of the source (byte %r gets %r)'
                   % (sz, bad[:8], bad[0] if bad else None, img.get(bad[0]) if bad else None), where=where, facts=facts)
