"""private helper of sa/rules/c04.py: what a declaration established about an object's home stays established.

R04.22  the declared alignment of an object is written where the object is created / where its declaration stores the _Alignas value, and is
        never overwritten afterwards by a function that is handed the finished object (initialiser parsing, code generation, ...), except to raise it.
        It is the frame condition of R04.18 / C08 R08.4, which interpret the declaration sites with the functions the object is handed to cut away.
R04.23  a member of a struct/union never has a variable-length array type (C11 6.7.2.1p9): the layout (R04.19) places members by Type.size, which
        for a VLA type is the 8-byte placeholder of its hidden pointer, while a member access designates the array itself.
R04.24  a declared array whose bound is an integer constant expression gets a fixed-size array type (re-issue of C08 R08.5 offsetof probes: the
        predicate array_dimensions() asks accepts the constant expressions the compiler's own headers produce).
"""
from .build import AnalysisBroken
from .lib_c04_sites import Origins, _rec_of

ASSIGN_OPS = ('=', '+=', '-=', '*=', '/=', '%=', '<<=', '>>=', '&=', '|=', '^=')
RECORDS = ('Obj', 'Member')
FIELD = 'align'


def _mentions(e, pred):
    for x in e.walk():
        if pred(x):
            return True
    return False


def _is_field_of(x, field, recs):
    return x.kind == 'MemberExpr' and x.name == field and x.inner and _rec_of(x.inner[0].strip().type) in recs


def _raising(node, lhs, rhs):
    """the store can only raise the field: `x = MAX(x, e)` / `x = x < e ? e : x` / `if (x < e) x = e;`"""
    old = lhs.src()
    r = rhs.strip_all()

    def greater_of(cond, hi, lo_):
        # cond selects `hi` when hi > lo_
        c = cond.strip_all()
        if c.kind == 'BinaryOperator' and c.opcode == '&&' and len(c.inner) == 2:
            return greater_of(c.inner[0], hi, lo_) or greater_of(c.inner[1], hi, lo_)      # any conjunct suffices
        if c.kind != 'BinaryOperator' or c.opcode not in ('<', '<=', '>', '>=') or len(c.inner) != 2:
            return False
        a, b = c.inner[0].strip_all().src(), c.inner[1].strip_all().src()
        if c.opcode in ('<', '<='):
            small, big = a, b
        else:
            small, big = b, a
        return big == hi and small == lo_
    if r.kind == 'ConditionalOperator' and len(r.inner) == 3:
        t, f = r.inner[1].strip_all().src(), r.inner[2].strip_all().src()
        if old in (t, f) and greater_of(r.inner[0], t, f):
            return True
    # guarded by an enclosing `if (old < new)` (the store is in its then-branch)
    child, p, hops = node, node.parent, 0
    while p is not None and hops < 4:
        if p.kind == 'IfStmt':
            if len(p.inner) >= 2 and p.inner[1] is child and greater_of(p.inner[0], r.src(), old):
                return True
            break
        if p.kind != 'CompoundStmt':
            break
        child, p, hops = p, p.parent, hops + 1
    return False


def _value_class(rhs):
    if rhs is None:
        return 'stepped'
    if _mentions(rhs, lambda x: _is_field_of(x, 'align', ('Type',))):
        return 'type-alignment'
    r = rhs.strip_all()
    if r.int_value() is not None:
        return 'constant'
    return 'other-value'


def r_align_frame(P, rep, rule, units=('parse.c', 'codegen.c', 'type.c')):
    n = 0
    for uname in units:
        try:
            u = P.unit(uname)
        except AnalysisBroken:
            continue
        A = Origins(u)
        for f, fd in sorted(A.fns.items()):
            for node in fd.walk():
                lhs = rhs = None
                whole = False
                if node.kind in ('BinaryOperator', 'CompoundAssignOperator') and node.opcode in ASSIGN_OPS and len(node.inner) == 2:
                    lhs, rhs = node.inner[0].strip(), node.inner[1]
                elif node.kind == 'UnaryOperator' and node.opcode in ('++', '--') and node.inner:
                    lhs = node.inner[0].strip()
                else:
                    continue
                if lhs.kind == 'MemberExpr' and lhs.name == FIELD and lhs.inner:
                    rec = _rec_of(lhs.inner[0].strip().type)
                    base = lhs.inner[0]
                elif node.opcode == '=' and _rec_of(lhs.dtype or lhs.type) in RECORDS and not (lhs.dtype or lhs.type or '').rstrip().endswith('*') \
                        and lhs.kind in ('UnaryOperator', 'ArraySubscriptExpr', 'DeclRefExpr', 'MemberExpr'):
                    rec = _rec_of(lhs.dtype or lhs.type)
                    base = lhs.inner[0] if lhs.kind in ('UnaryOperator', 'ArraySubscriptExpr') and lhs.inner else lhs
                    whole = True
                else:
                    continue
                if rec not in RECORDS:
                    continue
                n += 1
                where = '%s:%d' % (uname, node.line)
                # whose object is it?
                origins = A._base(f, base, frozenset()) if not (whole and base is lhs) else {('local', '', f, ())}
                created_here = bool(origins) and all(o[0] == 'fresh' for o in origins)
                if not created_here and origins and all(o[0] in ('fresh', 'param') for o in origins):
                    # a helper of the creating function: every caller hands in the object it has allocated itself just before
                    ok_all = True
                    for o in origins:
                        if o[0] == 'fresh':
                            continue
                        g, i = o[1]
                        cs = A.callers(g)
                        if not cs:
                            ok_all = False
                        for caller, c in cs:
                            a = c.args()
                            if i >= len(a):
                                ok_all = False; continue
                            oo = A.expr(caller, a[i], frozenset())
                            if not oo or not all(x[0] == 'fresh' and not x[3] and x[2] == caller for x in oo):
                                ok_all = False
                    created_here = ok_all
                if whole:
                    if base is lhs or created_here:
                        rep.ob(rule, '%s:%s:%s.%s/whole-object-of-its-creator' % (uname, f, rec, FIELD), True, '', where=where)
                    else:
                        rep.undecided(rule, '%s:%s:%s.%s/whole-object-assigned' % (uname, f, rec, FIELD),
                                      'a whole %s object that %s() did not create is overwritten by a struct assignment: which alignment it ends up with is not decided' % (rec, f), where=where)
                    continue
                if created_here:
                    rep.ob(rule, '%s:%s:%s.%s/set-by-creator' % (uname, f, rec, FIELD), True, '', where=where)
                    continue
                declared = rhs is not None and _is_field_of(rhs.strip_all(), 'align', ('VarAttr',)) and node.opcode == '='
                if declared:
                    rep.ob(rule, '%s:%s:%s.%s/declared-value-stored' % (uname, f, rec, FIELD), True, '', where=where)
                    continue
                if rhs is not None and node.opcode == '=' and _raising(node, lhs, rhs):
                    rep.ob(rule, '%s:%s:%s.%s/raised-only' % (uname, f, rec, FIELD), True, '', where=where)
                    continue
                vc = _value_class(rhs)
                what = {'type-alignment': 'the alignment of its type', 'constant': 'a constant', 'stepped': 'a stepped value', 'other-value': '`%s`' % (rhs.strip_all().src() if rhs is not None else '')}[vc]
                rep.ob(rule, '%s:%s:%s.%s-overwritten/with-%s' % (uname, f, rec, FIELD, vc), False,
                       '%s() is handed a finished %s (it does not create it) and overwrites its alignment with %s (`%s %s ...`): the value the declaration stored there - the _Alignas of the declaration, '
                       'which frame layout (R04.5), static emission (R04.20) and struct layout (R04.19) place the object by - is lost, e.g. `_Alignas(16) int a = 1;` / `_Alignas(8) char tag[5] = "abcd";` '
                       'are placed with the natural alignment of the type only (the store is neither the declared value, VarAttr.align, nor a raise-only update)' % (f, 'object' if rec == 'Obj' else 'member', what, lhs.src(), node.opcode),
                       where=where, facts={'origins': sorted(repr(o[:2]) for o in origins)})
    return n


# ------------------------------------------------------------------------------------------------
# R04.23 no member of variable-length array type
# ------------------------------------------------------------------------------------------------
def r_member_not_vla(P, rep, rule):
    from .interp import Interp, Obj, _Ref, _ValPlace
    pu = P.unit('parse.c')
    fn = 'struct_members'
    if fn not in pu.functions or 'TY_VLA' not in pu.enums:
        rep.undecided(rule, 'parse.c:%s:member-of-vla-type' % fn, 'struct_members / TY_VLA vanished'); return
    where = 'parse.c:%d' % pu.fn(fn).line
    E = pu.enums
    OPQ = ['equal', 'consume', 'skip', 'const_expr', 'get_ident', 'array_of', 'attribute_list']
    key = 'parse.c:%s:member-of-vla-type/rejected' % fn
    box = {'n': 0}

    def cut_declspec(it, ctx, call, args):
        return Obj('Type', lazy=True, label='basety')

    def cut_declarator(it, ctx, call, args):
        el = Obj('Type', lazy=False, label='elem')
        el.fields.update({'kind': E['TY_CHAR'], 'size': 1, 'align': 1, 'base': 0, 'is_unsigned': 0, 'is_atomic': 0, 'members': 0, 'array_len': 0, 'vla_len': 0, 'vla_size': 0})
        t = Obj('Type', lazy=True, label='vlaty')
        t.fields.update({'kind': E['TY_VLA'], 'size': 8, 'align': 8, 'base': el, 'array_len': 0, 'vla_size': 0,
                         'vla_len': Obj('Node', lazy=True, label='bound'), 'name': Obj('Token', lazy=True, label='name')})
        box['n'] += 1
        ctx.events.append(('vla-member', t))
        return t
    try:
        it = Interp(P, pu, {'opaque': OPQ, 'cut': {'declspec': cut_declspec, 'declarator': cut_declarator}, 'loop_limit': 1, 'track_stores': True})
        paths = it.explore(fn, lambda ctx: [_Ref(_ValPlace(0)), Obj('Token', lazy=True, label='tok'), Obj('Type', lazy=True, label='ty')], max_paths=4000)
    except AnalysisBroken as ex:
        rep.undecided(rule, key, 'struct_members not interpretable: %s' % ex, where=where); return
    accepted = diagnosed = 0
    sample = None
    for ctx, out in paths:
        if not any(e[0] == 'vla-member' for e in ctx.events):
            continue
        if out[0] == 'ret':
            accepted += 1
            sample = sample or ctx.trail[-8:]
        elif out[0] == 'noreturn':
            diagnosed += 1
    if not accepted and not diagnosed:
        rep.undecided(rule, key, 'no path of struct_members declares a member through declarator()', where=where); return
    rep.ob(rule, key, accepted == 0,
           'struct_members() accepts a member whose declarator yields a variable-length array type (%d of %d paths return normally): C11 6.7.2.1p9 forbids it, and the layout places the member by '
           'Type.size - for a VLA type the 8-byte placeholder of its hidden pointer - while `s.m[i]` addresses the array itself: `int n = 16; struct { char b[n]; int x; } s;` has sizeof 16 and '
           's.b[8..] are the bytes of s.x (any bound that is_const_expr() fails to recognise takes the same way silently)' % (accepted, accepted + diagnosed),
           where=where, facts={'path': sample})


# ------------------------------------------------------------------------------------------------
# R04.24 constant bound -> fixed-size array type
# ------------------------------------------------------------------------------------------------
def r_constant_bound(P, rep, rule):
    from .report import Report, reissue
    from .rules import c08
    key = 'parse.c:array_dimensions:constant-bound'
    sub = Report('C08')
    sub.rule('R08.5', '', 1)
    f = getattr(c08, 'r085_offsetof', None)
    if f is None:
        rep.undecided(rule, key, 'C08 R08.5 (offsetof probes) is not available under its name any more'); return
    try:
        f(P, P.unit('parse.c'), sub)
    except AnalysisBroken as e:
        rep.undecided(rule, key, 'C08 R08.5 could not be run: %s' % e); return
    except Exception as e:
        rep.undecided(rule, key, 'C08 R08.5 could not be run: %s' % e); return
    n = reissue(rep, rule, sub, 'the array becomes a variable-length array whose Type.size is the 8-byte placeholder (as a struct member the following members overlap it): ',
                keep=lambda o: ':offsetof:' in o['key'])
    if n == 0:
        rep.undecided(rule, key, 'C08 R08.5 produced no obligation about offsetof as an array bound')


# ------------------------------------------------------------------------------------------------
# R04.11 (extension) the storage unit the accessors use lies inside the struct
# ------------------------------------------------------------------------------------------------
UNIT_CASES = (
    # (name, packed, [(type kind, size, bit width or None)])
    ('lone-int-field', [('TY_INT', 4, 3)]),
    ('char-then-int-field', [('TY_CHAR', 1, None), ('TY_INT', 4, 3)]),
    ('char-then-short-field', [('TY_CHAR', 1, None), ('TY_SHORT', 2, 5)]),
    ('three-chars-then-long-field', [('TY_CHAR', 1, None), ('TY_CHAR', 1, None), ('TY_CHAR', 1, None), ('TY_LONG', 8, 7)]),
    ('int-field-then-char', [('TY_INT', 4, 3), ('TY_CHAR', 1, None)]),
)


def r_bitfield_unit_inside(P, rep, rule):
    """the bit-field accessors (R04.1/R04.2) load and store sizeof(declared type) bytes at Member.offset: those bytes must be bytes of the struct,
    i.e. offset + sizeof(type) <= sizeof(struct). struct_decl is run on concrete member lists, packed and not."""
    from .interp import Interp, Obj, View, _Ref, _ValPlace
    pu = P.unit('parse.c')
    fn = 'struct_decl'
    if fn not in pu.functions or 'struct_union_decl' not in pu.functions:
        rep.undecided(rule, 'parse.c:%s:bitfield-unit-inside-struct' % fn, 'struct_decl / struct_union_decl vanished'); return
    where = 'parse.c:%d' % pu.fn(fn).line
    E = pu.enums
    for packed in (False, True):
        key = 'parse.c:%s:bitfield-unit-inside-struct/%s' % (fn, 'packed' if packed else 'unpacked')
        for cname, mems in UNIT_CASES:
            box = {}

            def cut_sud(it, ctx, call, args, mems=mems, packed=packed):
                ms = []
                for i, (k, sz, bw) in enumerate(mems):
                    t = Obj('Type', lazy=False, label='mty%d' % i)
                    t.fields.update({'kind': E[k], 'size': sz, 'align': sz, 'is_unsigned': 0, 'base': 0, 'members': 0, 'is_packed': 0, 'is_flexible': 0, 'array_len': 0})
                    m = Obj('Member', lazy=False, label='m%d' % i)
                    m.fields.update({'ty': t, 'name': Obj('Token', lazy=True, label='name%d' % i), 'tok': 0, 'idx': i, 'align': sz, 'offset': 0,
                                     'is_bitfield': 1 if bw else 0, 'bit_width': bw or 0, 'bit_offset': 0, 'next': 0})
                    ms.append(m)
                for a, b in zip(ms, ms[1:]):
                    a.fields['next'] = b
                ty = Obj('Type', lazy=False, label='sty')
                ty.fields.update({'kind': E['TY_STRUCT'], 'size': 0, 'align': 1, 'is_packed': 1 if packed else 0, 'is_flexible': 0, 'members': ms[0], 'base': 0, 'is_unsigned': 0, 'array_len': 0})
                box['ty'], box['ms'] = ty, ms
                return ty
            try:
                it = Interp(P, pu, {'cut': {'struct_union_decl': cut_sud}, 'loop_limit': 8})
                outs = [(c, o) for c, o in it.explore(fn, lambda ctx: [_Ref(_ValPlace(0)), Obj('Token', lazy=True, label='tok')]) if o[0] == 'ret']
            except AnalysisBroken as ex:
                rep.undecided(rule, key, 'struct_decl not interpretable on the member list %s: %s' % (cname, ex), where=where); continue
            if len(outs) != 1 or 'ty' not in box:
                rep.undecided(rule, key, 'struct_decl has %d returning paths on the concrete member list %s' % (len(outs), cname), where=where); continue
            size = box['ty'].fields.get('size')
            bad = None
            und = None
            for m, (k, sz, bw) in zip(box['ms'], mems):
                if not bw:
                    continue
                off = m.fields.get('offset')
                if not isinstance(off, int) or not isinstance(size, int):
                    und = 'offset %r / size %r not concrete' % (off, size); continue
                if off < 0 or off + sz > size:
                    bad = (cname, k, bw, off, sz, size)
            if und:
                rep.undecided(rule, key, und, where=where); continue
            rep.ob(rule, key, bad is None,
                   'member list %s, %s: the %d-bit field of type %s gets byte offset %d and is accessed through a unit of %d bytes, but the struct has only %d bytes: the load and the read-modify-write store of every '
                   'access to the field reach %d byte(s) beyond the object (into the neighbouring object; a fault at the end of a mapping): `struct __attribute__((packed)) { char c; int f:3; }`'
                   % ((bad[0], 'packed' if packed else 'not packed', bad[2], bad[1], bad[3], bad[4], bad[5], bad[3] + bad[4] - bad[5]) if bad else ('', '', 0, '', 0, 0, 0, 0)),
                   where=where, facts={'case': cname})


# ------------------------------------------------------------------------------------------------
# R04.27 the width of a bit-field is one the layout and the accessors are sound for
# ------------------------------------------------------------------------------------------------
WIDTH_TYPES = (('char', 'TY_CHAR', 1, 0), ('unsigned int', 'TY_INT', 4, 1), ('long', 'TY_LONG', 8, 0))


def _width_cases(bits):
    """(width, named, class): the classes of C11 6.7.2.1p4"""
    return ((-1, True, 'negative'), (0, True, 'named-zero'), (bits + 1, True, 'above-type'), (bits + 8, False, 'above-type'),
            (0, False, 'valid'), (1, True, 'valid'), (bits, True, 'valid'))


def r_bitfield_width(P, rep, rule):
    """struct_members() is evaluated on one member declaration `T name : w` / `T : w` with a concrete declared type and a concrete width (declspec,
    declarator and const_expr cut by contract, the token predicates opaque): whether any path on which the width was read returns normally
    (the member reaches the layout with that width) or all of them end in a diagnostic."""
    from .interp import Interp, Obj
    from .interp import _Ref, _ValPlace
    pu = P.unit('parse.c')
    fn = 'struct_members'
    K = 'parse.c:%s:bitfield-width/' % fn
    if fn not in pu.functions:
        rep.undecided(rule, K + 'evaluation', 'struct_members vanished'); return
    where = 'parse.c:%d' % pu.fn(fn).line
    E = pu.enums
    OPQ = ['equal', 'consume', 'skip', 'get_ident', 'array_of', 'attribute_list']
    verdicts = {}          # class -> [(doc, accepted)]
    und = []
    cur = {}

    def cut_declspec(it, ctx, call, args):
        return Obj('Type', lazy=True, label='basety')

    def cut_declarator(it, ctx, call, args):
        t = Obj('Type', lazy=False, label='fieldty')
        t.fields.update({'kind': E[cur['kind']], 'size': cur['sz'], 'align': cur['sz'], 'base': 0, 'is_unsigned': cur['uns'], 'is_atomic': 0, 'members': 0, 'array_len': 0, 'vla_len': 0,
                         'vla_size': 0, 'origin': 0, 'is_packed': 0, 'is_flexible': 0, 'name_pos': Obj('Token', lazy=True, label='name-pos'),
                         'name': Obj('Token', lazy=True, label='name') if cur['named'] else 0})
        return t

    def cut_const_expr(it, ctx, call, args):
        ctx.events.append(('bf-width', cur['w']))
        return cur['w']
    try:
        it = Interp(P, pu, {'opaque': OPQ, 'cut': {'declspec': cut_declspec, 'declarator': cut_declarator, 'const_expr': cut_const_expr}, 'loop_limit': 1, 'track_stores': False})
    except AnalysisBroken as ex:
        rep.undecided(rule, K + 'evaluation', 'struct_members not interpretable: %s' % ex, where=where); return
    for tname, kind, sz, uns in WIDTH_TYPES:
        if kind not in E:
            und.append('enumerator %s vanished' % kind); continue
        for w, named, cls in _width_cases(sz * 8):
            doc = '`%s %s:%d;`' % (tname, 'f' if named else '', w)
            cur.update(kind=kind, sz=sz, uns=uns, named=named, w=w)
            try:
                paths = it.explore(fn, lambda ctx: [_Ref(_ValPlace(0)), Obj('Token', lazy=True, label='tok'), Obj('Type', lazy=True, label='ty')], max_paths=2000)
                acc = dia = 0
                for ctx, out in paths:
                    if not any(e[0] == 'bf-width' for e in ctx.events):
                        continue
                    if out[0] == 'ret':
                        acc += 1
                    elif out[0] == 'noreturn':
                        dia += 1
            except AnalysisBroken as ex:
                und.append('struct_members not interpretable on %s: %s' % (doc, ex)); continue
            if not acc and not dia:
                und.append('no path of struct_members reads the width of %s' % doc); continue
            verdicts.setdefault(cls, []).append((doc, acc > 0))
    if und:
        rep.undecided(rule, K + 'evaluation', '; '.join(und[:3]), where=where)
    TXT = {'negative': ('negative-rejected', 'a negative width is accepted (%s): the layout step adds the width to its running bit position, so the position moves BACKWARDS and the members that follow '
                        'are placed over the ones before - `struct { int x; int f:-32; int y; }` puts y on x'),
           'named-zero': ('named-zero-rejected', 'a named member of width zero is accepted (%s): the layout treats it as the unnamed alignment marker, but the name can be used - the accessors shift by '
                          '64 - 0 = 64 (undefined in the generated code) on a unit that belongs to the next member'),
           'above-type': ('above-type-rejected', 'a width above the bits of the declared type is accepted (%s): the accessors load and store exactly one unit of the declared type (R04.1/R04.2), so the field '
                          'holds fewer bits than declared, the read-back shifts (64 - w - o, 64 - w) run over extension bits instead of object bits, and the layout reserves bits that no access reaches; '
                          'gcc and clang: "width of bit-field exceeds its type"')}
    for cls, (name, msg) in TXT.items():
        vs = verdicts.get(cls)
        if not vs:
            continue
        bad = [d for d, a in vs if a]
        rep.ob(rule, K + name, not bad, msg % ', '.join(bad[:4]) + ' (C11 6.7.2.1p4 is a constraint: a diagnostic is required)', where=where, facts={'cases': vs})
    vs = verdicts.get('valid')
    if vs:
        bad = [d for d, a in vs if not a]
        rep.ob(rule, K + 'valid-accepted', not bad, 'a valid bit-field declaration is diagnosed on every path: %s' % ', '.join(bad[:4]), where=where, facts={'cases': vs})
