"""C04 helpers (round 9):
R04.29  the zero fill of a block-scope object (ND_MEMZERO) writes zero to exactly the bytes [offset, offset + sizeof) of the object's home - decided by
        running the emitted sequence (rep stos{b,w,l,q} and plain stores included) on a grid of concrete (size, object alignment, type alignment, offset);
R04.30  a read-modify-write of an lvalue reads the object AFTER every operand of the node has been evaluated: the operands may store to the same
        bytes (a neighbouring bit-field of the storage unit, the object itself), so a value loaded before an operand runs is stale when it is merged
        and written back."""
from .build import AnalysisBroken
from .interp import Obj, Sym
from .chibi import Trace, linearise
from .x86 import Machine, Unknown, lo, norm_bin, C

U = 'codegen.c'


# ------------------------------------------------------------------------------------------------
# R04.29
# ------------------------------------------------------------------------------------------------
def _split(t):
    """(base term, constant byte displacement) of an address value"""
    if isinstance(t, tuple) and t[0] == 'bin' and t[1] == 'add' and t[2] == 64:
        for x, y in ((t[3], t[4]), (t[4], t[3])):
            if isinstance(y, tuple) and y[0] == 'c' and isinstance(y[1], int):
                b, k = _split(x)
                v = y[1] - (1 << 64) if y[1] >> 63 else y[1]
                return b, k + v
    if isinstance(t, tuple) and t[0] == 'addrof' and isinstance(t[2], tuple) and t[2][0] == 'addr' and isinstance(t[2][2], int):
        return ('addrof', t[1], ('addr', t[2][1], 0)), t[2][2]
    return t, 0


class FillMachine(Machine):
    """the term machine + string stores: `rep stos?` with a concrete count writes count units of the accumulator upwards from (%rdi)"""
    UNITS = {'b': 1, 'w': 2, 'l': 4, 'd': 4, 'q': 8}

    def _stos(self, s, name, repeated):
        unit = self.UNITS.get(name[4:5]) if name.startswith('stos') and len(name) == 5 else None
        if unit is None:
            raise Unknown('string instruction `%s`' % name)
        n = 1
        if repeated:
            c = s.reg['rcx']
            if not (isinstance(c, tuple) and c[0] == 'c' and isinstance(c[1], int)):
                raise Unknown('rep count %r is not a constant for a concrete object' % (c,))
            n = c[1]
            if n > 1 << 20:
                raise Unknown('rep count %d' % n)
        base, k = _split(s.reg['rdi'])
        s.events.append(('fill', base, k, n * unit, lo(unit * 8, s.reg['rax']), unit))
        s.reg['rdi'] = norm_bin('add', 64, s.reg['rdi'], C(n * unit))
        if repeated:
            s.reg['rcx'] = C(0)

    def i_rep(self, s, ops):
        if not ops:
            raise Unknown('rep without a string instruction')
        o = ops[0]
        self._stos(s, o[1] if isinstance(o, tuple) else str(o), True)

    def step(self, s, mn, ops, text):
        if mn.startswith('rep ') or mn.startswith('rep_'):
            return self._stos(s, mn[4:], True)
        if mn.startswith('stos') and len(mn) == 5:
            return self._stos(s, mn, False)
        return Machine.step(self, s, mn, ops, text)


def _zero_fill_case(cg, size, valign, talign, off, kname):
    """-> list of (verdict, message, trace) per generator path; verdict True / False / None (undecided)"""
    box = {}

    def mk(ctx):
        t = Obj('Type', lazy=True, label='vty')
        t.fields.update({'kind': cg.E[kname], 'size': size, 'align': talign, 'is_unsigned': 0})
        if kname == 'TY_ARRAY' and talign and size % talign == 0:
            t.fields['array_len'] = size // talign
        v = Obj('Obj', lazy=True, label='var')
        v.fields.update({'ty': t, 'align': valign, 'offset': off, 'is_local': 1})
        n = cg.node('node', 'ND_MEMZERO')
        n.fields['var'] = v
        box['n'] = n
        return n
    it, res = cg.explore('gen_expr', mk)
    out = []
    rets = [(c, o) for c, o in res if o[0] == 'ret']
    if len(rets) > 16:
        return [(None, '%d generator paths for one concrete object' % len(rets), [])]
    for ctx, o in rets:
        tr = Trace(ctx)
        text = tr.text()
        try:
            nodes = linearise(tr)

            def pseudo(s, n):
                raise Unknown('the zero fill evaluates a child node')
            finals = FillMachine().run(nodes, lambda s: None, pseudo, max_paths=8)
        except Unknown as e:
            out.append((None, 'emitted code not interpretable: %s' % e, text)); continue
        want = set(range(off, off + size))
        for s in finals:
            zero, dirty, foreign = set(), {}, []
            RB = ('addrof', 64, ('addr', ('init', 'rbp'), 0))
            for e in s.events:
                if e[0] != 'fill':
                    continue
                _, base, k, nbytes, val, unit = e
                if base != RB:
                    foreign.append('a string store through %r' % (base,)); continue
                for b in range(k, k + nbytes):
                    if val == C(0):
                        zero.add(b)
                    else:
                        dirty[b] = val
            for a, w, val, kind in s.stores:
                if not (isinstance(a, tuple) and a[0] == 'addr' and a[1] == ('init', 'rbp') and isinstance(a[2], int)):
                    foreign.append('a store to %r' % (a,)); continue
                for b in range(a[2], a[2] + w // 8):
                    if val == C(0):
                        zero.add(b); dirty.pop(b, None)
                    else:
                        dirty[b] = val; zero.discard(b)
            msg = None
            if foreign:
                msg = foreign[0] + ' that is not relative to the frame base'
            elif any(b in want for b in dirty):
                b = min(b for b in dirty if b in want)
                msg = 'byte %d of the object is filled with %r, which is not known to be zero (the accumulator must be cleared as wide as the store unit)' % (b - off, dirty[b])
            elif want - zero:
                miss = sorted(b - off for b in want - zero)
                msg = 'bytes %d..%d of the object (%d of %d) are not zeroed: the elements / members there that have no initializer keep the previous contents of the stack slot (C11 6.7.9p21: 0)' \
                    % (miss[0], miss[-1], len(miss), size)
            elif (zero | set(dirty)) - want:
                ext_ = sorted(b - off for b in (zero | set(dirty)) - want)
                msg = 'the fill also writes %d byte(s) outside the object (relative position %d..%d): they belong to neighbouring locals' % (len(ext_), ext_[0], ext_[-1])
            out.append((msg is None, msg or '', text))
    if not out:
        out.append((None, 'no returning path', []))
    return out


def r_zero_fill_extent(cg, rep, rule):
    fn = cg.cu.fn('gen_expr')
    if fn is None or 'ND_MEMZERO' not in cg.E:
        rep.undecided(rule, '%s:gen_expr:ND_MEMZERO' % U, 'gen_expr / ND_MEMZERO vanished'); return
    where = '%s:%d' % (U, fn.line)
    # (size, alignment of the OBJECT (Obj.align: _Alignas or the array rule may raise it), alignment of the type, class)
    grid = []
    for size in (1, 5, 8, 12, 13, 16, 20, 29, 72):
        for talign in (1, 4, 8):
            if size % talign:
                continue
            for valign in sorted({talign, 8, 16, 32}):
                if valign < talign:
                    continue
                grid.append((size, valign, talign))
    for size, valign, talign in grid:
        for kname, cls in (('TY_ARRAY', 'array'), ('TY_STRUCT', 'struct'), ('TY_UNION', 'union')):
            if cls == 'struct' and not (size in (5, 13, 20, 72)) or cls == 'union' and not (size in (5, 12)) or kname not in cg.E:
                continue
            key = '%s:gen_expr:ND_MEMZERO/extent/%s-size%d-align%d-typealign%d' % (U, cls, size, valign, talign)
            off = -((2 * size + 3 * valign + valign - 1) // valign * valign)
            try:
                res = _zero_fill_case(cg, size, valign, talign, off, kname)
            except AnalysisBroken as e:
                rep.undecided(rule, key, 'not interpretable: %s' % e, where=where); continue
            for ok, msg, text in res:
                if ok is None:
                    rep.undecided(rule, key, msg, where=where)
                else:
                    rep.ob(rule, key, ok, 'zero fill of a %d-byte %s whose home is %d-aligned (type alignment %d) at %d(%%rbp): %s' % (size, cls, valign, talign, off, msg), where=where, facts={'trace': text})


# ------------------------------------------------------------------------------------------------
# R04.30
# ------------------------------------------------------------------------------------------------
class OrderMachine(Machine):
    """the term machine + a log of the reads of program memory, each stamped with the number of operand evaluations that precede it"""

    def load(self, s, op, w):
        t = Machine.load(self, s, op, w)
        if isinstance(t, tuple) and t[0] == 'mem' and not (isinstance(t[2], tuple) and t[2] and t[2][0] == 'rsp'):
            s.events.append(('load', t, sum(1 for e in s.events if e[0] == 'eval')))
        return t


def _occurs(t, x):
    if t == x:
        return True
    if isinstance(t, (tuple, list)):
        return any(_occurs(y, x) for y in t)
    return False


def run_paths_ordered(cg, fname, mk):
    """lib_sem.run_paths with the load log"""
    from . import lib_sem
    saved = lib_sem.Machine
    lib_sem.Machine = OrderMachine
    try:
        return lib_sem.run_paths(cg, fname, mk)
    finally:
        lib_sem.Machine = saved


def stale_reads(s):
    """reads of program memory made before the last operand evaluation whose value reaches a store, the result register or a pending temporary;
    -> (stale [(term, evaluated-before, total)], ambiguous [term], number of reads)"""
    total = sum(1 for e in s.events if e[0] == 'eval')
    loads = [e for e in s.events if e[0] == 'load']
    fresh = set(e[1] for e in loads if e[2] == total)
    sinks = [st[2] for st in s.stores] + [st[0] for st in s.stores] + [s.reg['rax'], s.xmm.get(0), list(s.st), list(s.stack)] + [e for e in s.events if e[0] not in ('load', 'eval')]
    stale, amb = [], []
    for e in loads:
        if e[2] == total:
            continue
        if not any(_occurs(x, e[1]) for x in sinks if x is not None):
            continue
        (amb if e[1] in fresh else stale).append((e[1], e[2], total))
    return stale, amb, len(loads)


def check_read_after_operands(rep, rule, key, pack, where, what, need_load=True):
    n = 0
    for ctx, tr, finals, cats, it in pack:
        if isinstance(finals, Exception):
            rep.undecided(rule, key, 'emitted code not interpretable: %s' % finals, where=where); n += 1; continue
        for s in finals:
            n += 1
            stale, amb, nl = stale_reads(s)
            if need_load and nl == 0:
                rep.undecided(rule, key, 'no read of the object is observed in the emitted sequence (the read-modify-write is not recognised)', where=where); continue
            if amb and not stale:
                rep.undecided(rule, key, 'the object is read both before and after an operand is evaluated; which value is merged is not decided', where=where); continue
            ev = [e[2] for e in s.events if e[0] == 'eval']
            rep.ob(rule, key, not stale,
                   '%s: %r is read after %d of the %d operand evaluations (%s) and the value is kept across the rest: an operand evaluated later may store to the same bytes '
                   '(`s.a = (s.b = 9) - 2`, `s.a = s.b++`, `x = f(&x)`), and the write-back then restores the stale bytes - the lvalue no longer designates the current contents of its object'
                   % ((what, stale[0][0], stale[0][1], stale[0][2], ', '.join(ev)) if stale else (what, None, 0, 0, '')), where=where, facts={'trace': tr.text()})
    if n == 0:
        rep.undecided(rule, key, 'no returning path', where=where)


# ------------------------------------------------------------------------------------------------
# R04.31  a later declaration of a file-scope array with an incomplete type does not hide the extent
# ------------------------------------------------------------------------------------------------
def r_redeclared_array_extent(P, rep, rule):
    """`int a[5]; int a[];` declares ONE object of 20 bytes (C11 6.2.7p4: the later declaration has the composite type). Every lvalue `a`, sizeof a and
    the bounds of an initialiser are typed by the Obj the scope maps the name to after the last declaration: global_variable() is evaluated on the
    declarator `a[]` (and `a[5]` for liveness) in a scope where the name already denotes a file-scope array of five ints; the Obj visible afterwards
    must have the complete type (R04.25 decides which Obj reaches emit_data)."""
    from .interp import Interp, View, _Ref
    pu = P.unit('parse.c')
    fn = 'global_variable'
    for f in (fn, 'new_gvar', 'new_var', 'push_scope', 'find_var', 'declarator'):
        if f not in pu.functions:
            rep.undecided(rule, 'parse.c:%s' % f, '%s vanished' % f); return
    E = pu.enums
    for k in ('TY_ARRAY', 'TY_INT'):
        if k not in E:
            rep.undecided(rule, 'parse.c:%s' % k, 'enumerator %s vanished' % k); return
    where = 'parse.c:%d' % pu.fn(fn).line

    def mkint():
        t = Obj('Type', lazy=False, label='int')
        t.fields.update(dict(kind=E['TY_INT'], size=4, align=4, is_unsigned=0, base=0, array_len=0, origin=0, is_atomic=0, name=0, name_pos=0, vla_len=0, vla_size=0,
                             members=0, is_flexible=0, is_packed=0, return_ty=0, params=0, is_variadic=0, next=0))
        return t

    def mkarr(base, n, label):
        t = Obj('Type', lazy=False, label=label)
        t.fields.update(dict(kind=E['TY_ARRAY'], size=4 * n, align=4, is_unsigned=0, base=base, array_len=n, origin=0, is_atomic=0, name=0, name_pos=0, vla_len=0, vla_size=0,
                             members=0, is_flexible=0, is_packed=0, return_ty=0, params=0, is_variadic=0, next=0))
        return t

    def fin(it, v):
        return it.settle(v) if isinstance(v, View) else v

    for earlier, later, tag in ((5, -1, 'complete-then-incomplete'), (-1, 5, 'incomplete-then-complete'), (5, 5, 'complete-twice')):
        key = 'parse.c:%s:redeclared-array/%s' % (fn, tag)
        box = {}

        def h_consume(it, ctx, n, a):
            if len(a) >= 3 and a[2] == ';':
                ctx.c04_n = getattr(ctx, 'c04_n', 0) + 1
                r = 0 if ctx.c04_n == 1 else 1
                if r and isinstance(a[0], _Ref):
                    a[0].place.set(it, a[1])
                return r
            return 0

        def h_declarator(it, ctx, n, a, later=later):
            t = mkarr(box['int'], later, 'declared-type')
            t.fields['name'] = box['name']; t.fields['name_pos'] = box['name']
            if isinstance(a[0], _Ref):
                a[0].place.set(it, a[1])
            return t

        def h_find_var(it, ctx, n, a):
            return ctx.c04_visible

        def h_push_scope(it, ctx, n, a):
            sc = Obj('VarScope', lazy=False, label='new-scope-entry', fields={'var': 0, 'type_def': 0, 'enum_ty': 0, 'enum_val': 0})
            ctx.c04_visible = sc
            return sc

        def m_array_of(it, ctx, n, a):
            b, ln = fin(it, a[0]), fin(it, a[1])
            if not isinstance(b, Obj) or not isinstance(ln, int) or not isinstance(b.fields.get('size'), int):
                raise AnalysisBroken('array_of on a non-concrete type')
            return mkarr(b, ln, 'array_of')

        def m_copy_type(it, ctx, n, a):
            b = fin(it, a[0])
            if not isinstance(b, Obj):
                raise AnalysisBroken('copy_type on a non-concrete type')
            t = Obj('Type', lazy=False, label='copy-of-' + str(b.label))
            t.fields.update(b.fields)
            t.fields['origin'] = b
            return t
        it = Interp(P, pu, {'cut': {'consume': h_consume, 'declarator': h_declarator, 'find_var': h_find_var, 'push_scope': h_push_scope, 'array_of': m_array_of, 'copy_type': m_copy_type,
                                    'equal': lambda it_, ctx, n, a: 0, 'is_variably_modified': lambda it_, ctx, n, a: 0, 'get_ident': lambda it_, ctx, n, a: 'a',
                                    'is_compatible': lambda it_, ctx, n, a: 1},
                            'opaque': ['skip', 'error_tok', 'gvar_initializer', 'strcmp'], 'loop_limit': 2, 'rec_limit': 2})

        def mk(ctx, earlier=earlier):
            it.ctx = ctx
            box['int'] = mkint()
            box['name'] = Obj('Token', lazy=True, label='name')
            prev = Obj('Obj', lazy=False, label='earlier-declaration')
            prev.fields.update(dict(name='a', ty=mkarr(box['int'], earlier, 'earlier-type'), is_local=0, is_function=0, is_definition=1, is_tentative=1, is_static=0, is_tls=0, align=4,
                                    next=0, init_data=0, rel=0, offset=0, is_root=0, is_live=0, is_inline=0))
            box['prev'] = prev
            ctx.c04_visible = Obj('VarScope', lazy=False, label='earlier-scope-entry', fields={'var': prev, 'type_def': 0, 'enum_ty': 0, 'enum_val': 0})
            ctx.c04_n = 0
            ctx.globals['globals'] = prev
            attr = Obj('VarAttr', lazy=False, label='attr', fields=dict(is_typedef=0, is_static=0, is_extern=0, is_inline=0, is_tls=0, align=0))
            return [Obj('Token', lazy=True, label='tok'), box['int'], attr]
        try:
            res = list(it.explore(fn, mk))
        except AnalysisBroken as e:
            rep.undecided(rule, key, 'not interpretable: %s' % e, where=where); continue
        except Exception as e:
            rep.undecided(rule, key, 'not interpretable: %s: %s' % (type(e).__name__, e), where=where); continue
        rets = [(c, o) for c, o in res if o[0] == 'ret']
        if not rets:
            rep.undecided(rule, key, 'no returning path (%d diagnosed)' % len(res), where=where); continue
        if len(rets) > 8:
            rep.undecided(rule, key, '%d returning paths for one concrete declaration' % len(rets), where=where); continue
        for ctx, out in rets:
            it.ctx = ctx
            vis = ctx.c04_visible
            var = fin(it, vis.fields.get('var')) if isinstance(vis, Obj) else None
            ty = fin(it, var.fields.get('ty')) if isinstance(var, Obj) else None
            if not isinstance(ty, Obj):
                rep.undecided(rule, key, 'the object the name denotes after the declaration (or its type) is not determined', where=where); continue
            size, ln = fin(it, ty.fields.get('size')), fin(it, ty.fields.get('array_len'))
            if not isinstance(size, int) or not isinstance(ln, int):
                rep.undecided(rule, key, 'the size of the visible type is not concrete (%r, %r)' % (size, ln), where=where); continue
            rep.ob(rule, key, size == 20 and ln == 5,
                   'after `int a[%s]; int a[%s];` the name denotes an object of type int[%s] with size %d: sizeof a, the bounds of a[i] and every lvalue of the object are typed by an extent other than the '
                   '20 bytes the one object has (C11 6.2.7p4: a redeclaration has the composite type; an incomplete later declaration does not hide the bound)'
                   % ('' if earlier < 0 else earlier, '' if later < 0 else later, '' if ln < 0 else ln, size), where=where, facts={'path': list(ctx.trail)[-8:]})
