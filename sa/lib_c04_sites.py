"""private helper of sa/rules/c04.py: R04.17 -- the hidden objects of a lowering are created for the site that uses them.

A struct-returning call, `A op= B`, a compound literal, the GNU `a ?: b`, an atomic op=, a VLA type ... make the parser attach a hidden
frame object to the tree it builds (Node.ret_buffer, Node.var of an ND_VAR / ND_VLA_PTR, Type.vla_size).  Two sites that are live at
the same time designate different objects (C11 6.2.4p8 for call results, 6.5.2.5 for compound literals, 6.5.16.2 for op=), so the object
attached to the tree must be one that this evaluation of the lowering created (or one the source program named: a scope lookup, or one the
caller handed in).  What it must never be is a frame object fished out of the parser's persistent state (the list of locals, a static or
global cache, a lazily filled field of the current function): then two sites share the same bytes.

The rule is decided by a flow-insensitive, call-substituting origin analysis over the typed AST of parse.c (every path: a return statement
or an assignment that can deliver a reused object counts, whatever guards it):

  origin(e) for an expression of type `Obj *`:
     fresh      calloc/malloc result (possibly returned through constructor functions; the chain of functions is remembered)
     lookup     member of a VarScope (the program named the object)
     typefield  member of a Type      (per-type hidden object, e.g. vla_size)
     given      rooted at a parameter that cannot be resolved further
     persist    a file-scope or static variable, or a member chain rooted there (`locals`, `locals->next`, `current_fn->x`)
     null / other

  sinks: every assignment `X->f = e` with f of type `Obj *` and X a Node or a Type; a sink whose value is a parameter of its function is
  resolved at the call sites of that function (so `new_var_node(var, tok)` is judged where `var` is produced).
"""
from .build import AnalysisBroken

ALLOC = ('calloc', 'malloc')
MAX_DEPTH = 6


def _is_objptr(t):
    return (t or '').replace('struct ', '').replace(' ', '') == 'Obj*'


def _rec_of(t):
    """record name a pointer/struct type designates ('Node *' -> 'Node')"""
    t = (t or '').replace('struct ', '').replace('const ', '').strip()
    while t.endswith('*'):
        t = t[:-1].strip()
    return t


class Origins:
    def __init__(self, u):
        self.u = u
        self.fns = {f: d for f, d in u.functions.items() if d.find('CompoundStmt')}
        self._ret = {}
        self._busy = set()
        self._decls = {}       # function -> {decl id: VarDecl node}
        self._assigns = {}     # function -> {decl id: [rhs nodes]}
        self._callers = None
        self._frame_ctors = None
        self._persist_frame = {}

    # ---- per-function tables ----------------------------------------------------------------
    def _tables(self, fname):
        if fname in self._decls:
            return
        fd = self.fns[fname]
        decls, assigns = {}, {}
        for n in fd.walk():
            if n.kind == 'VarDecl':
                decls[n.id] = n
                if n.inner and n.d.get('init'):
                    assigns.setdefault(n.id, []).append(n.inner[-1])
            elif n.kind == 'BinaryOperator' and n.opcode == '=' and len(n.inner) == 2:
                l = n.inner[0].strip()
                if l.kind == 'DeclRefExpr' and l.ref_kind == 'VarDecl':
                    assigns.setdefault(l.ref_id, []).append(n.inner[1])
        self._decls[fname] = decls
        self._assigns[fname] = assigns

    def param_index(self, fname, ref_id):
        for i, p in enumerate(self.u.params(fname) or []):
            if p.id == ref_id:
                return i
        return None

    def callers(self, fname):
        if self._callers is None:
            self._callers = {}
            for g, gd in self.fns.items():
                for c in gd.find('CallExpr'):
                    n = c.callee()
                    if n in self.fns:
                        self._callers.setdefault(n, []).append((g, c))
        return self._callers.get(fname, [])

    # ---- origins ----------------------------------------------------------------------------------
    def returns(self, fname):
        """origins of the value a function defined in the unit returns (parameters stay symbolic: ('param', fname, i, ...))"""
        if fname in self._ret:
            return self._ret[fname]
        if fname in self._busy:
            return set()
        self._busy.add(fname)
        out = set()
        for r in self.fns[fname].find('ReturnStmt'):
            if r.inner:
                out |= self.expr(fname, r.inner[0], frozenset())
        self._busy.discard(fname)
        self._ret[fname] = out
        return out

    def expr(self, fname, e, seen):
        """set of origins (kind, detail, site function, via chain)"""
        e = e.strip_all()
        k = e.kind
        if k in ('IntegerLiteral', 'GNUNullExpr'):
            return {('null', '', fname, ())}
        if k == 'CallExpr':
            c = e.callee()
            if c in ALLOC:
                return {('fresh', c, fname, ())}
            if c in self.fns:
                out = set()
                for o in self.returns(c):
                    if o[0] == 'param' and o[1][0] == c:
                        a = e.args()
                        if o[1][1] < len(a):
                            out |= self.expr(fname, a[o[1][1]], seen)
                        else:
                            out.add(('given', 'missing argument', fname, ()))
                    else:
                        out.add((o[0], o[1], o[2], tuple(sorted(set(o[3]) | {c}))))
                return out
            return {('other', 'result of %s()' % (c or 'an indirect call'), fname, ())}
        if k == 'DeclRefExpr':
            if e.ref_kind == 'ParmVarDecl':
                i = self.param_index(fname, e.ref_id)
                out = {('param', (fname, i), fname, ())} if i is not None else {('given', e.ref_name, fname, ())}
                # a parameter that the function itself re-assigns
                self._tables(fname)
                for rhs in self._assigns[fname].get(e.ref_id, []):
                    if e.ref_id not in seen:
                        out |= self.expr(fname, rhs, seen | {e.ref_id})
                return out
            if e.ref_kind == 'VarDecl':
                self._tables(fname)
                d = self._decls[fname].get(e.ref_id)
                if d is None or d.d.get('storageClass') == 'static':
                    return {('persist', (e.ref_name, ()), fname, ())}
                if e.ref_id in seen:
                    return set()
                out = set()
                for rhs in self._assigns[fname].get(e.ref_id, []):
                    out |= self.expr(fname, rhs, seen | {e.ref_id})
                return out
            return {('other', e.ref_kind or '?', fname, ())}
        if k == 'MemberExpr' and e.inner:
            base = e.inner[0]
            rec = _rec_of(base.strip().type)
            if rec == 'VarScope':
                return {('lookup', e.name, fname, ())}
            if rec == 'Type':
                return {('typefield', e.name, fname, ())}
            out = set()
            for o in self._base(fname, base, seen):
                if o[0] == 'persist':
                    out.add(('persist', (o[1][0], o[1][1] + (e.name,)), o[2], o[3]))
                elif o[0] in ('param', 'given'):
                    out.add(('given', 'member %s of a parameter' % e.name, fname, ()))
                else:
                    out.add(('other', 'member %s of %s' % (e.name, o[0]), fname, ()))
            return out
        if k == 'ConditionalOperator' and len(e.inner) == 3:
            return self.expr(fname, e.inner[1], seen) | self.expr(fname, e.inner[2], seen)
        if k == 'BinaryConditionalOperator' and e.inner:
            return self.expr(fname, e.inner[0], seen) | self.expr(fname, e.inner[-1], seen)
        if k == 'BinaryOperator' and e.opcode in (',', '=') and len(e.inner) == 2:
            return self.expr(fname, e.inner[1], seen)
        if k == 'StmtExpr':
            return {('other', 'statement expression', fname, ())}
        return {('other', k, fname, ())}

    def _base(self, fname, base, seen):
        """origins of the object a member access goes through (any pointer type, not only Obj *)"""
        b = base.strip_all()
        if b.kind in ('DeclRefExpr', 'MemberExpr', 'CallExpr', 'ConditionalOperator'):
            return self.expr(fname, b, seen)
        if b.kind == 'UnaryOperator' and b.opcode in ('*', '&') and b.inner:
            return self._base(fname, b.inner[0], seen)
        if b.kind == 'ArraySubscriptExpr' and b.inner:
            return self._base(fname, b.inner[0], seen)
        return {('other', b.kind, fname, ())}

    # ---- which persistent places hold frame objects ---------------------------------------------------
    def frame_ctors(self):
        """functions that mark an object they return as a frame object (`x->is_local = <non-zero>`)"""
        if self._frame_ctors is None:
            s = set()
            for f, fd in self.fns.items():
                for n in fd.find('BinaryOperator'):
                    if n.opcode != '=' or len(n.inner) != 2:
                        continue
                    l = n.inner[0].strip()
                    if l.kind == 'MemberExpr' and l.name == 'is_local' and n.inner[1].int_value() != 0:
                        s.add(f)
            # a helper that only marks (returns nothing) makes its callers the constructors
            changed = True
            while changed:
                changed = False
                for f in list(s):
                    if (self.fns[f].type or '').split('(')[0].strip() != 'void':
                        continue
                    for g, c in self.callers(f):
                        if g not in s:
                            s.add(g); changed = True
            self._frame_ctors = s
        return self._frame_ctors

    def _is_frame(self, o, in_fn):
        return o[0] == 'fresh' and bool((set(o[3]) | {o[2], in_fn}) & self.frame_ctors())

    def holds_frame_objects(self, root, path):
        """does the persistent place root(.path) ever receive a frame object?  root: file-scope/static variable name; path: member names"""
        key = (root, path)
        if key in self._persist_frame:
            return self._persist_frame[key]
        self._persist_frame[key] = (False, ())
        path = tuple(p for p in path if p != 'next')       # a list link designates another element of the same list
        found = set()
        for f, fd in self.fns.items():
            for n in fd.find('BinaryOperator'):
                if n.opcode != '=' or len(n.inner) != 2:
                    continue
                l = n.inner[0].strip()
                hit = False
                if not path:
                    hit = l.kind == 'DeclRefExpr' and l.ref_kind == 'VarDecl' and l.ref_name == root and self._is_persistent_ref(f, l)
                else:
                    hit = l.kind == 'MemberExpr' and l.name == path[-1] and _rec_of(l.inner[0].strip().type) == 'Obj' and _is_objptr(l.type)
                if not hit:
                    continue
                for o in self.expr(f, n.inner[1], frozenset()):
                    for use, x in self._resolve_one(o, 0, f):
                        if self._is_frame(x, f) or self._is_frame(x, use):
                            found.add(f)
                        elif x[0] == 'persist' and x[1] != (root, path):
                            r = self.holds_frame_objects(x[1][0], x[1][1])
                            if r[0]:
                                found.add(f)
        self._persist_frame[key] = (bool(found), tuple(sorted(found)))
        return self._persist_frame[key]

    def _is_persistent_ref(self, fname, ref):
        self._tables(fname)
        d = self._decls[fname].get(ref.ref_id)
        return d is None or d.d.get('storageClass') == 'static'

    # ---- parameters are resolved at the call sites --------------------------------------------------------
    def _resolve_one(self, o, depth, use=None):
        """{(use site, origin)}: a value that is a parameter of its function is judged where the callers produce it"""
        if o[0] != 'param':
            return {(use or o[2], o)}
        f, i = o[1]
        cs = self.callers(f)
        if not cs or depth >= MAX_DEPTH:
            return {(use or f, ('given', 'parameter %d of %s' % (i, f), f, ()))}
        out = set()
        for g, c in cs:
            a = c.args()
            if i >= len(a):
                continue
            for x in self.expr(g, a[i], frozenset()):
                out |= self._resolve_one(x, depth + 1, g)
        return out

    def resolve(self, fname, origins):
        out = set()
        for o in origins:
            out |= self._resolve_one(o, 0, fname)
        return out

    # ---- sinks ---------------------------------------------------------------------------------------
    def sinks(self):
        """(function, field, record, rhs node, line) of every assignment of an Obj * into a field of a Node or a Type"""
        out = []
        for f, fd in self.fns.items():
            for n in fd.find('BinaryOperator'):
                if n.opcode != '=' or len(n.inner) != 2:
                    continue
                l = n.inner[0].strip()
                if l.kind != 'MemberExpr' or not _is_objptr(l.type) or not l.inner:
                    continue
                rec = _rec_of(l.inner[0].strip().type)
                if rec in ('Node', 'Type'):
                    out.append((f, l.name, rec, n.inner[1], n.line))
        return out


def r_site_objects(P, rep, rule):
    pu = P.unit('parse.c')
    for anchor in ('funcall', 'to_assign', 'new_lvar'):
        if anchor not in pu.functions:
            rep.undecided(rule, 'parse.c:%s' % anchor, '%s vanished' % anchor); return
    if not any(f == 'ret_buffer' for f, t, b in pu.records.get('Node', [])):
        rep.undecided(rule, 'parse.c:Node:ret_buffer', 'struct Node has no ret_buffer member any more'); return
    A = Origins(pu)
    if not A.frame_ctors():
        rep.undecided(rule, 'parse.c:new_lvar:is_local', 'no function marks the objects it creates as frame objects (is_local)'); return
    sinks = A.sinks()
    seen_fields = set()
    per = {}            # (site function, record, field) -> [bad..], line
    for f, field, rec, rhs, line in sinks:
        seen_fields.add((rec, field))
        for site, o in A.resolve(f, A.expr(f, rhs, frozenset())):
            ent = per.setdefault((site, rec, field), {'line': None, 'bad': [], 'kinds': set(), 'unknown': None})
            ent['kinds'].add(o[0])
            if o[0] == 'persist':
                root, path = o[1]
                holds, where_ = A.holds_frame_objects(root, path)
                # a member of a persistent object other than a list link is a per-function singleton unless the site (or a helper of it) fills it itself
                if holds and (not [p for p in path if p != 'next'] or set(where_) & ({site, o[2]} | set(o[3]))):
                    ent['bad'].append(('->'.join((root,) + tuple(path)), o[3], ', '.join(where_)))
            elif field == 'ret_buffer' and rec == 'Node':
                # the temporary of ONE call expression: nothing but an object created for this call node will do
                if o[0] == 'typefield':
                    ent['bad'].append(('Type.%s' % o[1], o[3], ''))
                elif o[0] == 'lookup':
                    ent['bad'].append(('scope', o[3], ''))
                elif o[0] == 'fresh' and not A._is_frame(o, site):
                    ent['bad'].append(('non-frame-object', o[3], ''))
                elif o[0] in ('given', 'other'):
                    ent['unknown'] = '%s (%s)' % (o[0], o[1])
    if ('Node', 'ret_buffer') not in seen_fields:
        rep.undecided(rule, 'parse.c:funcall:ret_buffer', 'no assignment to Node.ret_buffer found: the return buffer of an aggregate-valued call is attached in a way the analysis does not see'); return
    for (site, rec, field), ent in sorted(per.items()):
        fd = pu.fn(site)
        where = 'parse.c:%d' % (fd.line if fd is not None else 0)
        key = 'parse.c:%s:%s.%s' % (site, rec, field)
        if not ent['bad']:
            if ent['unknown']:
                rep.undecided(rule, key, 'where the object attached as %s.%s comes from is not recognised: %s' % (rec, field, ent['unknown']), where=where)
            else:
                rep.ob(rule, key, True, '', where=where, facts={'origins': sorted(ent['kinds'])})
            continue
        for place, via, filled in sorted(set(ent['bad'])):
            if place == 'non-frame-object':
                rep.ob(rule, '%s/not-a-frame-object' % key, False, 'the object that %s() attaches as %s.%s is not created by the constructor of frame objects (is_local is not set): the code generator addresses '
                       'it as offset(%%rbp) although it has no home in the frame' % (site, rec, field), where=where, facts={'origins': sorted(ent['kinds'])})
                continue
            filled = filled or 'the parser'
            rep.ob(rule, '%s/reused-from-%s' % (key, place), False,
                   'the object that %s() attaches to the tree as %s.%s can be one taken from the parser\'s persistent state `%s`%s (which holds frame objects, stored in %s()) instead of one created for '
                   'this site: two sites that are live at the same time (two aggregate-valued calls in one full expression, nested op=, two compound literals) then designate the same bytes and the '
                   'second evaluation overwrites the first (C11 6.2.4p8 / 6.5.2.5: each evaluation has its own object)'
                   % (site, rec, field, place, (' (through %s)' % ', '.join(via)) if via else '', filled),
                   where=where, facts={'origins': sorted(ent['kinds'])})


# ------------------------------------------------------------------------------------------------
# the constructor of frame objects registers every object it creates (so that it gets a home of its own)
# ------------------------------------------------------------------------------------------------
def r_lvar_registered(P, rep, rule):
    from .interp import Interp, Obj, View, Sym
    pu = P.unit('parse.c')
    fn = 'new_lvar'
    if fn not in pu.functions:
        rep.undecided(rule, 'parse.c:%s' % fn, 'new_lvar vanished'); return
    where = 'parse.c:%d' % pu.fn(fn).line
    key = 'parse.c:%s:creates-and-registers-a-new-object' % fn
    box = {}
    it = Interp(P, pu, {'opaque': ['push_scope'], 'rec_limit': 3})

    def mk(ctx):
        it.ctx = ctx
        box['ty'] = Obj('Type', lazy=True, label='ty')
        box['old'] = Obj('Obj', lazy=True, label='earlier-local')
        ctx.globals['locals'] = box['old']
        return [Sym('name', 'char *'), box['ty']]
    try:
        res = list(it.explore(fn, mk))
    except AnalysisBroken as e:
        rep.undecided(rule, key, 'not interpretable: %s' % e, where=where); return
    rets = [(c, o) for c, o in res if o[0] == 'ret']
    if not rets:
        rep.undecided(rule, key, 'no returning path', where=where); return
    bad = []
    for ctx, out in rets:
        def S(v):
            return it.settle(v) if isinstance(v, View) else v
        r = S(out[1])
        if not isinstance(r, Obj) or r.lazy or r is box['old']:
            bad.append('the result is not an object allocated by this call'); continue
        if S(r.fields.get('ty')) is not box['ty']:
            bad.append('the new object does not get the requested type')
        il = S(r.fields.get('is_local'))
        if not (isinstance(il, (int, bool)) and int(il) != 0):
            bad.append('the new object is not marked is_local: it would be addressed as a global')
        if S(ctx.globals.get('locals')) is not r or S(r.fields.get('next')) is not box['old']:
            bad.append('the new object is not pushed on the list of locals: assign_lvar_offsets never gives it a home, it stays at offset 0 and shares its bytes with every other such object')
    rep.ob(rule, key, not bad, 'new_lvar(): %s' % '; '.join(sorted(set(bad))), where=where)


# ------------------------------------------------------------------------------------------------
# frame homes of hidden objects that look alike (same empty name, same Type object) are still disjoint
# ------------------------------------------------------------------------------------------------
def r_frame_twins(cg, P, rep, rule):
    from .interp import Obj, View
    from .lib_abi import Builder
    fnn = 'assign_lvar_offsets'
    U = 'codegen.c'
    if cg.cu.fn(fnn) is None:
        rep.undecided(rule, '%s:%s' % (U, fnn), 'assign_lvar_offsets vanished'); return
    where = '%s:%d' % (U, cg.cu.fn(fnn).line)
    B = Builder(P)
    for tag, size, align, kname in (('struct-12', 12, 4, 'TY_STRUCT'), ('struct-40', 40, 8, 'TY_STRUCT'), ('union-8', 8, 8, 'TY_UNION')):
        key = '%s:%s:hidden-objects-of-one-type-get-disjoint-homes/%s' % (U, fnn, tag)
        it = cg.interp()
        it.rec_limit = 64
        it.global_init['depth'] = 0
        it.global_init['current_fn'] = 0
        box = {}

        def build(ctx, size=size, align=align, kname=kname):
            it.ctx = ctx
            t = Obj('Type', lazy=False, label='sty')
            t.fields.update({'kind': B.E[kname], 'size': size, 'align': align, 'base': 0, 'array_len': 0, 'is_unsigned': 0})
            ab = Obj('Obj', lazy=False, label='alloca_bottom')
            ab.fields.update({'ty': B.ty(it, 'ptr'), 'align': 8, 'is_local': 1, 'name': '__alloca_size__'})
            chain = [ab]
            twins = []
            # the parser names the hidden object of every site "" and gives the objects of one struct type the same Type object
            for j, nm in enumerate(('', '', 'x', '')):
                v = Obj('Obj', lazy=False, label='hidden%d' % j)
                v.fields.update({'ty': t, 'align': align, 'is_local': 1, 'name': nm})
                twins.append(v); chain.append(v)
            for a, b in zip(chain, chain[1:]):
                a.fields['next'] = b
            chain[-1].fields['next'] = 0
            fty = Obj('Type', lazy=False, label='fty')
            fty.fields.update({'kind': B.E['TY_FUNC'], 'return_ty': B.ty(it, 'int'), 'is_variadic': 0, 'params': 0})
            fn = Obj('Obj', lazy=False, label='fn')
            fn.fields.update({'is_function': 1, 'is_definition': 1, 'is_live': 1, 'name': 'f', 'ty': fty, 'params': 0, 'locals': chain[0],
                              'alloca_bottom': ab, 'va_area': 0, 'next': 0})
            box.update(fn=fn, twins=twins, ab=ab)
            return fn
        try:
            res = list(it.explore(fnn, lambda ctx: [build(ctx)]))
        except AnalysisBroken as e:
            rep.undecided(rule, key, 'not interpretable: %s' % e, where=where); continue
        except Exception as e:
            rep.undecided(rule, key, 'not interpretable: %s' % e, where=where); continue
        rets = [(c, o) for c, o in res if o[0] == 'ret']
        if len(rets) != 1:
            rep.undecided(rule, key, '%d returning paths on a concrete function' % len(rets), where=where); continue
        homes = []
        msg = ''
        for v in box['twins'] + [box['ab']]:
            off = v.fields.get('offset')
            sz = size if v is not box['ab'] else 8
            if not isinstance(off, int):
                msg = 'the offset of %s is %r' % (v.label, off); break
            homes.append((off, off + sz, v.label))
        ss = box['fn'].fields.get('stack_size')
        if not msg:
            homes.sort()
            for a, b in zip(homes, homes[1:]):
                if a[1] > b[0]:
                    msg = '%s [%d,%d) and %s [%d,%d) overlap' % (a[2], a[0], a[1], b[2], b[0], b[1])
            if not msg and (not isinstance(ss, int) or homes[0][0] < -ss or homes[-1][1] > 0):
                msg = 'homes %r are not inside the frame of %r bytes' % (homes, ss)
        rep.ob(rule, key, not msg, 'four locals of one %d-byte type, three of them unnamed (the return buffers / temporaries of four sites): %s; each site needs its own bytes' % (size, msg),
               where=where, facts={'homes': homes, 'stack_size': ss})
