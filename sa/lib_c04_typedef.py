"""C04 R04.32: the extent of an object declared through a typedef name of a variable-length array type is the one the length expression had when the
typedef declaration was reached (C11 6.7.8p8), not when the object is declared: `int n = 3; typedef int T[n]; n = 10; T a;` declares 12 bytes.
parse_typedef() is evaluated on a declarator of VLA type whose length is a marked expression node; compute_vla_size() - what every later
declaration / sizeof evaluates to size the object - is then evaluated on the type the typedef name was bound to: the marked expression must not be
reachable in the tree it returns (it would be evaluated again, with the values the operands have then)."""
from .build import AnalysisBroken
from .interp import Obj, Interp, View, _Ref


def r_typedef_vla_extent(P, rep, rule):
    pu = P.unit('parse.c')
    for f in ('parse_typedef', 'compute_vla_size', 'declarator', 'push_scope'):
        if f not in pu.functions:
            rep.undecided(rule, 'parse.c:%s' % f, '%s vanished' % f); return
    E = pu.enums
    for k in ('TY_VLA', 'TY_INT', 'ND_VAR', 'ND_COMMA', 'ND_ASSIGN'):
        if k not in E:
            rep.undecided(rule, 'parse.c:%s' % k, 'enumerator %s vanished' % k); return
    where = 'parse.c:%d' % pu.fn('parse_typedef').line
    from .lib_types import Types
    T = Types(P)
    for depth, tag in ((1, 'vla'), (2, 'vla-of-vla')):
        key = 'parse.c:parse_typedef:length-evaluated-at-typedef/%s' % tag
        box = {}

        def h_consume(it, ctx, n, a):
            if len(a) >= 3 and a[2] == ';':
                ctx.c04_n = getattr(ctx, 'c04_n', 0) + 1
                r = 0 if ctx.c04_n == 1 else 1
                if r and isinstance(a[0], _Ref):
                    a[0].place.set(it, a[1])
                return r
            return 0

        def h_declarator(it, ctx, n, a, depth=depth):
            it.ctx = ctx
            base = T.make(it, 'int')
            lens = []
            for d in range(depth):
                L = Obj('Node', lazy=False, label='length-expression-%d' % d, fields={'kind': E['ND_VAR'], 'lhs': 0, 'rhs': 0, 'next': 0,
                                                                                        'var': Obj('Obj', lazy=True, label='n%d' % d)})
                L.fields['ty'] = base if d == 0 else 0
                t = Obj('Type', lazy=False, label='vla%d' % d)
                t.fields.update({'kind': E['TY_VLA'], 'size': 8, 'align': 8, 'base': base, 'vla_len': L, 'vla_size': 0, 'name': 0, 'name_pos': 0, 'is_unsigned': 0, 'origin': 0,
                                 'is_atomic': 0, 'array_len': 0, 'members': 0, 'next': 0})
                lens.append(L); base = t
            base.fields['name'] = Obj('Token', lazy=True, label='name'); base.fields['name_pos'] = base.fields['name']
            box['lens'] = lens
            if isinstance(a[0], _Ref):
                a[0].place.set(it, a[1])
            return base

        def h_push_scope(it, ctx, n, a):
            sc = Obj('VarScope', lazy=False, label='scope-entry', fields={'var': 0, 'type_def': 0, 'enum_ty': 0, 'enum_val': 0})
            box['sc'] = sc
            return sc
        m_new_lvar = lambda it_, ctx, n, a: Obj('Obj', lazy=False, label=ctx.fresh('tmp'), fields={'ty': a[1], 'name': a[0], 'is_local': 1})
        it = Interp(P, pu, {'cut': {'consume': h_consume, 'declarator': h_declarator, 'push_scope': h_push_scope, 'get_ident': lambda it_, ctx, n, a: 'T',
                                    'equal': lambda it_, ctx, n, a: 0},
                            'models': {'new_lvar': m_new_lvar}, 'opaque': ['skip', 'error_tok', 'new_unique_name'], 'rec_limit': 4, 'loop_limit': 2})
        try:
            args1 = lambda ctx: [Obj('Token', lazy=True, label='tok'), T.make(it, 'int')] + [Obj('Node', lazy=True, label='extra%d' % i) for i in range(max(0, len(pu.params('parse_typedef')) - 2))]

            def mk1(ctx):
                it.ctx = ctx
                return args1(ctx)
            res = [(c, o) for c, o in it.explore('parse_typedef', mk1) if o[0] == 'ret']
        except Exception as e:
            rep.undecided(rule, key, 'parse_typedef not interpretable: %s: %s' % (type(e).__name__, e), where=where); continue
        if len(res) != 1 or 'sc' not in box:
            rep.undecided(rule, key, 'parse_typedef: %d returning paths, typedef name %s' % (len(res), 'bound' if 'sc' in box else 'not bound'), where=where); continue
        it.ctx = res[0][0]
        reg = box['sc'].fields.get('type_def')
        reg = it.settle(reg) if isinstance(reg, View) else reg
        if not isinstance(reg, Obj):
            rep.undecided(rule, key, 'the type bound to the typedef name is not determined', where=where); continue
        it2 = Interp(P, pu, {'opaque': ['new_unique_name', 'error_tok'], 'rec_limit': 4, 'models': {'new_lvar': m_new_lvar}})
        try:
            outs = [o[1] for c, o in it2.explore('compute_vla_size', lambda ctx: [reg, Obj('Token', lazy=True, label='tok2')]) if o[0] == 'ret']
        except Exception as e:
            rep.undecided(rule, key, 'compute_vla_size not interpretable on the typedef\'d type: %s: %s' % (type(e).__name__, e), where=where); continue
        if len(outs) != 1:
            rep.undecided(rule, key, 'compute_vla_size: %d returning paths on the typedef\'d type' % len(outs), where=where); continue
        seen, hit, stack, nodes = set(), [], [outs[0]], 0
        while stack and nodes < 400:
            n = stack.pop()
            n = it2.settle(n) if isinstance(n, View) else n
            if not isinstance(n, Obj) or id(n) in seen:
                continue
            seen.add(id(n)); nodes += 1
            if any(n is L for L in box['lens']):
                hit.append(n.label); continue
            for f in ('lhs', 'rhs', 'cond', 'then', 'els', 'args', 'body', 'next'):
                if f in n.fields:
                    stack.append(n.fields[f])
        if nodes >= 400:
            rep.undecided(rule, key, 'the size computation tree is too large to walk', where=where); continue
        rep.ob(rule, key, not hit,
               'the size computation of an object declared through the typedef name evaluates the typedef\'s length expression (%s) again at the declaration: `int n = 3; typedef int T[n]; n = 10; T a;` '
               'allocates and reports 40 bytes for an object whose type was fixed at 12 when the typedef was reached (C11 6.7.8p8)' % ', '.join(sorted(hit)), where=where)
