"""Private helpers of sa/rules/c05.py: an Interp subclass that keeps the C type
of memory accesses through opaque pointers, of shift/mask operators and of
updates of local counters, plus small term utilities."""
from .interp import (Interp, Obj, Sym, Term, Lin, View, Cell, OpaquePlace, ElemPlace, VarPlace,
                     is_opaque, vkey, int_type, _Ref)

FLOAT_BITS = {'float': 32, 'double': 64, 'long double': 128}


def ctype_bits(t):
    """width in bits of a scalar C type as clang spells it (desugared), else None"""
    if not t:
        return None
    t = t.replace('const ', '').replace('volatile ', '').strip()
    it = int_type(t)
    if it:
        return 8 if it[0] == 1 else it[0]
    if t in FLOAT_BITS:
        return FLOAT_BITS[t]
    if t.endswith('*'):
        return 64
    return None


def node_reset_helpers(unit):
    """{function name: fields of its argument it clears} for the functions of the unit that provably do nothing but store 0/NULL into fields of the
    Initializer tree they are handed: `void f(Initializer *)`, every assignment stores a zero constant, no ++/--/compound assignment on anything but a
    local variable, no call except to itself"""
    cache = getattr(unit, '_c05_node_resets', None)
    if cache is not None:
        return cache
    out = {}
    for name, f in getattr(unit, 'functions', {}).items():
        try:
            params = [c for c in f.inner if c.kind == 'ParmVarDecl']
            if len(params) != 1 or (params[0].type or '').replace(' ', '') != 'Initializer*' or not (f.type or '').startswith('void ('):
                continue
            if not [c for c in f.inner if c.kind == 'CompoundStmt']:
                continue
            ok, fields, nasg = True, [], 0
            for n in f.walk():
                if n.kind == 'CallExpr' and n.callee() != name:
                    ok = False
                elif n.kind == 'CompoundAssignOperator':
                    ok = False
                elif n.kind == 'UnaryOperator' and n.opcode in ('++', '--'):
                    t = n.inner[0].strip()
                    if not (t.kind == 'DeclRefExpr' and t.ref_kind == 'VarDecl'):
                        ok = False
                elif n.kind == 'BinaryOperator' and n.opcode == '=':
                    l0 = n.inner[0].strip()
                    if l0.kind == 'DeclRefExpr' and l0.ref_kind == 'VarDecl' and l0.ref_name not in getattr(unit, 'globals', {}):
                        continue            # a local cursor (`mem = mem->next`)
                    nasg += 1
                    if n.inner[1].strip_all().int_value() != 0:
                        ok = False
                        break
                    l = n.inner[0].strip()
                    if l.kind == 'MemberExpr' and l.inner and l.inner[0].strip().kind == 'DeclRefExpr' and l.inner[0].strip().ref_name == params[0].name:
                        fields.append(l.name)
                if not ok:
                    break
            if ok and nasg:
                out[name] = fields
        except Exception:
            continue
    try:
        unit._c05_node_resets = out
    except Exception:
        pass
    return out


def _reset_model(name, fields):
    def f(it, ctx, n, a):
        o = it.settle(a[0]) if a and isinstance(a[0], View) else (a[0] if a else None)
        if isinstance(o, Obj):
            for fl in fields:
                o.fields[fl] = 0
        ctx.emit('node-reset', name, a, n.line)
        return None
    return f


class TInterp(Interp):
    """Interp that remembers C types where the rules of C05 need them:
       * `*p` / `p[i]` through an opaque pointer -> place described by Term('mem', address, ctype)
         resp. Term('elem', base, index, ctype): loads are Term('load', <that>), stores are
         ('store', <that>, value, line) events;
       * results of << >> & | that stay symbolic are reported as ('binop', op, ctype, line, lhs, rhs) events;
       * x += k, x++ ... on a local variable are reported as ('upd', name, old, new, line) events."""

    def __init__(self, program, unit, cfg=None):
        cfg = dict(cfg or {})
        # `for (;;) { if (end) break; ... }` is the same loop as `while (!end) { ... }`: bound it like one (the engine default of 64
        # iterations, each forking on an opaque condition, does not terminate)
        cfg.setdefault('forever_limit', cfg.get('loop_limit', 1) + 1)
        if not cfg.get('native_node_resets'):
            # helpers that do nothing but clear fields of an Initializer tree (effect summary decided by node_reset_helpers) are not walked over
            # the lazy trees of the cursor / separator / string worlds: their effect on the node handed in is applied, the descendants stay lazy
            models = dict(cfg.get('models') or {})
            for name, fields in node_reset_helpers(unit).items():
                if name not in models and name not in (cfg.get('cut') or {}) and name not in (cfg.get('opaque') or ()):
                    models[name] = _reset_model(name, fields)
            cfg['models'] = models
        Interp.__init__(self, program, unit, cfg)

    def place(self, n, env):
        p = Interp.place(self, n, env)
        m = n.strip() if n.kind == 'ParenExpr' else n
        while m.kind == 'ParenExpr' and m.inner:
            m = m.inner[0]
        if isinstance(p, OpaquePlace):
            t = m.dtype or m.type
            d = p.desc
            if m.kind == 'UnaryOperator' and m.opcode == '*' and isinstance(d, Term) and d.op == '*':
                return OpaquePlace(Term('mem', d.args[0], t))
        if isinstance(p, ElemPlace) and m.kind == 'ArraySubscriptExpr' and is_opaque(p.arr):
            return OpaquePlace(Term('elem', p.arr, p.i, m.dtype or m.type))
        return p

    def binop(self, op, a, b, n):
        r = Interp.binop(self, op, a, b, n)
        if op in ('<<', '>>', '&', '|') and isinstance(r, Term):
            self.ctx.emit('binop', op, n.dtype or n.type, n.line, r)
        return r

    def e_CompoundAssignOperator(self, n, env):
        tgt = n.inner[0].strip()
        old = None
        if tgt.kind == 'DeclRefExpr':
            try:
                old = self.load(n.inner[0], env)
            except Exception:
                old = None
        new = Interp.e_CompoundAssignOperator(self, n, env)
        if tgt.kind == 'DeclRefExpr':
            self.ctx.emit('upd', tgt.ref_name, old, new, n.line)
        return new

    def e_UnaryOperator(self, n, env):
        if n.opcode in ('++', '--'):
            tgt = n.inner[0].strip()
            r = Interp.e_UnaryOperator(self, n, env)
            if tgt.kind == 'DeclRefExpr':
                new = self.load(n.inner[0], env)
                d = 1 if n.opcode == '++' else -1
                old = r if n.d.get('isPostfix') else self.arith('-', new, d, n.dtype or n.type)
                self.ctx.emit('upd', tgt.ref_name, old, new, n.line)
            return r
        return Interp.e_UnaryOperator(self, n, env)


class NullInterp(TInterp):
    """TInterp that records dereferences of a pointer that is the concrete NULL on the path (`p->f` / `*p` with p == 0):
    self.null_derefs = [(line, rendering of the expression, trail of the path)]; the path itself is dropped as usual"""

    def __init__(self, *a, **k):
        TInterp.__init__(self, *a, **k)
        self.null_derefs = []

    def deref_target(self, b, n):
        v = self.settle(b) if isinstance(b, View) else b
        if isinstance(v, int) and not isinstance(v, bool) and v == 0:
            try:
                src = n.src()
            except Exception:
                src = '?'
            self.null_derefs.append((n.line, src, list(self.ctx.trail)))
        return TInterp.deref_target(self, b, n)


# ------------------------------------------------------------------ terms ---
def settle(it, v):
    return it.settle(v) if isinstance(v, View) else v


def lin_eq(a, b):
    """are two integer values equal as linear terms?"""
    la, lb = Lin.of(a), Lin.of(b)
    if la is None or lb is None:
        return a is b
    d = la.add(lb, -1) if isinstance(la, Lin) and isinstance(lb, Lin) else None
    return isinstance(d, int) and d == 0


def lsum(*vs):
    """sum of integer values as a normalised linear term (int, leaf or Lin); None if one is not linear"""
    acc = Lin(0)
    for v in vs:
        l = Lin.of(v)
        if l is None:
            return None
        r = acc.add(l)
        acc = Lin.of(r)
    return acc.simp()


def lscale(v, k):
    l = Lin.of(v)
    if l is None:
        return None
    return l.scale(k)


def lin_diff(a, b):
    la, lb = Lin.of(a), Lin.of(b)
    if la is None or lb is None:
        return None
    return la.add(lb, -1)


def field(o, f):
    """already materialised field of an abstract object (no side effect), settled"""
    if not isinstance(o, Obj):
        return None
    v = o.fields.get(f)
    while isinstance(v, View) and len(v.cell.cands) == 1:
        v = v.proj(v.cell.cands[0])
    return v


def is_null(v):
    return isinstance(v, int) and not isinstance(v, bool) and v == 0


def strip_cast(v):
    """drop narrowing-cast wrappers the interpreter puts around stored values; returns (value, cast type or None)"""
    t = None
    while isinstance(v, Term) and v.op.startswith('cast:'):
        t = t or v.op[5:]
        v = v.args[0]
    return v, t


def show(v):
    try:
        return repr(v)
    except Exception:
        return '<?>'


def children_hook(label='init'):
    """lazy_field hook: `Initializer.children` is an array object so that children[i] are
    distinct abstract Initializer objects keyed by the index value"""
    def hook(it, ctx, o, f, t):
        if o.tname == 'Initializer' and f == 'children':
            return Obj('Initializer', lazy=True, label=(o.label or label) + '.children')
        return NotImplemented
    return hook


def child_index(children, elem):
    """index value k such that elem is children[k] (ElemPlace naming of the interpreter)"""
    if not isinstance(children, Obj) or not isinstance(elem, Obj):
        return None
    if elem is children:
        return 0
    for k, v in children.meta.items():
        if isinstance(k, tuple) and k and k[0] == 'elem' and v is elem:
            return k[1]
    return None


def show_key(k):
    """readable form of a vkey() of an index value"""
    if isinstance(k, int):
        return str(k)
    if isinstance(k, tuple) and k and k[0] == 'sym':
        return str(k[1]).split('#')[0]
    if isinstance(k, tuple) and k and k[0] == 'lin':
        parts = []
        for leaf, coef in k[2:]:
            parts.append(('' if coef == 1 else '%d*' % coef) + show_key(leaf))
        if k[1]:
            parts.append(str(k[1]))
        return '+'.join(parts)
    if isinstance(k, tuple) and k and k[0] == 'term':
        return '%s(%s)' % (k[1], ', '.join(show_key(x) for x in k[2:]))
    return str(k)


# ------------------------------------------------- equalities that follow from the comparisons of a path ---
def _lin_of_key(k):
    """(const, {leafkey: coef}) of a vkey() of an integer value, or None"""
    if isinstance(k, bool):
        return (int(k), {})
    if isinstance(k, int):
        return (k, {})
    if isinstance(k, tuple) and k and k[0] == 'lin':
        return (k[1], {lk: c for lk, c in k[2:]})
    if isinstance(k, tuple) and k and k[0] in ('sym', 'term'):
        return (0, {k: 1})
    return None


def _diff_interval(ctx, kx, ky):
    """interval of (x - y) implied by the comparison facts of the path (difference constraints only)"""
    INF = 1 << 70
    lo, hi = -INF, INF
    for k, truth in ctx.facts.items():
        if not (isinstance(k, tuple) and len(k) == 4 and k[0] == 'term'):
            continue
        op = str(k[1]).split(':')[0]
        if op not in ('<', '<=', '>', '>=', '==', '!='):
            continue
        L, R = _lin_of_key(k[2]), _lin_of_key(k[3])
        if L is None or R is None:
            continue
        c0 = L[0] - R[0]
        co = dict(L[1])
        for lk, c in R[1].items():
            co[lk] = co.get(lk, 0) - c
        co = {lk: c for lk, c in co.items() if c}
        if set(co) != {kx, ky} or co[kx] != -co[ky] or abs(co[kx]) != 1:
            continue
        if not truth:
            op = {'<': '>=', '<=': '>', '>': '<=', '>=': '<', '==': '!=', '!=': '=='}[op]
        # a*(x-y) + c0 op 0
        if co[kx] == -1:
            op = {'<': '>', '<=': '>=', '>': '<', '>=': '<=', '==': '==', '!=': '!='}[op]
            c0 = -c0
        # now (x-y) + c0 op 0  ->  (x-y) op -c0
        b = -c0
        if op == '<':
            hi = min(hi, b - 1)
        elif op == '<=':
            hi = min(hi, b)
        elif op == '>':
            lo = max(lo, b + 1)
        elif op == '>=':
            lo = max(lo, b)
        elif op == '==':
            lo = max(lo, b); hi = min(hi, b)
    return lo, hi


def eq_on_path(ctx, a, b):
    """a == b, syntactically as linear terms or as a consequence of the path's comparisons"""
    if lin_eq(a, b):
        return True
    d = lin_diff(a, b)
    d = Lin.of(d) if d is not None else None
    if not isinstance(d, Lin):
        return False
    items = list(d.terms.items())
    if len(items) == 1:
        (k, (c, leaf)), = items
        bd = ctx.bounds.get(k)
        return bool(bd) and bd[0] == bd[1] and c * bd[0] + d.c == 0
    if len(items) == 2:
        (k1, (c1, _)), (k2, (c2, _)) = items
        if c1 == -c2 and abs(c1) == 1:
            lo, hi = _diff_interval(ctx, k1, k2)
            return lo == hi and c1 * lo + d.c == 0
    return False
