"""Private helper of sa/rules/c05.py: R05.20, the precision in which the constant evaluator folds a floating initializer.

The static back end stores the value eval_double() returns; the automatic back end lets the generated code compute the same
expression at run time in the type of each node.  Both agree only if eval_double yields, for a node of type T, a value that has
not passed through a type of lower precision than T (or through an integer type) on its way from the operands / the literal."""
from .interp import Obj, Sym, Term, Lin, View, Cell, int_type
from .build import AnalysisBroken
from .lib_c05 import TInterp, show

RANK = {'float': 1, 'double': 2, 'long double': 3}
KINDS = (('TY_DOUBLE', 'double'), ('TY_LDOUBLE', 'long double'))


def casts_in(v, out=None, depth=0):
    """C types of every conversion nested anywhere in an abstract value"""
    if out is None:
        out = []
    if depth > 40:
        return out
    if isinstance(v, Term):
        if v.op.startswith('cast:'):
            out.append(v.op[5:].replace('const ', '').replace('volatile ', '').strip())
        for a in v.args:
            casts_in(a, out, depth + 1)
    elif isinstance(v, Lin):
        for c, leaf in v.terms.values():
            casts_in(leaf, out, depth + 1)
    return out


def lossy_for(ctype, casts):
    r = RANK[ctype]
    bad = []
    for t in casts:
        if t in RANK:
            if RANK[t] < r:
                bad.append(t)
        elif int_type(t) is not None:
            bad.append(t)
    return bad


def r_fold_precision(P, u, E, rep, U='parse.c'):
    fn = 'eval_double'
    rep.rule('R05.20', 'a floating constant initializer is folded in the precision of its type: for a node of type long double (double) eval_double returns a value that has not passed '
             'through a floating type of lower precision or an integer type (the operands come from recursive evaluations, the literal from Node.fval), and the carriers of the value '
             '(return type of eval_double, Node.fval, Token.fval) are long double: a static `long double x = 0.1L;` keeps its 64 mantissa bits like the automatic one', floor=12)
    f = u.fn(fn)
    if f is None:
        raise AnalysisBroken('anchor function eval_double vanished')
    where = '%s:%d' % (U, f.line)
    # carriers
    rt = (f.type or '').split('(')[0].strip()
    rep.ob('R05.20', '%s:%s:return-type-is-long-double' % (U, fn), rt == 'long double',
           'eval_double returns `%s`: every folded long double initializer is rounded to that type before the static back end stores it' % rt, where=where)
    for rec in ('Node', 'Token'):
        ft = [t for (n, t, _b) in u.records.get(rec, []) if n == 'fval']
        if not ft:
            rep.undecided('R05.20', '%s:%s:fval-carrier' % (U, rec), 'record %s has no field fval: the carrier of a floating literal is not recognised' % rec)
            continue
        rep.ob('R05.20', '%s:%s:fval-is-long-double' % (U, rec), ft[0].replace('const ', '').strip() == 'long double',
               '%s.fval has type `%s`: a long double literal (`0.1L`) loses its low mantissa bits before any initializer is evaluated' % (rec, ft[0]), where='chibicc.h')
    kname = {}
    for nm in u.enum_types.get('NodeKind', []):
        kname.setdefault(E[nm], nm)

    def h_rec(it, ctx, n, args):
        r = Sym(ctx.fresh('operand'), 'long double')
        ctx.emit('rec', args, r, n.line)
        return r
    for tk, ctype in KINDS:
        if tk not in E:
            raise AnalysisBroken('enumerator %s vanished' % tk)
        it = TInterp(P, u, {'cut': {fn: h_rec}, 'opaque': ['eval', 'eval2', 'add_type', 'error_tok'], 'track_stores': True})

        def mk(ctx, tk=tk):
            node = Obj('Node', lazy=True, label='node')
            ty = Obj('Type', lazy=True, label='node.ty')
            ty.fields['kind'] = E[tk]
            node.fields['ty'] = ty
            ctx.node = node
            return [node]
        n = 0
        for ctx, out in it.explore(fn, mk):
            if out[0] != 'ret':
                continue
            k = ctx.node.fields.get('kind')
            k = it.settle(k) if isinstance(k, View) else k
            nm = kname.get(k) if isinstance(k, int) else None
            if nm is None:
                nm = 'any-kind'
            n += 1
            bad = lossy_for(ctype, casts_in(out[1]))
            key = '%s:%s:%s/%s' % (U, fn, nm, ctype.replace(' ', '-'))
            rep.ob('R05.20', key + ('/folded-in-its-own-precision' if not bad else '/rounded-through-' + bad[0].replace(' ', '-')), not bad,
                   'the value eval_double returns for a %s node of type `%s` is %s: it passes through a conversion to `%s`, so a static object initialised by such an expression '
                   '(`static long double x = 0.1L;`, `1.0L / 3`) receives a value rounded to fewer mantissa bits than the automatic object computed at run time'
                   % (nm, ctype, show(out[1]), bad[0] if bad else ''), where=where, facts={'path': ctx.trail[-8:]})
        if n == 0:
            rep.undecided('R05.20', '%s:%s:%s' % (U, fn, ctype.replace(' ', '-')), 'no returning path of eval_double for a node of type %s' % ctype)
