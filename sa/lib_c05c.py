"""R05.21 (C11 6.7.9p19/p21): an initializer that initialises a sub-object AS A WHOLE -- a braced list for an array, struct or union, a string
literal for a character array -- leaves nothing of an EARLIER initializer of that sub-object in any descendant it does not itself initialise:
`{[0].a = 1, [0] = {.b = 2}}` gives a == 0.  Decided on small concrete worlds (a struct {int; int[2]}, an array int[2][2]... of Initializer nodes whose
every descendant carries the expression / member selection of an earlier initializer) by interpreting initializer2 over a concrete token list; whatever
way the parser resets the nodes (a recursive reset, a fresh new_initializer) is interpreted, not matched."""
from .build import AnalysisBroken
from .interp import Obj, Arr, View, _Ref, NoReturn, Unsupported
from .lib_c05 import TInterp, settle

U = 'parse.c'


def _types(E):
    def ty(label, kind, **f):
        o = Obj('Type', lazy=True, label=label)
        o.fields['kind'] = E[kind]
        o.fields.update(f)
        return o

    def member(label, t, idx, offset):
        m = Obj('Member', lazy=True, label=label)
        m.fields.update(ty=t, idx=idx, offset=offset, is_bitfield=0, next=0, name=Obj('Token', lazy=True, label=label + '.name'))
        return m
    tint = ty('int', 'TY_INT', size=4, align=4, is_unsigned=0, base=0, members=0, array_len=0, is_flexible=0)
    tchar = ty('char', 'TY_CHAR', size=1, align=1, is_unsigned=0, base=0, members=0, array_len=0, is_flexible=0)
    tarr = ty('int[2]', 'TY_ARRAY', size=8, align=4, base=tint, array_len=2, members=0, is_flexible=0)
    tstr = ty('char[4]', 'TY_ARRAY', size=4, align=1, base=tchar, array_len=4, members=0, is_flexible=0)
    tlit = ty('char[2]', 'TY_ARRAY', size=2, align=1, base=tchar, array_len=2, members=0, is_flexible=0)
    out = {'int': tint, 'int[2]': tarr, 'char[4]': tstr, 'lit': tlit}
    for k, name in (('TY_STRUCT', 'struct'), ('TY_UNION', 'union')):
        m0 = member(name + '.a', tint, 0, 0)
        m1 = member(name + '.b', tarr, 1, 4 if k == 'TY_STRUCT' else 0)
        m0.fields['next'] = m1
        out[name] = ty(name + ' {int a; int b[2];}', k, size=12 if k == 'TY_STRUCT' else 8, align=4, members=m0, base=0, array_len=0, is_flexible=0)
    out['struct[2]'] = ty('struct[2]', 'TY_ARRAY', size=24, align=4, base=out['struct'], array_len=2, members=0, is_flexible=0)
    out['wrap'] = ty('struct {union u;}', 'TY_STRUCT', size=8, align=4, base=0, array_len=0, is_flexible=0, members=member('wrap.u', out['union'], 0, 0))
    return out


def _init_tree(E, t, stale_expr, stale_mem, label, nodes):
    o = Obj('Initializer', lazy=True, label=label)
    o.fields.update(ty=t, is_flexible=0, expr=stale_expr, mem=0, tok=0, children=0, next=0)
    k = t.fields['kind']
    kids = []
    if k == E['TY_ARRAY']:
        kids = [_init_tree(E, t.fields['base'], stale_expr, stale_mem, '%s[%d]' % (label, i), nodes) for i in range(t.fields['array_len'])]
    elif k in (E['TY_STRUCT'], E['TY_UNION']):
        m = t.fields['members']
        while isinstance(m, Obj):
            kids.append(_init_tree(E, m.fields['ty'], stale_expr, stale_mem, '%s.%s' % (label, m.label.split('.')[-1]), nodes))
            m = m.fields['next']
        if k == E['TY_UNION']:
            o.fields['mem'] = stale_mem
    if kids:
        o.fields['children'] = Arr(kids, label + '.children')
    nodes.append(o)
    return o


def _tokens(E, texts, lit_ty):
    toks = []
    for x in texts:
        t = Obj('Token', lazy=True, label='tok(%s)' % (x or 'EOF'))
        if x == '"s"':
            t.fields.update(kind=E['TK_STR'], ty=lit_ty, str='a\0')
        else:
            t.fields['kind'] = E['TK_EOF'] if x == '' else (E['TK_NUM'] if x == 'v' else E['TK_PUNCT'])
        t.meta['text'] = x
        toks.append(t)
    for a, b in zip(toks, toks[1:]):
        a.fields['next'] = b
    toks[-1].fields['next'] = toks[-1]
    return toks


def _interp(P, u, E):
    def tk(it, v):
        v = settle(it, v)
        if not isinstance(v, Obj) or 'text' not in v.meta:
            raise Unsupported('token outside the concrete token list')
        return v

    def m_equal(it, ctx, n, a):
        return 1 if tk(it, a[0]).meta['text'] == a[1] else 0

    def m_skip(it, ctx, n, a):
        T = tk(it, a[0])
        if T.meta['text'] != a[1]:
            raise NoReturn('error_tok', [T, "expected '%s'" % a[1]], n.line)
        return T.fields['next']

    def m_consume(it, ctx, n, a):
        T = tk(it, a[1])
        hit = T.meta['text'] == a[2]
        if isinstance(a[0], _Ref):
            a[0].place.set(it, T.fields['next'] if hit else T)
        return 1 if hit else 0

    def m_assign(it, ctx, n, a):
        T = tk(it, a[1])
        if T.meta['text'] != 'v':
            raise NoReturn('error_tok', [T, 'expected an expression'], n.line)
        if isinstance(a[0], _Ref):
            a[0].place.set(it, T.fields['next'])
        node = Obj('Node', lazy=True, label=ctx.fresh('expr-parsed-now'))
        node.fields['ty'] = ctx.world['int']
        ctx.emit('assign', node, n.line)
        return node

    def m_new_num(it, ctx, n, a):
        return Obj('Node', lazy=True, label=ctx.fresh('char-of-the-literal'))
    return TInterp(P, u, {'models': {'equal': m_equal, 'skip': m_skip, 'consume': m_consume, 'assign': m_assign, 'new_num': m_new_num, 'new_ulong': m_new_num,
                                     'new_long': m_new_num},
                          'opaque': ['add_type'], 'loop_limit': 8, 'rec_limit': 8, 'native_node_resets': True, 'track_stores': True})


# (form, root type, path from the outer node to the sub-object initialised as a whole, token list)
FORMS = [
    ('empty-braced-list', 'struct', ['{', '}', '']),
    ('braced-list', 'struct', ['{', 'v', '}', '']),
    ('empty-braced-list', 'int[2]', ['{', '}', '']),
    ('braced-list', 'int[2]', ['{', 'v', '}', '']),
    ('braced-list', 'union', ['{', 'v', '}', '']),
    ('string-literal', 'char[4]', ['"s"', ',', '']),
    ('braced-string-literal', 'char[4]', ['{', '"s"', '}', '']),
]


def r0521(P, u, E, rep):
    rep.rule('R05.21', 'an initializer that initialises a sub-object as a whole (braced list for an array, struct or union; string literal for a character array) leaves no '
             'expression or union-member selection of an EARLIER initializer in any descendant of the node (C11 6.7.9p19, p21: what the list does not initialise is zero)', floor=6)
    for k in ('TY_INT', 'TY_CHAR', 'TY_ARRAY', 'TY_STRUCT', 'TY_UNION', 'TK_STR', 'TK_EOF', 'TK_NUM', 'TK_PUNCT'):
        if k not in E:
            raise AnalysisBroken('enumerator %s vanished' % k)
    fn = 'initializer2'
    if fn not in u.functions:
        raise AnalysisBroken('anchor initializer2 vanished')
    where = '%s:%d' % (U, u.functions[fn].line)
    for form, root, texts in FORMS:
        key = '%s:%s:whole-sub-object/%s-for-%s' % (U, fn, form, root.replace('[', '-').replace(']', ''))
        it = _interp(P, u, E)
        st = {}

        def mk(ctx, root=root, texts=texts, st=st):
            W = _types(E)
            ctx.world = W
            st['nodes'] = []
            st['stale_expr'] = Obj('Node', lazy=True, label='expr-of-the-earlier-initializer')
            st['stale_mem'] = Obj('Member', lazy=True, label='member-selected-by-the-earlier-initializer')
            st['root'] = _init_tree(E, W[root], st['stale_expr'], st['stale_mem'], 'init', st['nodes'])
            ctx.slot_obj = Obj('Token', lazy=True, label='rest')
            toks = _tokens(E, texts, W['lit'])
            from .rules.c05 import _Slot
            ctx.slot = _Slot()
            return [_Ref(ctx.slot), toks[0], st['root']]
        try:
            res = it.explore(fn, mk)
        except (Unsupported, AnalysisBroken) as e:
            rep.undecided('R05.21', key, 'initializer2 over the concrete %s world is not interpretable: %s' % (root, e), where=where)
            continue
        rets = [(ctx, out) for ctx, out in res if out[0] == 'ret']
        if len(rets) != 1:
            rep.undecided('R05.21', key, 'expected exactly one accepting path for the tokens %s, got %d (%s)' % (
                ' '.join(t or 'EOF' for t in texts), len(rets), '; '.join(str(out[:2]) for ctx, out in res)[:200]), where=where)
            continue
        ctx, out = rets[0]
        bad = []
        # the nodes of the tree as it is NOW (a fresh tree installed by `*init = *new_initializer(..)` has no stale state by construction)
        seen, todo = set(), [(st['root'], 'init')]
        while todo:
            o, path = todo.pop()
            if not isinstance(o, Obj) or id(o) in seen:
                continue
            seen.add(id(o))
            if o is not st['root']:
                if settle(it, o.fields.get('expr')) is st['stale_expr']:
                    bad.append(path + '->expr')
                if settle(it, o.fields.get('mem')) is st['stale_mem']:
                    bad.append(path + '->mem')
            ch = o.fields.get('children')
            if isinstance(ch, Arr):
                for i, c in enumerate(ch.elems):
                    todo.append((settle(it, c), '%s->children[%d]' % (path, i)))
        bad.sort()
        rep.ob('R05.21', key + ('/earlier-state-survives-in-descendants' if bad else '/descendants-hold-only-this-initializer'), not bad,
               'after a %s has been parsed for a sub-object of type %s that an earlier initializer had already touched, %d descendant field(s) still hold the EARLIER initializer '
               '(%s%s): with `{[0].a = 1, [0] = {.b = 2}}` (or `.s[2] = \'x\', .s = "a"`) both back ends emit the earlier value where C11 6.7.9p19/p21 require zero'
               % (form.replace('-', ' '), root, len(bad), ', '.join(bad[:4]), ', ...' if len(bad) > 4 else ''), where=where, facts={'tokens': ' '.join(texts), 'stale': bad})


# ------------------------------------------------------------------------------------------------
# R05.22 (C11 6.7.9p17, p19): inside the braced list of a union every designated initializer names a member of the union anew; the list is
# accepted and the member designated LAST is the one selected, initialised by the expression parsed for it.  Same concrete worlds.
# ------------------------------------------------------------------------------------------------
UNION_LISTS = [
    ('two-designators', ['{', '.', 'b', '=', '{', 'v', '}', ',', '.', 'a', '=', 'v', '}', ''], 'a'),
    ('two-designators-trailing-comma', ['{', '.', 'a', '=', 'v', ',', '.', 'b', '=', '{', 'v', '}', ',', '}', ''], 'b'),
    ('one-designator', ['{', '.', 'b', '=', '{', 'v', '}', '}', ''], 'b'),
    ('same-member-twice', ['{', '.', 'a', '=', 'v', ',', '.', 'a', '=', 'v', '}', ''], 'a'),
]


def r0522(P, u, E, rep):
    rep.rule('R05.22', 'the braced list of a union accepts any number of designated initializers; each names a member of the union anew and the member designated last is '
             'the selected one, holding the expression parsed for it (C11 6.7.9p17, p19)', floor=4)
    fn = 'initializer2'
    if fn not in u.functions or 'struct_designator' not in u.functions:
        raise AnalysisBroken('anchor initializer2 / struct_designator vanished')
    where = '%s:%d' % (U, u.functions['union_initializer'].line if 'union_initializer' in u.functions else u.functions[fn].line)
    for form, texts, last in UNION_LISTS:
        key = '%s:%s:union-list/%s' % (U, fn, form)
        it = _interp(P, u, E)

        def m_sdesig(it_, ctx, n, a):
            T = settle(it_, a[1])
            if not isinstance(T, Obj) or T.meta.get('text') != '.':
                raise Unsupported('struct_designator not entered at `.`')
            ident = T.fields['next']
            m = a[2].fields['members'] if isinstance(a[2], Obj) else 0
            while isinstance(m, Obj) and m.label.split('.')[-1] != ident.meta.get('text'):
                m = m.fields['next']
            if not isinstance(m, Obj):
                raise NoReturn('error_tok', [ident, 'struct has no such member'], n.line)
            if isinstance(a[0], _Ref):
                a[0].place.set(it_, ident.fields['next'])
            ctx.emit('sdesig', m, n.line)
            return m
        it.models['struct_designator'] = m_sdesig
        st = {}

        def mk(ctx, texts=texts, st=st):
            W = _types(E)
            ctx.world = W
            st['nodes'] = []
            st['stale_expr'] = Obj('Node', lazy=True, label='expr-of-the-earlier-initializer')
            st['stale_mem'] = Obj('Member', lazy=True, label='member-selected-by-the-earlier-initializer')
            st['root'] = _init_tree(E, W['union'], 0, 0, 'init', st['nodes'])
            st['W'] = W
            from .rules.c05 import _Slot
            ctx.slot = _Slot()
            return [_Ref(ctx.slot), _tokens(E, texts, W['lit'])[0], st['root']]
        try:
            res = it.explore(fn, mk)
        except (Unsupported, AnalysisBroken) as e:
            rep.undecided('R05.22', key, 'initializer2 over the concrete union world is not interpretable: %s' % e, where=where)
            continue
        rets = [(ctx, out) for ctx, out in res if out[0] == 'ret']
        errs = [(ctx, out) for ctx, out in res if out[0] == 'noreturn' and out[1] in ('error_tok', 'error_at', 'error')]
        spelled = ' '.join(t for t in texts if t)
        if not rets and len(errs) == 1 and len(res) == 1:
            msg = errs[0][1][2][1] if len(errs[0][1][2]) > 1 and isinstance(errs[0][1][2][1], str) else '?'
            rep.ob('R05.22', key + '/rejected', False, 'the valid union initializer `%s` is rejected ("%s"): a braced union list takes only one designated initializer, '
                   'a second designator (`union U g = {.a = 1, .b = 2};`, C11 6.7.9p17/p19: the last one wins) is a syntax error' % (spelled, msg), where=where, facts={'tokens': spelled})
            continue
        if len(rets) != 1 or len(res) != 1:
            rep.undecided('R05.22', key, 'expected exactly one path for the tokens %s, got %d (%d accepting)' % (spelled, len(res), len(rets)), where=where)
            continue
        ctx, out = rets[0]
        root = st['root']
        W = st['W']
        want = W['union'].fields['members']
        while isinstance(want, Obj) and want.label.split('.')[-1] != last:
            want = want.fields['next']
        asg = [e[1] for e in ctx.events if e[0] == 'assign']
        sel = settle(it, root.fields.get('mem'))
        ok, construct, msg = True, 'last-designator-selects', ''
        if sel is not want:
            ok = False; construct = 'last-designated-member-not-selected'
            msg = 'after `%s` the selected member of the union (init->mem) is %s, not the member designated last (.%s)' % (spelled, getattr(sel, 'label', sel), last)
        else:
            ch = root.fields['children'].elems[want.fields['idx']]
            leaf = ch
            while isinstance(leaf.fields.get('children'), Arr):
                leaf = settle(it, leaf.fields['children'].elems[0])
            if not asg or settle(it, leaf.fields.get('expr')) is not asg[-1]:
                ok = False; construct = 'last-designated-member-not-initialised'
                msg = 'after `%s` the member designated last (.%s) does not hold the expression parsed for it' % (spelled, last)
            elif settle(it, ctx.slot.v) is None or getattr(settle(it, ctx.slot.v), 'meta', {}).get('text') != '':
                ok = False; construct = 'cursor-not-behind-the-list'
                msg = 'after `%s` the token cursor is not behind the closing brace' % spelled
        rep.ob('R05.22', key + '/' + construct, ok, msg, where=where, facts={'tokens': spelled})
