"""Private helper of sa/rules/c07.py: a small path-splitting symbolic summariser
for the constant folder (parse.c eval2 / eval_double / is_const_expr) and for the
arms of codegen.c gen_expr that choose between signed and unsigned instructions.

Unlike Engine I (sa/interp.py) every host operation keeps the C type clang gave
it (the type in which a comparison / division / shift is carried out, and every
integral or floating conversion including the implicit ones), because the rules
of C07 are about exactly those: signedness and width of the host arithmetic.

A function is executed on symbolic arguments; `node->kind` is concrete (one run
per node kind), every other condition forks.  The result of a run is a list of
`Path(guards, events, outcome)`:
    guards   [(atom, bool)]   atom = symbolic value, in canonical form
    events   [('call', name, args) | ('store', lvalue, value)]
    outcome  ('ret', value) | ('noreturn', callee, args) | ('end',)

Values are hashable tuples:
    ('int', n) ('flt', x) ('str', s) ('sym', name) ('glob', name) ('fn', name)
    ('fld', base, field) ('idx', base, index) ('deref', a) ('addr', a)
    ('call', name, args) ('bin', op, a, b, T) ('un', op, a, T)
    ('cast', Tto, Tfrom, a) ('uninit',)
T = canonical C type: ('i', bits, signed) | ('b',) | ('f', bits) | ('p',) | ('o', spelling)
"""
from .build import AnalysisBroken
from .interp import int_type

NORETURN = frozenset(['error', 'error_at', 'error_tok', 'exit', '_exit', 'abort', '__assert_fail'])


class Unsupported(AnalysisBroken):
    """the summariser met a construct it does not model on a path it needs"""


class _NeedChoice(Exception):
    def __init__(self, n):
        self.n = n


class _Return(Exception):
    def __init__(self, v):
        self.v = v


class _Break(Exception):
    pass


class _NoReturn(Exception):
    def __init__(self, fn, args, line):
        self.fn = fn; self.args_ = args; self.line = line


class _Infeasible(Exception):
    pass


class Path:
    __slots__ = ('guards', 'events', 'outcome', 'lines', 'gpos')

    def __init__(self, guards, events, outcome, lines, gpos=None):
        self.guards = guards; self.events = events; self.outcome = outcome; self.lines = lines
        # gpos[i]: number of events that had happened when guards[i] was decided (program order of decisions relative to calls / stores)
        self.gpos = gpos if gpos is not None else []

    def guard_pos(self, atom):
        """number of events that preceded the decision on atom (None: not decided on this path)"""
        for i, (a, t) in enumerate(self.guards):
            if a == atom:
                return self.gpos[i] if i < len(self.gpos) else None
        return None

    def guard_of(self, atom):
        for a, t in self.guards:
            if a == atom:
                return t
        return None


# ------------------------------------------------------------------ types ---
def ctype(t):
    """canonical type of a clang (desugared) type spelling"""
    if t is None:
        return ('o', '?')
    t = t.replace('const ', '').replace('volatile ', '').strip()
    if t in ('_Bool', 'bool'):
        return ('b',)
    it = int_type(t)
    if it:
        return ('i', it[0], it[1])
    if t == 'float':
        return ('f', 32)
    if t == 'double':
        return ('f', 64)
    if t == 'long double':
        return ('f', 80)
    if t.endswith('*') or t.endswith(']') or '(*)' in t:
        return ('p',)
    if t.startswith('enum ') or t in ('NodeKind', 'TypeKind', 'TokenKind'):
        return ('i', 32, False)
    return ('o', t)


def tshow(T):
    if T[0] == 'i':
        return '%s%d' % ('i' if T[2] else 'u', T[1])
    if T[0] == 'b':
        return 'bool'
    if T[0] == 'f':
        return {32: 'float', 64: 'double', 80: 'long double'}.get(T[1], 'f%d' % T[1])
    if T[0] == 'p':
        return 'ptr'
    return T[1]


def show(v):
    k = v[0]
    if k == 'int':
        return str(v[1])
    if k == 'flt':
        return repr(v[1])
    if k == 'str':
        return '"%s"' % v[1]
    if k in ('sym', 'glob', 'fn'):
        return v[1]
    if k == 'fld':
        return '%s->%s' % (show(v[1]), v[2])
    if k == 'idx':
        return '%s[%s]' % (show(v[1]), show(v[2]))
    if k == 'deref':
        return '*%s' % show(v[1])
    if k == 'addr':
        return '&%s' % show(v[1])
    if k == 'call':
        return '%s(%s)' % (v[1], ', '.join(show(a) for a in v[2]))
    if k == 'bin':
        return '(%s %s %s)' % (show(v[2]), v[1], show(v[3]))
    if k == 'un':
        return '%s%s' % (v[1], show(v[2]))
    if k == 'cast':
        return '(%s)%s' % (tshow(v[1]), show(v[3]))
    if k == 'uninit':
        return '<uninit>'
    return repr(v)


def strip_casts(v):
    while v[0] == 'cast':
        v = v[3]
    return v


def strip_widening(v):
    """drop conversions that cannot change whether the value is zero"""
    while v[0] == 'cast':
        to, frm = v[1], v[2]
        if to[0] == 'b':
            v = v[3]; continue
        if to[0] == 'i' and frm[0] == 'i' and to[1] >= frm[1]:
            v = v[3]; continue
        if to[0] == 'i' and frm[0] == 'b':
            v = v[3]; continue
        if to[0] == 'f' and frm[0] in ('i', 'b'):
            v = v[3]; continue
        if to[0] == 'f' and frm[0] == 'f' and to[1] >= frm[1]:
            v = v[3]; continue
        break
    return v


def walk(v):
    """all sub-values"""
    st = [v]
    while st:
        x = st.pop()
        yield x
        if not isinstance(x, tuple):
            continue
        k = x[0]
        if k in ('fld', 'deref', 'addr'):
            st.append(x[1])
        elif k == 'idx':
            st.append(x[1]); st.append(x[2])
        elif k == 'call':
            st.extend(x[2])
        elif k == 'bin':
            st.append(x[2]); st.append(x[3])
        elif k == 'un':
            st.append(x[2])
        elif k == 'cast':
            st.append(x[3])


def wrap(v, T):
    if T[0] == 'b':
        return 1 if v else 0
    if T[0] != 'i' or not isinstance(v, int):
        return v
    bits, signed = T[1], T[2]
    v &= (1 << bits) - 1
    if signed and v >> (bits - 1):
        v -= 1 << bits
    return v


def cdiv(a, b):
    q = abs(a) // abs(b)
    return q if (a >= 0) == (b >= 0) else -q


# --------------------------------------------------------------- executor ---
class SymExec:
    def __init__(self, P, unit, opaque=(), inline=True, field_hook=None, noreturn=NORETURN, max_paths=3000, max_depth=6):
        self.P = P
        self.unit = unit
        self.opaque = set(opaque)
        self.inline = inline
        self.field_hook = field_hook      # hook(base, field) -> value | None
        self.noreturn = set(noreturn)
        self.max_paths = max_paths
        self.max_depth = max_depth

    # ---- driver ---------------------------------------------------------------
    def run(self, fname, args, unit=None):
        u = unit or self.unit
        fn = u.functions.get(fname)
        if fn is None:
            raise AnalysisBroken('function %s not found in %s' % (fname, u.name))
        out = []
        stack = [[]]
        while stack:
            dec = stack.pop()
            self.dec = dec; self.di = 0
            self.guards = []; self.events = []; self.lines = []; self.gpos = []
            self.eq = {}; self.ne = {}
            self.depth = 0
            self.cur_unit = u
            try:
                v = self.call_fn(u, fn, list(args))
                out.append(Path(self.guards, self.events, ('ret', v) if v is not None else ('end',), self.lines, self.gpos))
            except _NeedChoice as e:
                for a in range(e.n - 1, -1, -1):
                    stack.append(dec + [a])
            except _Infeasible:
                pass
            except _NoReturn as e:
                out.append(Path(self.guards, self.events, ('noreturn', e.fn, e.args_, e.line), self.lines, self.gpos))
            if len(out) + len(stack) > self.max_paths:
                raise Unsupported('path explosion in %s' % fname)
        return out

    def choose(self, n):
        if self.di < len(self.dec):
            d = self.dec[self.di]; self.di += 1
            return d
        raise _NeedChoice(n)

    # ---- functions --------------------------------------------------------------
    def call_fn(self, unit, fn, args):
        self.depth += 1
        if self.depth > self.max_depth:
            raise Unsupported('call depth exceeded at %s' % fn.name)
        env = {}
        params = [c for c in fn.inner if c.kind == 'ParmVarDecl']
        for i, p in enumerate(params):
            env[p.id] = args[i] if i < len(args) else ('sym', p.name or '?')
        body = [c for c in fn.inner if c.kind == 'CompoundStmt'][0]
        saved = self.cur_unit
        self.cur_unit = unit
        try:
            self.exec(body, env)
            rv = None
        except _Return as r:
            rv = r.v
        finally:
            self.cur_unit = saved
            self.depth -= 1
        return rv

    # ---- statements ---------------------------------------------------------------
    def exec(self, s, env):
        k = s.kind
        if k == 'CompoundStmt':
            for c in s.inner:
                self.exec(c, env)
        elif k == 'DeclStmt':
            for d in s.inner:
                if d.kind == 'VarDecl':
                    if d.d.get('storageClass') == 'static':
                        raise Unsupported('static local %s' % d.name)
                    init = None
                    if 'init' in d.d:
                        for c in d.inner:
                            if not c.kind.endswith('Attr'):
                                init = c
                    env[d.id] = self.eval(init, env) if init is not None else ('uninit',)
        elif k == 'IfStmt':
            kids = s.inner
            if self.truth(self.eval(kids[0], env)):
                self.exec(kids[1], env)
            elif len(kids) > 2:
                self.exec(kids[2], env)
        elif k == 'ReturnStmt':
            raise _Return(self.eval(s.inner[0], env) if s.inner else None)
        elif k == 'SwitchStmt':
            self.exec_switch(s, env)
        elif k == 'BreakStmt':
            raise _Break()
        elif k == 'NullStmt':
            pass
        elif k in ('CaseStmt', 'DefaultStmt', 'LabelStmt'):
            self.exec(s.inner[-1], env)
        elif k in ('ForStmt', 'WhileStmt', 'DoStmt', 'GotoStmt', 'IndirectGotoStmt', 'GCCAsmStmt', 'ContinueStmt'):
            raise Unsupported('statement %s at %s:%d' % (k, self.cur_unit.name, s.line))
        else:
            self.eval(s, env)

    def const_of(self, n):
        for x in n.walk():
            if x.kind == 'ConstantExpr' and x.value is not None:
                return int(x.value)
        v = n.int_value()
        if v is None:
            raise Unsupported('case label not constant at %s:%d' % (self.cur_unit.name, n.line))
        return v

    def exec_switch(self, s, env):
        cond = s.inner[0]
        body = s.inner[-1]
        if body.kind != 'CompoundStmt':
            raise Unsupported('switch body is not a block at %s:%d' % (self.cur_unit.name, s.line))
        arms = []      # (stmt index, [values], is_default)
        stmts = []
        for i, c in enumerate(body.inner):
            vals = []; is_def = False
            x = c
            while x.kind in ('CaseStmt', 'DefaultStmt'):
                if x.kind == 'CaseStmt':
                    lo = self.const_of(x.inner[0])
                    if len(x.inner) == 3:
                        vals.extend(range(lo, self.const_of(x.inner[1]) + 1))
                    else:
                        vals.append(lo)
                else:
                    is_def = True
                x = x.inner[-1]
            stmts.append(x)
            if vals or is_def:
                arms.append((i, vals, is_def))
        for x in stmts:
            for y in x.walk():
                if y.kind in ('CaseStmt', 'DefaultStmt') and y.enclosing('SwitchStmt') is s:
                    raise Unsupported('case label nested inside a statement at %s:%d' % (self.cur_unit.name, y.line))
        v = strip_widening(self.eval(cond, env))
        table = {}
        default = None
        for idx, vals, is_def in arms:
            for x in vals:
                table.setdefault(x, idx)
            if is_def:
                default = idx
        if v[0] == 'int':
            start = table.get(v[1], default)
        else:
            if v in self.eq:
                start = table.get(self.eq[v], default)
            else:
                opts = [(x, idx) for x, idx in sorted(table.items()) if x not in self.ne.get(v, ())]
                i = self.choose(len(opts) + 1)
                if i < len(opts):
                    x, start = opts[i]
                    self.learn_eq(v, x, True)
                else:
                    for x, _ in opts:
                        self.learn_eq(v, x, False)
                    start = default
        if start is None:
            return
        try:
            for c in stmts[start:]:
                self.exec(c, env)
        except _Break:
            pass

    # ---- facts ----------------------------------------------------------------------
    def learn_eq(self, v, c, truth):
        atom = ('bin', '==', v, ('int', c), ('i', 32, True))
        if truth:
            if v in self.eq and self.eq[v] != c or c in self.ne.get(v, ()):
                raise _Infeasible()
            self.eq[v] = c
        else:
            if self.eq.get(v) == c:
                raise _Infeasible()
            self.ne.setdefault(v, set()).add(c)
        self.guards.append((atom, truth)); self.gpos.append(len(self.events))

    def truth(self, v):
        v = strip_widening(v)
        k = v[0]
        if k == 'int':
            return v[1] != 0
        if k == 'flt':
            return v[1] != 0
        if k in ('str', 'fn', 'addr'):
            return True
        if k == 'un' and v[1] == '!':
            return not self.truth(v[2])
        if k == 'bin' and v[1] in ('==', '!='):
            a, b = strip_widening(v[2]), strip_widening(v[3])
            if a[0] == 'int' and b[0] != 'int':
                a, b = b, a
            if b[0] == 'int' and a[0] != 'int':
                c = b[1]
                if a in self.eq:
                    r = self.eq[a] == c
                    return r if v[1] == '==' else not r
                if c in self.ne.get(a, ()):
                    return v[1] == '!='
                if c == 0:
                    r = self.truth(a)
                    return (not r) if v[1] == '==' else r
                i = self.choose(2)
                self.learn_eq(a, c, i == 0)
                return (i == 0) if v[1] == '==' else (i != 0)
        for a, t in self.guards:
            if a == v:
                return t
        if v in self.eq:
            return self.eq[v] != 0
        i = self.choose(2)
        r = (i == 0)
        self.guards.append((v, r)); self.gpos.append(len(self.events))
        if not r:
            self.eq[v] = 0
        else:
            self.ne.setdefault(v, set()).add(0)
        return r

    # ---- expressions ------------------------------------------------------------------
    def eval(self, n, env):
        m = getattr(self, 'e_' + n.kind, None)
        if m is None:
            raise Unsupported('expression kind %s at %s:%d' % (n.kind, self.cur_unit.name, n.line))
        return m(n, env)

    def e_ParenExpr(self, n, env):
        return self.eval(n.inner[0], env)

    def e_ConstantExpr(self, n, env):
        return self.eval(n.inner[0], env)

    def e_IntegerLiteral(self, n, env):
        return ('int', int(n.value))

    def e_CharacterLiteral(self, n, env):
        return ('int', int(n.value))

    def e_FloatingLiteral(self, n, env):
        try:
            return ('flt', float(n.value))
        except (TypeError, ValueError):
            return ('sym', 'flt:' + str(n.value))

    def e_StringLiteral(self, n, env):
        from .cast import unquote
        return ('str', unquote(n.value))

    def e_PredefinedExpr(self, n, env):
        return ('str', '__func__')

    def e_UnaryExprOrTypeTraitExpr(self, n, env):
        return ('call', n.name or 'sizeof', (('str', n.src()),))

    def e_ImplicitCastExpr(self, n, env):
        return self.cast(n, env)

    def e_CStyleCastExpr(self, n, env):
        return self.cast(n, env)

    def cast(self, n, env):
        ck = n.cast_kind
        sub = n.inner[0]
        if ck in ('LValueToRValue', 'NoOp', 'ArrayToPointerDecay', 'BitCast', 'LValueBitCast'):
            return self.eval(sub, env)
        if ck == 'FunctionToPointerDecay':
            return ('fn', sub.strip().ref_name)
        if ck == 'NullToPointer':
            return ('int', 0)
        if ck == 'ToVoid':
            self.eval(sub, env)
            return ('int', 0)
        v = self.eval(sub, env)
        to, frm = ctype(n.dtype), ctype(sub.dtype)
        if ck in ('PointerToBoolean', 'IntegralToBoolean', 'FloatingToBoolean'):
            to = ('b',)
        if to == frm:
            return v
        if v[0] == 'int' and to[0] in ('i', 'b'):
            return ('int', wrap(v[1], to))
        if v[0] == 'int' and to[0] == 'f':
            return ('flt', float(v[1]))
        if v[0] == 'flt' and to[0] == 'f':
            return v
        if v[0] == 'flt' and to[0] == 'i':
            return ('int', wrap(int(v[1]), to))
        if to[0] == 'p' or frm[0] == 'p' and to[0] != 'b':
            return v
        return ('cast', to, frm, v)

    def e_DeclRefExpr(self, n, env):
        rk = n.ref_kind
        if rk == 'EnumConstantDecl':
            v = self.cur_unit.enum_value(n.ref_name)
            if v is None:
                raise Unsupported('enumerator %s' % n.ref_name)
            return ('int', v)
        if rk == 'FunctionDecl':
            return ('fn', n.ref_name)
        if n.ref_id in env:
            return env[n.ref_id]
        return ('glob', n.ref_name)

    def e_MemberExpr(self, n, env):
        base = self.eval(n.inner[0], env)
        if self.field_hook:
            v = self.field_hook(base, n.name)
            if v is not None:
                return v
        r = ('fld', base, n.name)
        for e in reversed(self.events):
            if e[0] == 'store' and e[1] == r:
                return e[2]          # a field written earlier on this path
        return r

    def e_ArraySubscriptExpr(self, n, env):
        return ('idx', self.eval(n.inner[0], env), self.eval(n.inner[1], env))

    def lvalue(self, n, env):
        n = n.strip() if n.kind in ('ParenExpr',) else n
        if n.kind == 'ParenExpr':
            return self.lvalue(n.inner[0], env)
        if n.kind == 'DeclRefExpr' and n.ref_id in env:
            return ('local', n.ref_id, n.ref_name)
        if n.kind == 'DeclRefExpr':
            return ('glob', n.ref_name)
        if n.kind == 'UnaryOperator' and n.opcode == '*':
            return ('deref', self.eval(n.inner[0], env))
        if n.kind in ('MemberExpr', 'ArraySubscriptExpr'):
            return self.eval(n, env)
        if n.kind in ('ImplicitCastExpr', 'CStyleCastExpr'):
            return self.lvalue(n.inner[0], env)
        raise Unsupported('lvalue %s at %s:%d' % (n.kind, self.cur_unit.name, n.line))

    def e_UnaryOperator(self, n, env):
        op = n.opcode
        sub = n.inner[0]
        T = ctype(n.dtype)
        if op == '&':
            lv = self.lvalue(sub, env)
            if lv[0] == 'local':
                return ('addr', ('sym', '&' + lv[2]))
            return ('addr', lv)
        if op == '*':
            return ('deref', self.eval(sub, env))
        if op in ('++', '--'):
            lv = self.lvalue(sub, env)
            old = self.eval(sub, env)
            new = self.binop('+' if op == '++' else '-', old, ('int', 1), T)
            self.assign(lv, new, env)
            return old if n.d.get('isPostfix') else new
        v = self.eval(sub, env)
        if op == '!':
            # truth-table form: forks when the operand is symbolic
            return ('int', 0 if self.truth(v) else 1)
        if op in ('+', '__extension__'):
            return v
        if v[0] == 'int' and op == '-':
            return ('int', wrap(-v[1], T))
        if v[0] == 'int' and op == '~':
            return ('int', wrap(~v[1], T))
        if v[0] == 'flt' and op == '-':
            return ('flt', -v[1])
        return ('un', op, v, T)

    def assign(self, lv, v, env):
        if lv[0] == 'local':
            env[lv[1]] = v
        else:
            self.events.append(('store', lv, v))

    def e_BinaryOperator(self, n, env):
        op = n.opcode
        L, R = n.inner
        if op == '=':
            v = self.eval(R, env)
            self.assign(self.lvalue(L, env), v, env)
            return v
        if op == ',':
            self.eval(L, env)
            return self.eval(R, env)
        if op == '&&':
            if not self.truth(self.eval(L, env)):
                return ('int', 0)
            return ('int', 1 if self.truth(self.eval(R, env)) else 0)
        if op == '||':
            if self.truth(self.eval(L, env)):
                return ('int', 1)
            return ('int', 1 if self.truth(self.eval(R, env)) else 0)
        a = self.eval(L, env)
        b = self.eval(R, env)
        if op in ('==', '!=', '<', '<=', '>', '>='):
            T = ctype(L.dtype)
        else:
            T = ctype(n.dtype)
        return self.binop(op, a, b, T)

    def binop(self, op, a, b, T):
        if a[0] == 'int' and b[0] == 'int' and T[0] in ('i', 'b'):
            x, y = a[1], b[1]
            try:
                if op in ('==', '!=', '<', '<=', '>', '>='):
                    return ('int', int({'==': x == y, '!=': x != y, '<': x < y, '<=': x <= y, '>': x > y, '>=': x >= y}[op]))
                r = {'+': lambda: x + y, '-': lambda: x - y, '*': lambda: x * y,
                     '/': lambda: cdiv(x, y), '%': lambda: x - cdiv(x, y) * y,
                     '<<': lambda: x << y if 0 <= y < 128 else 0, '>>': lambda: x >> y if 0 <= y < 128 else 0,
                     '&': lambda: x & y, '|': lambda: x | y, '^': lambda: x ^ y}[op]()
                return ('int', wrap(r, T))
            except (ZeroDivisionError, KeyError):
                pass
        return ('bin', op, a, b, T)

    def e_CompoundAssignOperator(self, n, env):
        op = n.opcode[:-1]
        lv = self.lvalue(n.inner[0], env)
        old = self.eval(n.inner[0], env)
        v = self.eval(n.inner[1], env)
        ct = n.d.get('computeResultType', {}).get('desugaredQualType') or n.d.get('computeResultType', {}).get('qualType')
        new = self.binop(op, old, v, ctype(ct or n.dtype))
        self.assign(lv, new, env)
        return new

    def e_ConditionalOperator(self, n, env):
        if self.truth(self.eval(n.inner[0], env)):
            return self.eval(n.inner[1], env)
        return self.eval(n.inner[2], env)

    def e_CallExpr(self, n, env):
        name = n.callee()
        if name is None:
            raise Unsupported('indirect call at %s:%d' % (self.cur_unit.name, n.line))
        args = tuple(self.eval(a, env) for a in n.args())
        if name in self.noreturn:
            raise _NoReturn(name, args, n.line)
        if name == '__builtin_expect':
            return args[0]
        fn = None
        if self.inline and name not in self.opaque:
            fn = self.cur_unit.functions.get(name)
        if fn is not None:
            r = self.call_fn(self.cur_unit, fn, list(args))
            return r if r is not None else ('int', 0)
        self.events.append(('call', name, args))
        self.lines.append(n.line)
        return ('call', name, args)


# ------------------------------------------------- concrete evaluation of atoms ---
class TypeFacts:
    """concrete valuation of the type-describing atoms a guard can mention:
    `<node path>->ty->{kind,size,is_unsigned,base,align}` and the type predicates
    (is_integer / is_flonum / is_numeric) whose tables are computed from type.c itself"""

    def __init__(self, types, preds):
        self.types = types       # {node path value: type record dict}
        self.preds = preds       # {pred name: {TypeKind value: bool}}

    def trec(self, v):
        if v[0] == 'fld' and v[2] == 'ty':
            return self.types.get(v[1])
        return None

    def ev(self, v):
        """python int, or None when the atom is not a type fact"""
        k = v[0]
        if k == 'int':
            return v[1]
        if k == 'fld':
            r = self.trec(v[1])
            if r is not None and v[2] in r:
                x = r[v[2]]
                return x if isinstance(x, int) else (1 if x else 0)
            return None
        if k == 'call' and v[1] in self.preds and len(v[2]) == 1:
            r = self.trec(v[2][0])
            if r is None:
                return None
            return int(self.preds[v[1]][r['kind']])
        if k == 'cast':
            x = self.ev(v[3])
            return None if x is None else wrap(x, v[1])
        if k == 'un':
            x = self.ev(v[2])
            if x is None:
                return None
            return {'!': int(not x), '-': -x, '~': ~x}.get(v[1])
        if k == 'bin':
            x, y = self.ev(v[2]), self.ev(v[3])
            if x is None or y is None:
                return None
            op = v[1]
            if op in ('==', '!=', '<', '<=', '>', '>='):
                return int({'==': x == y, '!=': x != y, '<': x < y, '<=': x <= y, '>': x > y, '>=': x >= y}[op])
            if op in ('&', '|', '^', '+', '-', '*'):
                return {'&': x & y, '|': x | y, '^': x ^ y, '+': x + y, '-': x - y, '*': x * y}[op]
        return None

    def select(self, paths):
        """paths whose type-fact guards are all true under this valuation;
        guards that are not type facts are left alone"""
        out = []
        for p in paths:
            ok = True
            for a, t in p.guards:
                x = self.ev(a)
                if x is not None and bool(x) != t:
                    ok = False; break
            if ok:
                out.append(p)
        return out


def pred_tables(P, names=('is_integer', 'is_flonum', 'is_numeric')):
    """truth table over TypeKind of the type predicates, by executing type.c's own definitions"""
    tu = P.unit('type.c')
    kinds = tu.enum_types.get('TypeKind')
    if not kinds:
        raise AnalysisBroken('enum TypeKind vanished')
    out = {}
    for name in names:
        if name not in tu.functions:
            continue
        tab = {}
        for kn in kinds:
            kv = tu.enums[kn]

            def hook(base, f, kv=kv):
                if base == ('sym', 'ty') and f == 'kind':
                    return ('int', kv)
                return None
            ex = SymExec(P, tu, field_hook=hook)
            res = ex.run(name, [('sym', 'ty')])
            vals = set()
            for p in res:
                if p.outcome[0] == 'ret' and strip_widening(p.outcome[1])[0] == 'int':
                    vals.add(bool(strip_widening(p.outcome[1])[1]))
                else:
                    vals.add(None)
            if len(vals) != 1 or None in vals:
                raise AnalysisBroken('type.c:%s is not a function of ty->kind alone' % name)
            tab[kv] = vals.pop()
        out[name] = tab
    return out


# ------------------------------------------------------------ cast chains ---
WITNESS = [0, 1, 2, -1, -2, 0x7f, 0x80, 0xff, 0x100, -0x80, -0x81, 0x7fff, 0x8000, 0xffff, 0x10000, -0x8000, -0x8001,
           0x7fffffff, 0x80000000, 0xffffffff, 0x100000000, -0x80000000, -0x80000001, 0x123456789abcdef0,
           0x7fffffffffffffff, -0x8000000000000000, -0x7fffffffffffffff, 0x180, 0x18000, 0x180000000]


def cast_chain(v, stop):
    """v = cast(... cast(x)) with stop(x) true -> ([T0 (type of x), T1, ..., Tn], x) or None"""
    chain = []
    while v[0] == 'cast':
        chain.append((v[1], v[2]))
        v = v[3]
    if not stop(v):
        return None
    chain.reverse()
    return chain, v


def chain_fn(chain, x, T0=('i', 64, True)):
    """apply a chain of integral conversions to the concrete value x of type T0"""
    v = wrap(x, T0)
    for to, frm in chain:
        if to[0] not in ('i', 'b'):
            return None
        v = wrap(v, to)
    return v


I64 = ('i', 64, True)


def chain_signature(chain, T0=I64):
    """the 64-bit results (as int64_t, the folder's return type) of the chain on the witness values"""
    out = []
    for x in WITNESS:
        v = chain_fn(chain, x, T0)
        out.append(None if v is None else wrap(v, I64))
    return tuple(out)


def oracle_signature(bits, signed, boolean=False, T0=I64):
    """conversion of the witness values to the integer type (bits, signed), read back as int64_t"""
    if boolean:
        return tuple(1 if wrap(x, T0) else 0 for x in WITNESS)
    return tuple(wrap(wrap(wrap(x, T0), ('i', bits, signed)), I64) for x in WITNESS)
