"""R07.18: the constant of a case label reaches Node.begin / Node.end as the folder's value, converted (if at all) to a type of at least int's size.

C11 6.8.4.2p5: the case constant is converted to the PROMOTED type of the controlling expression.  chibicc keeps the controlling expression of a switch
unpromoted (a char / short / _Bool expression keeps its type) and the generated code compares in a register of max(4, size) bytes, the narrow value
being sign/zero-extended by its load.  So the label the comparison uses has to be the folded value in a type of at least 4 bytes; a label reduced to the
width of a 1- or 2-byte type (`case 300:` under `switch ((unsigned char)c)` -> 44) is taken for values the run-time comparison `c == 300` rejects.

The rule is a typed backward def-use trace (clang AST): from every store to the fields `begin` / `end` of a Node, through locals, conversions, ?:,
helper functions (return expressions; parameters bound to the arguments of the call) to the calls of the folder.  On the way
  * an integral conversion to fewer than 32 bits is a violation (32 bits: owned by R03.2),
  * a folder call whose node argument is a conversion node built for it (new_cast(e, T)) is judged by T: a scalar type object of type.c by its size,
    the type of a Node (`x->ty`: the unpromoted type add_type left) is a violation unless a dominating size test replaces the narrow ones by a type of
    at least 4 bytes, anything else is undecided.
The reads of begin/end in the code generator must reach the emitted text as 64-bit values.
"""

MAXDEPTH = 6
PRODUCERS = ('const_expr', 'eval', 'eval2')
NODE_FOLDERS = ('eval', 'eval2')
CAST_CTORS = ('new_cast',)


class Item:
    def __init__(self, kind, node, why='', lo=64, T=None):
        self.kind = kind      # 'ok' | 'bad' | 'unknown'
        self.node = node
        self.why = why
        self.lo = lo          # narrowest integral conversion on the way (bits)
        self.T = T            # construct name


def _strip_parens(n):
    while n is not None and n.kind == 'ParenExpr' and n.inner:
        n = n.inner[0]
    return n


def _fn_of(n):
    return n.enclosing('FunctionDecl')


def _local_defs(fd, ref_id):
    """(defs, escaped): every expression assigned to the local; escaped when its address is taken or it is modified otherwise"""
    defs = []
    escaped = False
    for d in fd.walk():
        if d.kind == 'VarDecl' and d.id == ref_id:
            ini = [c for c in d.inner if c.kind not in ('FullComment',) and not c.kind.endswith('Attr')]
            if ini:
                defs.append(ini[-1])
        elif d.kind == 'DeclRefExpr' and d.ref_id == ref_id:
            p = d.parent
            x = d
            while p is not None and p.kind == 'ParenExpr':
                x = p; p = p.parent
            if p is None:
                continue
            if p.kind == 'BinaryOperator' and p.opcode == '=' and p.inner[0] is x:
                defs.append(p.inner[1])
            elif p.kind == 'CompoundAssignOperator' and p.inner[0] is x:
                escaped = True
            elif p.kind == 'UnaryOperator' and p.opcode in ('&', '++', '--'):
                escaped = True
    return defs, escaped


class Tracer:
    def __init__(self, P, u, ctype, tshow, type_sizes):
        self.P = P
        self.u = u
        self.ctype = ctype
        self.tshow = tshow
        self.type_sizes = type_sizes       # 'ty_int' -> 4
        self._switch_cond = None

    # ---- the integer value ---------------------------------------------
    def value(self, e, bind=None, lo=64, depth=0, seen=None):
        """items for the origins of the integer value of expression e"""
        seen = seen if seen is not None else set()
        e = _strip_parens(e)
        if e is None:
            return [Item('unknown', e, 'empty expression')]
        if depth > MAXDEPTH:
            return [Item('unknown', e, 'the value is handed on through more than %d helpers/locals' % MAXDEPTH, lo)]
        k = e.kind
        if k in ('ImplicitCastExpr', 'CStyleCastExpr'):
            ck = e.cast_kind
            if ck == 'IntegralCast':
                T = self.ctype(e.dtype)
                if T[0] == 'i':
                    lo = min(lo, T[1])
                elif T[0] == 'b':
                    lo = min(lo, 1)
                return self.value(e.inner[-1], bind, lo, depth, seen)
            if ck in ('LValueToRValue', 'NoOp'):
                return self.value(e.inner[-1], bind, lo, depth, seen)
            return [Item('unknown', e, 'a %s conversion on the way of the label' % ck, lo)]
        if k == 'ConstantExpr':
            return self.value(e.inner[-1], bind, lo, depth, seen)
        if k == 'IntegerLiteral':
            return [Item('ok', e, '', lo, 'literal')]
        if k == 'ConditionalOperator':
            return self.value(e.inner[1], bind, lo, depth, seen) + self.value(e.inner[2], bind, lo, depth, seen)
        if k == 'BinaryOperator' and e.opcode == ',':
            return self.value(e.inner[1], bind, lo, depth, seen)
        if k == 'BinaryOperator' and e.opcode == '=':
            return self.value(e.inner[1], bind, lo, depth, seen)
        if k == 'BinaryOperator' and e.opcode == '&':
            # masking with a constant below 2^32-1 cuts the label like a conversion does
            for a, b in ((0, 1), (1, 0)):
                m = e.inner[a].strip_all().int_value() if hasattr(e.inner[a].strip_all(), 'int_value') else None
                if isinstance(m, int) and 0 <= m < 0xffffffff:
                    return self.value(e.inner[b], bind, min(lo, m.bit_length()), depth, seen)
            return [Item('unknown', e, '`%s`: arithmetic on the folded label' % e.src(), lo)]
        if k == 'DeclRefExpr':
            if e.ref_kind == 'ParmVarDecl':
                if bind and e.ref_id in bind:
                    arg, b2 = bind[e.ref_id]
                    return self.value(arg, b2, lo, depth + 1, seen)
                return [Item('unknown', e, 'the label comes in through parameter `%s`' % e.ref_name, lo)]
            if e.ref_kind == 'VarDecl':
                fd = _fn_of(e)
                if fd is None or e.ref_id not in [d.id for d in fd.walk() if d.kind == 'VarDecl']:
                    return [Item('unknown', e, 'the label is read from the non-local object `%s`' % e.ref_name, lo)]
                key = (e.ref_id, lo)
                if key in seen:
                    return []
                seen.add(key)
                defs, esc = _local_defs(fd, e.ref_id)
                if esc or not defs:
                    return [Item('unknown', e, 'the local `%s` is modified in place or through its address' % e.ref_name, lo)]
                # the declared type of the local is a conversion too
                for d in fd.walk():
                    if d.kind == 'VarDecl' and d.id == e.ref_id:
                        T = self.ctype(d.dtype)
                        if T[0] == 'i':
                            lo = min(lo, T[1])
                        elif T[0] == 'b':
                            lo = min(lo, 1)
                out = []
                for d in defs:
                    out += self.value(d, bind, lo, depth, seen)
                return out
            return [Item('unknown', e, '`%s`' % e.src(), lo)]
        if k == 'CallExpr':
            cal = e.callee()
            args = e.args()
            if cal == 'const_expr':
                return [Item('ok', e, '', lo, 'const_expr')]
            if cal in NODE_FOLDERS and args:
                it = self.node_arg(args[0], bind, depth)
                it.lo = min(it.lo, lo)
                return [it]
            if cal and cal in self.u.functions and cal not in PRODUCERS:
                fd = self.u.functions[cal]
                T = self.ctype((fd.dtype or '').split('(')[0].strip())
                if T[0] == 'i':
                    lo = min(lo, T[1])
                elif T[0] == 'b':
                    lo = min(lo, 1)
                params = [p for p in fd.inner if p.kind == 'ParmVarDecl']
                b2 = dict()
                for p, a in zip(params, args):
                    b2[p.id] = (a, bind)
                rets = [r for r in fd.walk() if r.kind == 'ReturnStmt' and r.inner]
                if not rets:
                    return [Item('unknown', e, '%s() returns no value' % cal, lo)]
                out = []
                for r in rets:
                    out += self.value(r.inner[0], b2, lo, depth + 1, seen)
                return out
            return [Item('unknown', e, 'the label is the result of %s(), which is not the folder' % (cal or 'an indirect call'), lo)]
        return [Item('unknown', e, '`%s`: not a copy of the folder\'s value' % e.src(), lo)]

    # ---- the node handed to eval ---------------------------------------
    def node_arg(self, e, bind, depth, seen=None):
        """the Node* argument of eval/eval2: a conversion node built for the occasion, or an expression as parsed"""
        seen = seen if seen is not None else set()
        e = e.strip_all() if e is not None else e
        if e is None or depth > MAXDEPTH:
            return Item('unknown', e, 'cannot follow the node handed to the folder')
        if e.kind == 'CallExpr':
            cal = e.callee()
            if cal in CAST_CTORS and len(e.args()) >= 2:
                return self.judge_type(e.args()[1], bind, depth, e)
            if cal and cal in self.u.functions and cal not in CAST_CTORS:
                fd = self.u.functions[cal]
                # a parser function (returns the expression as parsed) or a helper wrapping it in a conversion
                casts = [c for c in fd.calls(set(CAST_CTORS))]
                rets = [r for r in fd.walk() if r.kind == 'ReturnStmt' and r.inner]
                direct = [r for r in rets if r.inner[0].strip_all().kind == 'CallExpr' and r.inner[0].strip_all().callee() in CAST_CTORS]
                if direct:
                    params = [p for p in fd.inner if p.kind == 'ParmVarDecl']
                    b2 = {p.id: (a, bind) for p, a in zip(params, e.args())}
                    worst = None
                    for r in rets:
                        it = self.node_arg(r.inner[0], b2, depth + 1, seen)
                        if worst is None or _rank(it) > _rank(worst):
                            worst = it
                    return worst
                return Item('ok', e, '', 64, 'parsed')
            return Item('ok', e, '', 64, 'parsed')
        if e.kind == 'DeclRefExpr':
            if e.ref_kind == 'ParmVarDecl':
                if bind and e.ref_id in bind:
                    arg, b2 = bind[e.ref_id]
                    return self.node_arg(arg, b2, depth + 1, seen)
                return Item('ok', e, '', 64, 'parsed')
            if e.ref_kind == 'VarDecl':
                fd = _fn_of(e)
                if e.ref_id in seen or fd is None:
                    return Item('ok', e, '', 64, 'parsed')
                seen.add(e.ref_id)
                defs, esc = _local_defs(fd, e.ref_id)
                worst = Item('ok', e, '', 64, 'parsed')
                for d in defs:
                    it = self.node_arg(d, bind, depth, seen)
                    if _rank(it) > _rank(worst):
                        worst = it
                return worst
        if e.kind == 'ConditionalOperator':
            a = self.node_arg(e.inner[1], bind, depth, seen)
            b = self.node_arg(e.inner[2], bind, depth, seen)
            return a if _rank(a) >= _rank(b) else b
        return Item('ok', e, '', 64, 'parsed')

    # ---- the target type of a conversion built for the label -----------
    def judge_type(self, t, bind, depth, at):
        c = self.type_class(t, bind, depth, set())
        src = t.src()
        if c[0] == 'fixed':
            if c[2] >= 4:
                return Item('ok', at, '', 64, 'converted-to-' + c[1])
            return Item('bad', at, 'the label is folded as a value of the %d-byte type %s' % (c[2], c[1]), 8 * c[2], 'converted-to-' + c[1])
        if c[0] == 'promoted':
            return Item('ok', at, '', 64, 'converted-to-promoted-type')
        if c[0] == 'nodety':
            if c[1].endswith('cond->ty') and not self.switch_cond_unpromoted():
                return Item('unknown', at, 'the label is converted to `%s` and the switch arm does not store the controlling expression as parsed: '
                                           'cannot tell whether it was promoted' % src)
            return Item('bad', at, 'the label is folded after a conversion to `%s`, the type add_type gave an expression: not promoted, so for a controlling '
                                   'expression of type char / short / _Bool the label is reduced to 8 / 16 / 1 bits although the generated code compares in 32' % c[1],
                        8, 'converted-to-unpromoted-' + c[1].split('->', 1)[-1].replace('->', '.'))
        return Item('unknown', at, 'the label is converted to `%s` before it is folded: cannot tell the size of that type' % src)

    def type_class(self, t, bind, depth, seen):
        t = t.strip_all()
        if t.kind == 'DeclRefExpr':
            if t.ref_name in self.type_sizes and t.ref_kind == 'VarDecl' and t.ref_name in self._all_globals():
                return ('fixed', t.ref_name, self.type_sizes[t.ref_name])
            if t.ref_kind == 'ParmVarDecl':
                if bind and t.ref_id in bind and depth <= MAXDEPTH:
                    arg, b2 = bind[t.ref_id]
                    return self.type_class(arg, b2, depth + 1, seen)
                return ('unknown', t.src())
            if t.ref_kind == 'VarDecl':
                fd = _fn_of(t)
                if fd is None or t.ref_id in seen:
                    return ('unknown', t.src())
                seen.add(t.ref_id)
                defs, esc = _local_defs(fd, t.ref_id)
                if esc or not defs:
                    return ('unknown', t.src())
                cls = [(self.type_class(d, bind, depth, seen), d) for d in defs]
                narrow = [c for c, d in cls if c[0] == 'nodety' or (c[0] == 'fixed' and c[2] < 4)]
                unk = [c for c, d in cls if c[0] == 'unknown']
                if unk:
                    return unk[0]
                if not narrow:
                    return cls[0][0] if len(cls) == 1 else ('promoted',)
                # narrow candidates: replaced under a dominating size test?
                for c, d in cls:
                    if c[0] == 'fixed' and c[2] >= 4 and self._guarded_by_size_test(d, t.ref_id):
                        return ('promoted',)
                return narrow[0]
        if t.kind == 'MemberExpr' and t.name == 'ty':
            base = t.inner[0].strip_all() if t.inner else None
            if base is not None and (base.dtype or '').replace('struct ', '').replace(' ', '') in ('Node*',):
                return ('nodety', t.src())
            return ('unknown', t.src())
        if t.kind == 'ConditionalOperator':
            cond, a, b = t.inner
            ca = self.type_class(a, bind, depth, seen)
            cb = self.type_class(b, bind, depth, seen)
            if self._is_size_below(cond) and ca[0] == 'fixed' and ca[2] >= 4:
                return ('promoted',)
            for c in (ca, cb):
                if c[0] in ('nodety', 'unknown') or (c[0] == 'fixed' and c[2] < 4):
                    return c if c[0] != 'nodety' or not self._mentions_size(cond) else ('unknown', t.src())
            return ('promoted',)
        return ('unknown', t.src())

    def _all_globals(self):
        g = set(self.u.globals)
        try:
            g |= set(self.P.unit('type.c').globals)
        except Exception:
            pass
        return g

    @staticmethod
    def _mentions_size(cond):
        return any(m.kind == 'MemberExpr' and m.name in ('size', 'kind') for m in cond.walk())

    @staticmethod
    def _is_size_below(cond):
        """`x->size < K` (K >= 4) or `x->size <= K` (K >= 3)"""
        c = cond.strip_all()
        if c.kind != 'BinaryOperator' or c.opcode not in ('<', '<='):
            return False
        l = c.inner[0].strip_all(); r = c.inner[1].strip_all()
        if l.kind != 'MemberExpr' or l.name != 'size':
            return False
        v = r.int_value()
        if not isinstance(v, int):
            return False
        return v >= 4 if c.opcode == '<' else v >= 3

    def _guarded_by_size_test(self, d, ref_id):
        """the assignment whose right side is d stands in the then-branch of `if (v->size < 4)`"""
        x = d
        for a in d.ancestors():
            if a.kind == 'IfStmt' and len(a.inner) >= 2 and a.inner[1] is x:
                if self._is_size_below(a.inner[0]):
                    return True
            if a.kind == 'FunctionDecl':
                break
            x = a
        return False

    def switch_cond_unpromoted(self):
        """every function that builds an ND_SWITCH node stores the controlling expression as the parser returned it"""
        if self._switch_cond is not None:
            return self._switch_cond
        ok = None
        for fname, fd in self.u.functions.items():
            builds = False
            for c in fd.calls('new_node'):
                a = c.args()
                if a and a[0].strip_all().kind == 'DeclRefExpr' and a[0].strip_all().ref_name == 'ND_SWITCH':
                    builds = True
            if not builds:
                continue
            for n in fd.walk():
                if n.kind == 'BinaryOperator' and n.opcode == '=':
                    l = n.inner[0].strip()
                    if l.kind == 'MemberExpr' and l.name == 'cond':
                        r = n.inner[1].strip_all()
                        good = r.kind == 'CallExpr' and r.callee() in ('expr', 'assign', 'conditional')
                        ok = good if ok is None else (ok and good)
        self._switch_cond = bool(ok)
        return self._switch_cond


def _rank(it):
    return {'ok': 0, 'unknown': 1, 'bad': 2}[it.kind]


def run_rule(P, rep, rule, ctype, tshow, type_sizes):
    U = 'parse.c'
    u = P.unit(U)
    tr = Tracer(P, u, ctype, tshow, type_sizes)
    nst = 0
    for fname, fd in sorted(u.functions.items()):
        for n in fd.walk():
            if n.kind != 'BinaryOperator' or n.opcode != '=':
                continue
            l = n.inner[0].strip()
            if l.kind != 'MemberExpr' or l.name not in ('begin', 'end'):
                continue
            base = l.inner[0].strip_all() if l.inner else None
            if base is None or (base.dtype or '').replace('struct ', '').replace(' ', '') != 'Node*':
                continue
            nst += 1
            field = l.name
            key = '%s:%s:case-%s' % (U, fname, field)
            where = '%s:%d' % (U, n.line)
            items = tr.value(n.inner[1])
            bad = {}
            unk = {}
            for it in items:
                w = '%s:%d' % (U, it.node.line) if it.node is not None and it.node.line else where
                if it.kind == 'bad':
                    bad[it.T or 'narrow'] = (it.why, w)
                elif it.kind == 'unknown':
                    unk[it.why] = w
                elif it.lo < 32:
                    bad['cut-to-%d-bits' % it.lo] = ('the folded label is cut to %d bits on its way to Node.%s' % (it.lo, field), w)
            if not items:
                unk['no origin of the stored value found'] = where
            for cst, (why, w) in sorted(bad.items()):
                rep.ob(rule, '%s/%s' % (key, cst), False,
                       '%s: %s. C11 6.8.4.2p5 converts a case constant to the promoted type of the controlling expression and the generated switch compares in a register of '
                       'at least 32 bits: `switch ((unsigned char)c) { case 300: }` must never be taken, with the label reduced to 8 bits it is taken for c == 44 '
                       '(and `case 250 ... 260:` becomes an empty range)' % (fname, why), where=w)
            if bad:
                continue
            if unk:
                why, w = sorted(unk.items())[0]
                rep.undecided(rule, key, why, where=w)
            else:
                rep.ob(rule, key, True, '', where=where)
    if nst < 2:
        rep.undecided(rule, '%s:case-label-stores' % U, 'only %d stores to Node.begin / Node.end found' % nst)
    # the code generator reads the label as a 64-bit value
    cu = P.unit('codegen.c')
    nrd = 0
    for fname, fd in sorted(cu.functions.items()):
        per = {}
        for m in fd.walk():
            if m.kind != 'MemberExpr' or m.name not in ('begin', 'end'):
                continue
            base = m.inner[0].strip_all() if m.inner else None
            if base is None or (base.dtype or '').replace('struct ', '').replace(' ', '') != 'Node*':
                continue
            nrd += 1
            lo = 64
            q = m.parent
            while q is not None and q.kind in ('ParenExpr', 'ImplicitCastExpr', 'CStyleCastExpr'):
                if q.kind != 'ParenExpr' and q.cast_kind == 'IntegralCast':
                    T = ctype(q.dtype)
                    lo = min(lo, T[1] if T[0] == 'i' else (1 if T[0] == 'b' else lo))
                q = q.parent
            per.setdefault(m.name, []).append((lo, m.line))
        for field, uses in sorted(per.items()):
            worst = min(uses)
            ok = worst[0] >= 64
            rep.ob(rule, 'codegen.c:%s:reads-%s%s' % (fname, field, '' if ok else '/cut-to-%d-bits' % worst[0]), ok,
                   '%s reads Node.%s through a conversion to %d bits: a label that does not fit (the controlling expression may be long) is compared as a different value' % (
                       fname, field, worst[0]), where='codegen.c:%d' % worst[1])
    if nrd < 3:
        rep.undecided(rule, 'codegen.c:case-label-reads', 'only %d reads of Node.begin / Node.end in the code generator' % nrd)
