"""Private helper of sa/rules/c07.py (R07.11): flow analysis of scope entries.

The value an identifier has in a constant expression is read from its scope entry
(parse.c: the record stored in `scope->vars`).  An entry that is already reachable
through the scope tables while the parser still resolves identifiers, and whose
fields are written afterwards, is observed half-initialised: the constant folder
then computes with a value the identifier never has at run time (an enumerator
that is visible inside its own defining constant expression, C11 6.2.1p7).

What is decided here, over the structured control flow of each function (all
paths, loops to a fixpoint):

    creator   function returning a pointer to the entry record from which the
              insertion into the table is reachable (push_scope and wrappers)
    resolver  function from which a lookup in the same table is reachable
    handle    local variable bound to the result of a creator call

    late store: a path  creator call -> resolver call -> store through the handle

Everything is derived from the typed AST: the table is identified by the member
the insertion names, the entry type by the type of the inserted value.  No source
text, no line numbers, no names of locals enter a decision.
"""
from .build import AnalysisBroken

TRANSPARENT = ('ParenExpr', 'ImplicitCastExpr', 'ConstantExpr', 'CStyleCastExpr')
FRESH, STALE = 'fresh', 'stale'


def _strip(n):
    while n.kind in TRANSPARENT and n.inner:
        n = n.inner[-1]
    return n


def _norm_type(t):
    return (t or '').replace('struct ', '').replace('const ', '').replace(' ', '')


def table_model(unit, table_field='vars', put=('hashmap_put', 'hashmap_put2'), get=('hashmap_get', 'hashmap_get2')):
    """(entry pointer type, inserters, lookups, call graph) for the table `<scope>->vars` of a unit"""
    graph = {}
    inserters, lookups = set(), set()
    entry_types = set()
    for fname, fd in unit.functions.items():
        out = set()
        for n in fd.walk():
            if n.kind == 'DeclRefExpr' and n.ref_kind == 'FunctionDecl':
                out.add(n.ref_name)
            if n.kind != 'CallExpr':
                continue
            c = n.callee()
            if c in put or c in get:
                a = n.args()
                if not a:
                    continue
                names_table = any(m.kind == 'MemberExpr' and m.name == table_field for m in a[0].walk())
                if not names_table:
                    continue
                if c in put:
                    inserters.add(fname)
                    if len(a) >= 3:
                        v = a[-1]
                        while v.kind in ('ParenExpr',) or (v.kind == 'ImplicitCastExpr' and v.cast_kind in ('BitCast', 'LValueToRValue', 'NoOp')):
                            if v.kind == 'ImplicitCastExpr' and v.cast_kind == 'LValueToRValue':
                                entry_types.add(_norm_type(v.type)); break
                            v = v.inner[0]
                else:
                    lookups.add(fname)
        graph[fname] = out
    return entry_types, inserters, lookups, graph


def reaching(graph, targets):
    """functions of the graph from which one of `targets` is reachable (targets included)"""
    rev = {}
    for f, outs in graph.items():
        for g in outs:
            rev.setdefault(g, set()).add(f)
    seen = set(t for t in targets)
    st = list(seen)
    while st:
        g = st.pop()
        for f in rev.get(g, ()):
            if f not in seen:
                seen.add(f); st.append(f)
    return seen


class Site:
    """one creator call"""
    __slots__ = ('node', 'creator', 'how', 'fields', 'late', 'und')

    def __init__(self, node, creator, how):
        self.node = node; self.creator = creator; self.how = how      # how: 'handle' | 'direct' | 'returned' | 'other'
        self.fields = set()
        self.late = {}          # field -> resolver name that ran between creation and the store
        self.und = None


class EntryFlow:
    """abstract interpretation of one function: per handle the set of (status, site id, resolver)"""

    def __init__(self, unit, creators, resolvers):
        self.unit = unit
        self.creators = creators
        self.resolvers = resolvers
        self.global_ids = set(v.id for v in unit.globals.values())

    # ---- state helpers --------------------------------------------------------
    @staticmethod
    def join(a, b):
        if a is None:
            return b
        if b is None:
            return a
        out = dict(a)
        for k, v in b.items():
            out[k] = out.get(k, frozenset()) | v
        return out

    def analyse(self, fd):
        self.sites = {}
        self.has_goto = False
        self.loops = []          # stack of {'break': state, 'continue': state, 'kind': 'loop'|'switch', 'entry': state}
        body = [c for c in fd.inner if c.kind == 'CompoundStmt']
        if not body:
            return []
        # creator calls of the function, classified
        for n in fd.walk():
            if n.kind == 'CallExpr' and n.callee() in self.creators:
                self.sites[id(n)] = Site(n, n.callee(), self._classify(n))
        if not self.sites:
            return []
        self.ex(body[0], {})
        out = list(self.sites.values())
        if self.has_goto:
            for s in out:
                if s.how == 'handle' and not s.late:
                    s.und = 'the function uses goto: the order of events is not decided'
        return out

    def _classify(self, call):
        p = call.parent
        while p is not None and p.kind in TRANSPARENT:
            p = p.parent
        if p is None:
            return 'other'
        if p.kind == 'VarDecl':
            return 'handle'
        if p.kind == 'BinaryOperator' and p.opcode == '=' and _strip(p.inner[1]) is call:
            l = _strip(p.inner[0])
            if l.kind == 'DeclRefExpr' and l.ref_kind == 'VarDecl' and l.ref_id not in self.global_ids:
                return 'handle'
            return 'other'
        if p.kind == 'MemberExpr':
            return 'direct'
        if p.kind == 'ReturnStmt':
            return 'returned'
        return 'other'

    # ---- statements -------------------------------------------------------------
    def ex(self, s, st):
        if st is None and s.kind not in ('CaseStmt', 'DefaultStmt', 'LabelStmt', 'CompoundStmt', 'SwitchStmt', 'WhileStmt', 'ForStmt', 'DoStmt', 'IfStmt'):
            return None
        k = s.kind
        if k == 'CompoundStmt':
            for c in s.inner:
                st = self.ex(c, st)
            return st
        if k == 'DeclStmt':
            for d in s.inner:
                if d.kind == 'VarDecl' and 'init' in d.d:
                    init = None
                    for c in d.inner:
                        if not c.kind.endswith('Attr'):
                            init = c
                    if init is not None:
                        st = self.ev(init, st)
                        st = self.bind(d.id, init, st)
            return st
        if k == 'IfStmt':
            kids = s.inner
            if st is None:
                # unreachable head; labels inside may still be reached
                a = self.ex(kids[1], None)
                b = self.ex(kids[2], None) if len(kids) > 2 else None
                return self.join(a, b)
            s0 = self.ev(kids[0], st)
            a = self.ex(kids[1], s0)
            b = self.ex(kids[2], s0) if len(kids) > 2 else s0
            return self.join(a, b)
        if k in ('WhileStmt', 'ForStmt', 'DoStmt'):
            return self.ex_loop(s, st)
        if k == 'SwitchStmt':
            s0 = self.ev(s.inner[0], st) if st is not None else None
            ctx = {'kind': 'switch', 'break': None, 'continue': None, 'entry': s0}
            self.loops.append(ctx)
            out = self.ex(s.inner[-1], None)
            self.loops.pop()
            return self.join(self.join(out, ctx['break']), s0)
        if k in ('CaseStmt', 'DefaultStmt'):
            entry = None
            for ctx in reversed(self.loops):
                if ctx['kind'] == 'switch':
                    entry = ctx['entry']; break
            return self.ex(s.inner[-1], self.join(st, entry))
        if k == 'LabelStmt':
            self.has_goto = True
            return self.ex(s.inner[-1], st if st is not None else {})
        if k in ('GotoStmt', 'IndirectGotoStmt'):
            self.has_goto = True
            return None
        if k == 'BreakStmt':
            if self.loops:
                self.loops[-1]['break'] = self.join(self.loops[-1]['break'], st)
            return None
        if k == 'ContinueStmt':
            for ctx in reversed(self.loops):
                if ctx['kind'] == 'loop':
                    ctx['continue'] = self.join(ctx['continue'], st); break
            return None
        if k == 'ReturnStmt':
            for c in s.inner:
                self.ev(c, st)
            return None
        if k == 'NullStmt':
            return st
        return self.ev(s, st)

    def ex_loop(self, s, st):
        if s.kind == 'ForStmt':
            raw = s.d.get('inner', [])
            slots = []
            it = iter(s.inner)
            for r in raw:
                slots.append(next(it) if (isinstance(r, dict) and r) else None)
            init, _cv, cond, inc, body = (slots + [None] * 5)[:5]
        elif s.kind == 'WhileStmt':
            init, inc = None, None
            cond, body = s.inner[0], s.inner[-1]
        else:
            init, inc = None, None
            body, cond = s.inner[0], s.inner[-1]
        if st is None:
            st_in = None
        else:
            st_in = self.ex(init, st) if init is not None and init.kind == 'DeclStmt' else (self.ev(init, st) if init is not None else st)
        head = st_in
        exit_state = None
        for _round in range(8):
            ctx = {'kind': 'loop', 'break': None, 'continue': None, 'entry': None}
            self.loops.append(ctx)
            if s.kind == 'DoStmt':
                b = self.ex(body, head if head is not None else None)
                b = self.join(b, ctx['continue'])
                after_cond = self.ev(cond, b) if b is not None else None
                back = after_cond
                leave = after_cond
            else:
                after_cond = self.ev(cond, head) if (cond is not None and head is not None) else head
                b = self.ex(body, after_cond) if body is not None else after_cond
                b = self.join(b, ctx['continue'])
                back = self.ev(inc, b) if (inc is not None and b is not None) else b
                leave = after_cond if cond is not None else None
            self.loops.pop()
            exit_state = self.join(leave, ctx['break'])
            new_head = self.join(head, back)
            if new_head == head:
                break
            head = new_head
        else:
            raise AnalysisBroken('loop state does not stabilise at %s:%d' % (self.unit.name, s.line))
        return exit_state

    # ---- expressions ---------------------------------------------------------------
    def bind(self, var_id, value_node, st):
        """local `var_id` receives the value of value_node"""
        if st is None:
            return None
        v = _strip(value_node)
        st = dict(st)
        if v.kind == 'CallExpr' and id(v) in self.sites:
            st[var_id] = frozenset([(FRESH, id(v), None)])
        elif v.kind == 'DeclRefExpr' and v.ref_id in st:
            st[var_id] = st[v.ref_id]
        else:
            st.pop(var_id, None)
        return st

    def handle_of(self, lhs, st):
        """(var id, field) when lhs is `h->field` (or `(*h).field`) for a tracked handle h"""
        l = _strip(lhs)
        if l.kind != 'MemberExpr' or not l.inner:
            return None
        b = _strip(l.inner[0])
        if b.kind == 'UnaryOperator' and b.opcode == '*':
            b = _strip(b.inner[0])
        if b.kind == 'DeclRefExpr' and st is not None and b.ref_id in st:
            return b.ref_id, l.name
        return None

    def store(self, var_id, field, st, what='store'):
        for status, sid, via in st.get(var_id, ()):
            site = self.sites.get(sid)
            if site is None:
                continue
            if what == 'store':
                site.fields.add(field)
                if status == STALE:
                    site.late.setdefault(field, via)
            elif status == STALE and not site.late:
                site.und = 'the entry is handed to %s after %s ran: whether that completes the entry is not decided' % (field, via)

    def resolve(self, name, st):
        out = {}
        for k, tags in st.items():
            out[k] = frozenset((STALE, sid, via or name) if status == FRESH else (status, sid, via) for status, sid, via in tags)
        return out

    def ev(self, n, st):
        if st is None or n is None:
            return st
        k = n.kind
        if k in TRANSPARENT:
            return self.ev(n.inner[-1], st) if n.inner else st
        if k == 'BinaryOperator':
            op = n.opcode
            L, R = n.inner
            if op == '=':
                l = _strip(L)
                if l.kind == 'DeclRefExpr' and l.ref_kind == 'VarDecl':
                    st = self.ev(R, st)
                    if l.ref_id in self.global_ids:
                        return st
                    return self.bind(l.ref_id, R, st)
                # direct: creator(...)->field = value
                if l.kind == 'MemberExpr' and l.inner:
                    b = _strip(l.inner[0])
                    if b.kind == 'CallExpr' and id(b) in self.sites:
                        site = self.sites[id(b)]
                        site.fields.add(l.name)
                        for c in R.walk():
                            if c.kind == 'CallExpr' and (c.callee() in self.resolvers):
                                site.late.setdefault(l.name, c.callee())
                        st = self.ev(R, st)
                        return self.ev(b, st)
                st = self.ev(R, st)
                h = self.handle_of(L, st)
                if h:
                    self.store(h[0], h[1], st)
                    return st
                return self.ev(L, st)
            if op in ('&&', '||'):
                s1 = self.ev(L, st)
                return self.join(s1, self.ev(R, s1))
            st = self.ev(L, st)
            return self.ev(R, st)
        if k == 'CompoundAssignOperator':
            st = self.ev(n.inner[1], st)
            h = self.handle_of(n.inner[0], st)
            if h:
                self.store(h[0], h[1], st)
                return st
            return self.ev(n.inner[0], st)
        if k == 'UnaryOperator' and n.opcode in ('++', '--'):
            h = self.handle_of(n.inner[0], st)
            if h:
                self.store(h[0], h[1], st)
                return st
            return self.ev(n.inner[0], st)
        if k == 'ConditionalOperator':
            s0 = self.ev(n.inner[0], st)
            return self.join(self.ev(n.inner[1], s0), self.ev(n.inner[2], s0))
        if k == 'CallExpr':
            for a in n.inner:
                st = self.ev(a, st)
            name = n.callee()
            for a in n.args():
                x = _strip(a)
                if x.kind == 'UnaryOperator' and x.opcode == '&':
                    x = _strip(x.inner[0])
                if x.kind == 'DeclRefExpr' and x.ref_id in st:
                    self.store(x.ref_id, name or 'an indirect call', st, what='escape')
            if name is None:
                return self.resolve('an indirect call', st)
            if name in self.resolvers:
                return self.resolve(name, st)
            return st
        if k == 'StmtExpr':
            for c in n.inner:
                st = self.ex(c, st)
            return st
        if k in ('UnaryExprOrTypeTraitExpr',):
            return st          # sizeof / _Alignof: operand not evaluated
        for c in n.inner:
            st = self.ev(c, st)
        return st
