"""C07 helper: typed data flow of a floating value the folder returned (eval_double) to the places where it comes to rest.

The value eval_double returns is exact in the digits of the folded expression's type; the expression may have any arithmetic type, so in general it
needs all 64 digits of the return type (a long double expression; an unsigned long / long expression: `static float f = 9007199791611905;`).  From
the call the value is followed through parentheses, conversions, unary + / -, the arms of ?:, the right operand of the comma operator, local variables
and parameters (every read of the local), the return value of the enclosing function (into the call that passed the value in, or into every caller)
and arguments of functions with a body (every read of the parameter) until it reaches a terminal:

  store    it is stored into an object that is not a local (through a pointer, a field, an element, a global; argument of a function without a body)
  compare  it is an operand of a comparison
  truth    it is tested against zero (operand of ! && ||, condition of ?: / if / loops, conversion to _Bool)
  to-int   it is converted to an integer type
  arith    it is an operand of + - * / (the result is a new value, not followed)

Each terminal comes with the list of floating formats the value passed through on the way (conversions and the types of the objects that held it).
Nothing here depends on names of locals, on statement order or on the shape of the control flow: it is the typed def-use relation.
"""
from .lib_c07 import ctype

CMP = ('<', '<=', '>', '>=', '==', '!=')
ARITH = ('+', '-', '*', '/')
PASS_CASTS = ('NoOp', 'LValueToRValue')
LIMIT = 400


class Terminal:
    __slots__ = ('kind', 'node', 'chain', 'T', 'what', 'fn')

    def __init__(self, kind, node, chain, T, what, fn):
        self.kind = kind; self.node = node; self.chain = tuple(chain); self.T = T; self.what = what; self.fn = fn


class Unknown(Exception):
    pass


class FloFlow:
    def __init__(self, unit):
        self.u = unit
        self._callers = None
        self._refs = {}
        self.steps = 0

    def fn_of(self, n):
        fd = n if n.kind == 'FunctionDecl' else n.enclosing('FunctionDecl')
        return fd

    def reads(self, fd, var_id):
        """read references of a local / parameter in fd (references that are the target of a plain assignment are writes)"""
        key = (fd.id, var_id)
        if key not in self._refs:
            out = []
            for r in fd.walk():
                if r.kind == 'DeclRefExpr' and r.ref_id == var_id:
                    p, x = r.parent, r
                    while p is not None and p.kind == 'ParenExpr':
                        x = p; p = p.parent
                    if p is not None and p.kind == 'BinaryOperator' and p.opcode == '=' and x is p.inner[0]:
                        continue
                    out.append(r)
            self._refs[key] = out
        return self._refs[key]

    def callers(self, fname):
        if self._callers is None:
            self._callers = {}
            for gname, gd in self.u.functions.items():
                for c in gd.walk():
                    if c.kind == 'CallExpr' and c.callee():
                        self._callers.setdefault(c.callee(), []).append(c)
        return self._callers.get(fname, [])

    def local_decl(self, fd, ref):
        if ref.ref_kind not in ('VarDecl', 'ParmVarDecl'):
            return None
        for d in fd.walk():
            if d.kind in ('VarDecl', 'ParmVarDecl') and d.id == ref.ref_id:
                return d
        return None

    def trace(self, call, stop_fns=()):
        """terminals of the value of the expression node `call`; raises Unknown when the value goes somewhere this relation does not describe"""
        out = []
        self.steps = 0
        self._flow(call, (), (), set(), out, frozenset(stop_fns))
        return out

    def _var_flow(self, fd, var, chain, stack, seen, out, stop):
        k = ('v', var.id, chain, stack)
        if k in seen:
            return
        seen.add(k)
        T = ctype(var.dtype)
        if T[0] != 'f':
            raise Unknown('the value is held in `%s` of type %s' % (var.name, var.dtype))
        for r in self.reads(fd, var.id):
            self._flow(r, chain, stack, seen, out, stop)

    def _flow(self, x, chain, stack, seen, out, stop):
        self.steps += 1
        if self.steps > LIMIT:
            raise Unknown('the flow of the folded value has more than %d steps' % LIMIT)
        fd = self.fn_of(x)
        while True:
            p = x.parent
            if p is None:
                raise Unknown('the value leaves the syntax tree')
            k = p.kind
            if k == 'ParenExpr':
                x = p; continue
            if k in ('ImplicitCastExpr', 'CStyleCastExpr'):
                ck = p.cast_kind
                if ck in PASS_CASTS:
                    x = p; continue
                if ck == 'FloatingCast':
                    T = ctype(p.dtype)
                    if T[0] != 'f':
                        raise Unknown('floating conversion to %s' % p.dtype)
                    chain = chain + (T,); x = p; continue
                if ck == 'FloatingToIntegral':
                    out.append(Terminal('to-int', p, chain, ctype(p.dtype), 'conversion to %s' % p.dtype, fd)); return
                if ck == 'FloatingToBoolean':
                    out.append(Terminal('truth', p, chain, None, 'conversion to _Bool', fd)); return
                if ck == 'ToVoid':
                    return
                raise Unknown('conversion %s of the folded value' % ck)
            if k == 'UnaryOperator':
                if p.opcode in ('-', '+'):
                    x = p; continue
                if p.opcode == '!':
                    out.append(Terminal('truth', p, chain, None, 'operand of !', fd)); return
                if p.opcode == '&':
                    # the address of the object that holds the value is taken (memcpy(&f, ...)): its bytes are what is used
                    T = ctype(x.dtype)
                    if T[0] != 'f':
                        raise Unknown('address of an object of type %s' % x.dtype)
                    out.append(Terminal('store', p, chain, T, 'object of type %s whose address is taken' % x.dtype, fd)); return
                raise Unknown('operand of unary %s' % p.opcode)
            if k == 'ConditionalOperator':
                if x is p.inner[0]:
                    out.append(Terminal('truth', p, chain, None, 'condition of ?:', fd)); return
                x = p; continue
            if k in ('IfStmt', 'WhileStmt', 'DoStmt', 'ForStmt'):
                if k == 'IfStmt' and x is not p.inner[0]:
                    return        # an expression statement that is the body
                out.append(Terminal('truth', p, chain, None, 'controlling expression', fd)); return
            if k in ('CompoundStmt', 'LabelStmt', 'CaseStmt', 'DefaultStmt', 'SwitchStmt', 'UnaryExprOrTypeTraitExpr'):
                return            # value discarded / operand of sizeof: not evaluated
            if k == 'CompoundAssignOperator':
                if x is p.inner[1]:
                    out.append(Terminal('arith', p, chain, None, 'operand of %s' % p.opcode, fd)); return
                raise Unknown('target of %s' % p.opcode)
            if k == 'BinaryOperator':
                op = p.opcode
                if op in CMP:
                    out.append(Terminal('compare', p, chain, None, 'operand of %s' % op, fd)); return
                if op in ('&&', '||'):
                    out.append(Terminal('truth', p, chain, None, 'operand of %s' % op, fd)); return
                if op in ARITH:
                    out.append(Terminal('arith', p, chain, None, 'operand of %s' % op, fd)); return
                if op == ',':
                    if x is p.inner[1]:
                        x = p; continue
                    return
                if op == '=' and x is p.inner[1]:
                    l = p.inner[0].strip()
                    T = ctype(l.dtype)
                    if l.kind == 'DeclRefExpr':
                        var = self.local_decl(fd, l)
                        if var is not None:
                            self._var_flow(fd, var, chain, stack, seen, out, stop)
                            # the assignment expression itself has the value too
                            x = p; continue
                        what = 'global %s' % l.ref_name
                    elif l.kind == 'MemberExpr':
                        what = 'field %s' % l.name
                    elif l.kind == 'UnaryOperator' and l.opcode == '*':
                        what = 'object of type %s behind a pointer' % l.dtype
                    elif l.kind == 'ArraySubscriptExpr':
                        what = 'element of type %s' % l.dtype
                    else:
                        raise Unknown('assignment to %s' % l.kind)
                    if T[0] != 'f':
                        raise Unknown('assignment to a %s of type %s without a conversion' % (what, l.dtype))
                    out.append(Terminal('store', p, chain, T, what, fd)); return
                raise Unknown('operand of %s' % op)
            if k == 'VarDecl':
                self._var_flow(fd, p, chain, stack, seen, out, stop)
                return
            if k == 'ReturnStmt':
                if fd.name in stop:
                    return
                if stack:
                    self._flow(stack[-1], chain, stack[:-1], seen, out, stop)
                    return
                kk = ('r', fd.name, chain)
                if kk in seen:
                    return
                seen.add(kk)
                cs = [c for c in self.callers(fd.name) if self.fn_of(c).name not in stop]
                if not cs and not self.callers(fd.name):
                    raise Unknown('%s returns the value and has no caller in the unit' % fd.name)
                for c in cs:
                    self._flow(c, chain, (), seen, out, stop)
                return
            if k == 'CallExpr':
                if x is p.inner[0]:
                    raise Unknown('the value is called')
                g = p.callee()
                i = p.inner.index(x) - 1
                gd = self.u.functions.get(g) if g else None
                has_body = gd is not None and any(c.kind == 'CompoundStmt' for c in gd.inner)
                if not has_body:
                    T = ctype(x.dtype)
                    if T[0] != 'f':
                        raise Unknown('argument of %s' % (g or 'an indirect call'))
                    out.append(Terminal('store', p, chain, T, 'argument of %s' % (g or 'an indirect call'), fd)); return
                if g in stop:
                    return
                ps = [c for c in gd.inner if c.kind == 'ParmVarDecl']
                if i >= len(ps):
                    raise Unknown('variadic argument of %s' % g)
                if len(stack) > 6 or any(s is p for s in stack):
                    raise Unknown('recursion through %s' % g)
                self._var_flow(gd, ps[i], chain, stack + (p,), seen, out, stop)
                return
            raise Unknown('the value is used by a %s' % k)
