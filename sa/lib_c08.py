"""Private helpers of sa/rules/c08.py.

1. Terms -> python: the opaque integer terms Engine I produces (Sym / Lin / Term, or
   their structural keys as stored in ctx.facts) are compiled into python functions
   with C semantics, so that a symbolic path summary can be *evaluated* on a grid of
   concrete layouts and compared with the psABI step function as a function, not as a
   piece of syntax (an equivalent rewrite of a formula is not an alarm).
2. StepInterp: Engine I with one loop of the analysed function treated as
   "havoc, one generic iteration" (step mode) or "havoc, leave" (exit mode).
"""
from .interp import (Interp, Obj, Sym, Term, Lin, View, Infeasible, NoReturn, vkey, is_opaque,
                     _Break, _Continue)
from .build import AnalysisBroken


class Uninterpretable(Exception):
    """a summary contains something the evaluator has no C semantics for"""


def _cdiv(a, b):
    q = abs(a) // abs(b)
    return q if (a >= 0) == (b >= 0) else -q


def _cmod(a, b):
    return a - _cdiv(a, b) * b


_BIN = {'+': '(%s + %s)', '-': '(%s - %s)', '*': '(%s * %s)', '/': '_cdiv(%s, %s)', '%': '_cmod(%s, %s)',
        '<<': '(%s << %s)', '>>': '(%s >> %s)', '&': '(%s & %s)', '|': '(%s | %s)', '^': '(%s ^ %s)',
        '<': 'int(%s < %s)', '<=': 'int(%s <= %s)', '>': 'int(%s > %s)', '>=': 'int(%s >= %s)',
        '==': 'int(%s == %s)', '!=': 'int(%s != %s)'}
_WIDE = ('int', 'unsigned int', 'long', 'unsigned long', 'long long', 'unsigned long long', 'size_t')


def _src(k, syms):
    if isinstance(k, bool):
        return str(int(k))
    if isinstance(k, int):
        return '(%d)' % k
    if not isinstance(k, tuple) or not k:
        raise Uninterpretable('value %r' % (k,))
    tag = k[0]
    if tag == 'sym':
        syms.add(k[1])
        return 'e[%r]' % k[1]
    if tag == 'lin':
        parts = ['(%d)' % k[1]]
        for sub, coef in k[2:]:
            parts.append('(%d) * %s' % (coef, _src(sub, syms)))
        return '(' + ' + '.join(parts) + ')'
    if tag == 'term':
        op = k[1]
        a = k[2:]
        if ':' in op and not op.startswith('cast:') and op.rsplit(':', 1)[1].isdigit():
            op = op.rsplit(':', 1)[0]        # '/:32' = done in a 32-bit C type; grid values never wrap
        if op in _BIN and len(a) == 2:
            return _BIN[op] % (_src(a[0], syms), _src(a[1], syms))
        if op == '!' and len(a) == 1:
            return 'int(not %s)' % _src(a[0], syms)
        if op == 'neg' and len(a) == 1:
            return '(-%s)' % _src(a[0], syms)
        if op == '~' and len(a) == 1:
            return '(~%s)' % _src(a[0], syms)
        if op.startswith('cast:') and len(a) == 1 and op[5:].replace('const ', '').strip() in _WIDE:
            return _src(a[0], syms)      # values on the grid are far below 2^31
        raise Uninterpretable('operator %s/%d' % (op, len(a)))
    raise Uninterpretable('value %r' % (k,))


class Fn:
    """compiled term: .f(env) -> int, .syms = symbols it reads, .text = readable form"""

    def __init__(self, value):
        k = value if isinstance(value, (tuple, int)) else vkey(value)
        self.key = k
        self.syms = set()
        src = _src(k, self.syms)
        self.text = show_key(k)
        self.f = eval('lambda e: ' + src, {'_cdiv': _cdiv, '_cmod': _cmod})

    def __call__(self, e):
        return self.f(e)


def show_key(k):
    if isinstance(k, int):
        return str(k)
    if not isinstance(k, tuple):
        return repr(k)
    if k[0] == 'sym':
        return k[1]
    if k[0] == 'lin':
        ps = []
        for sub, coef in k[2:]:
            ps.append(show_key(sub) if coef == 1 else '%d*%s' % (coef, show_key(sub)))
        if k[1] or not ps:
            ps.append(str(k[1]))
        return '(' + ' + '.join(ps) + ')'
    if k[0] == 'term':
        a = k[2:]
        if len(a) == 2:
            return '(%s %s %s)' % (show_key(a[0]), k[1], show_key(a[1]))
        return '%s(%s)' % (k[1], ', '.join(show_key(x) for x in a))
    return repr(k)


class Summary:
    """one path of a step: guard (facts that must hold) + outputs, all compiled"""

    def __init__(self, ctx, outputs, trail=None):
        self.guards = []
        for k, truth in ctx.facts.items():
            self.guards.append((Fn(k), bool(truth)))
        # interval / disequality facts the interpreter keeps outside ctx.facts are
        # consequences of comparisons that are also in ctx.facts; nothing else to add
        self.out = {}
        for name, v in outputs.items():
            self.out[name] = None if v is None else Fn(v)
        self.trail = list(trail if trail is not None else ctx.trail)

    def syms(self):
        s = set()
        for g, _ in self.guards:
            s |= g.syms
        for f in self.out.values():
            if f is not None:
                s |= f.syms
        return s

    def applies(self, e):
        for g, truth in self.guards:
            if bool(g(e)) != truth:
                return False
        return True


def select(summaries, e):
    """the unique summary whose guard holds at e (None if none; raises if several)"""
    hit = None
    for s in summaries:
        if s.applies(e):
            if hit is not None:
                # two paths with the same guard valuation: they must agree, else the
                # summary is not a function of the modelled inputs
                same = all((s.out[k] is None) == (hit.out[k] is None) and (s.out[k] is None or s.out[k](e) == hit.out[k](e))
                           for k in hit.out)
                if not same:
                    raise Uninterpretable('two paths apply to the same layout state and disagree')
                continue
            hit = s
    return hit


# --------------------------------------------------------------------------------
def int_locals_written_in(fn, loop):
    """VarDecl nodes of integer type declared in fn outside `loop` that the loop
    assigns, increments, or passes by address"""
    inside = set()
    for n in loop.walk():
        inside.add(id(n))
    decls = {}
    for n in fn.walk():
        if n.kind == 'VarDecl' and id(n) not in inside and n.d.get('storageClass') != 'static':
            t = (n.dtype or n.type or '').replace('const ', '').strip()
            if t in ('int', 'long', 'unsigned int', 'unsigned long', 'unsigned', 'short', 'long long', 'size_t'):
                decls[n.id] = n
    hit = {}
    for n in loop.walk():
        tgt = None
        if n.kind in ('BinaryOperator', 'CompoundAssignOperator') and (n.opcode == '=' or n.kind == 'CompoundAssignOperator'):
            tgt = n.inner[0].strip()
        elif n.kind == 'UnaryOperator' and n.opcode in ('++', '--', '&'):
            tgt = n.inner[0].strip()
        if tgt is not None and tgt.kind == 'DeclRefExpr' and tgt.ref_id in decls:
            hit[tgt.ref_id] = decls[tgt.ref_id]
    return hit


def find_member_loop(fn):
    """the loop of fn that walks a `Member *` list: (loop node) or None / 'many'"""
    found = []
    for n in fn.walk():
        if n.kind not in ('ForStmt', 'WhileStmt', 'DoStmt'):
            continue
        # condition mentions a Member* variable
        conds = [c for c in n.inner if c.kind not in ('CompoundStmt', 'DeclStmt')]
        ok = False
        for c in n.inner:
            if c.kind == 'CompoundStmt':
                continue
            for x in c.walk():
                if x.kind == 'DeclRefExpr' and (x.dtype or x.type or '').replace('struct ', '').replace(' ', '') == 'Member*':
                    ok = True
        if ok:
            found.append(n)
    # keep outermost ones only
    outer = [n for n in found if not any(a in found for a in n.ancestors())]
    return outer


class Budgeted(Interp):
    """Engine I with a CPU budget: `deadline` is a time.process_time() value (CPU, so machine load does not
    turn a fast exploration into an undecided one); past it the exploration ends with AnalysisBroken, i.e.
    undecided, never a hang and never a verdict"""
    deadline = None

    def set_budget(self, seconds):
        import time
        self.deadline = time.process_time() + seconds

    def call_fn(self, unit, fn, args):
        if self.deadline is not None:
            import time
            if time.process_time() > self.deadline:
                raise AnalysisBroken('exploration budget exceeded in %s()' % fn.name)
        return Interp.call_fn(self, unit, fn, args)


class GuardInterp(Budgeted):
    """Engine I that records the outcome of a `switch` on an opaque value as path facts. The base class narrows the
    interval of the value for the chosen `case` and records nothing for `default`, so a Summary built from ctx.facts
    would apply to states the path was not taken for; here `v == x` (case) / `v != x` for every label (default) become
    facts, which Summary compiles into the guard like the comparisons of `if`."""

    def pick_arm(self, v, arms, cond):
        if isinstance(v, View):
            v = self.settle(v)
        if isinstance(v, (View, int)) or not is_opaque(v):
            return Interp.pick_arm(self, v, arms, cond)
        ctx = self.ctx
        k = vkey(v)
        b = ctx.bounds.get(k)
        default, opts, labels = None, [], []
        for idx, vals, is_def in arms:
            if is_def:
                default = idx
            for x in vals:
                labels.append(x)
                if b is None or (b[0] <= x <= b[1]):
                    opts.append((idx, x))
        opts.append((default, None))
        i = ctx.choose(len(opts), 'switch ' + cond.src())
        idx, x = opts[i]
        if x is not None:
            ctx.bounds[k] = [x, x]
            ctx.facts[('term', '==', k, x)] = True
            ctx.note('%s == %d' % (cond.src(), x))
        else:
            for y in labels:
                ctx.facts[('term', '==', k, y)] = False
            ctx.note('%s -> default' % cond.src())
        return idx


class StepInterp(Budgeted):
    """Engine I where the loop `target` is not iterated from its concrete entry state:
       mode 'step': integer locals the loop writes are replaced by fresh symbols (havoc),
                    `on_entry(it, env)` installs the symbolic pre-state on the heap,
                    the condition is assumed true, the body runs once and the path ends
                    with outcome ('noreturn', '__step__', [post], line);
       mode 'exit': same havoc, then execution continues after the loop."""

    def __init__(self, program, unit, cfg, target, havoc, mode, on_entry, snapshot):
        Interp.__init__(self, program, unit, cfg)
        self.target = target
        self.havoc = havoc            # {decl id: symbol name}
        self.mode = mode
        self.on_entry = on_entry
        self.snapshot = snapshot
        self.reached = 0

    def exec_loop(self, s, _u, cond, inc, body, env):
        if s.id != self.target.id:
            return Interp.exec_loop(self, s, _u, cond, inc, body, env)
        self.reached += 1
        self.ctx.c08_reached = True
        for vid, name in self.havoc.items():
            if vid in env:
                env[vid] = Sym(name, 'int')
        self.on_entry(self, env)
        if self.mode == 'exit':
            return
        if cond is not None:
            if not self.truth(self.eval(cond, env), cond):
                raise Infeasible('loop not entered')
        broke = False
        try:
            self.exec(body, env)
        except _Continue:
            pass
        except _Break:
            broke = True
        post = self.snapshot(self, env)
        post['__broke__'] = broke
        raise NoReturn('__step__', [post], s.line)

    def exec_do(self, s, env):
        if s.id == self.target.id:
            raise AnalysisBroken('member loop is a do-while: not modelled')
        return Interp.exec_do(self, s, env)


class IterInterp(Budgeted):
    """Engine I where the loops named in `deep` (node ids) get `deep_limit` generic iterations and
    every other loop `loop_limit`: a property of the 2nd pass through one loop (state that survives
    an iteration) is explored without squaring the paths of all the other loops"""
    deep = frozenset()
    deep_limit = 2

    def _with_limit(self, s, f, *a):
        old = self.loop_limit
        self.loop_limit = self.deep_limit if s.id in self.deep else old
        try:
            return f(self, *a)
        finally:
            self.loop_limit = old

    def exec_loop(self, s, _u, cond, inc, body, env):
        return self._with_limit(s, Interp.exec_loop, s, _u, cond, inc, body, env)

    def exec_do(self, s, env):
        return self._with_limit(s, Interp.exec_do, s, env)


def enclosing_loops(node, root):
    """ids of the loops of `root` that contain `node`"""
    out = set()
    for a in node.ancestors():
        if a is root:
            break
        if a.kind in ('ForStmt', 'WhileStmt', 'DoStmt'):
            out.add(a.id)
    return out


def generic_args(u, fname, ref_types=('Token **',)):
    """argument builder for Interp.explore: out-parameters become places, pointers to records lazy objects"""
    from .interp import _Ref, _ValPlace
    params = u.params(fname)

    def mk(ctx):
        out = []
        for p in params:
            t = ' '.join((p.type or '').split())
            if t in ref_types:
                out.append(_Ref(_ValPlace(0)))
            elif t.endswith('*') and t[:-1].replace('struct ', '').strip() in u.records:
                out.append(Obj(t[:-1].replace('struct ', '').strip(), lazy=True, label=p.name))
            else:
                out.append(Sym('arg.' + (p.name or '?')))
        return out
    return mk


def may_write_through(u, fname, pidx, _seen=None):
    """may function `fname` (of unit u) modify the object its pidx-th parameter points to?
    False only when every use of the parameter is a null test, a read of one of its fields, or an
    argument of a call for which the same holds; anything else (unknown callee, store through it,
    address of a field, copy into another variable) answers True."""
    _seen = _seen if _seen is not None else set()
    if (fname, pidx) in _seen:
        return False            # recursion: judged by the other uses
    _seen.add((fname, pidx))
    fn = u.fn(fname)
    if fn is None:
        return True
    ps = [c for c in fn.inner if c.kind == 'ParmVarDecl']
    if pidx >= len(ps):
        return True
    pid = ps[pidx].id
    for n in fn.walk():
        if n.kind != 'DeclRefExpr' or n.ref_id != pid:
            continue
        x = n
        par = x.parent
        while par is not None and par.kind in ('ImplicitCastExpr', 'ParenExpr'):
            x, par = par, par.parent
        if par is None:
            return True
        if par.kind == 'MemberExpr':
            # attr->f : a write if it is the target of an assignment / ++ / & , possibly through parens
            y, q = par, par.parent
            while q is not None and q.kind == 'ParenExpr':
                y, q = q, q.parent
            if q is None:
                return True
            if q.kind in ('BinaryOperator', 'CompoundAssignOperator') and (q.kind == 'CompoundAssignOperator' or q.opcode == '=') and q.inner[0] is y:
                return True
            if q.kind == 'UnaryOperator' and q.opcode in ('++', '--', '&'):
                return True
            if q.kind == 'MemberExpr' or q.kind == 'ArraySubscriptExpr':
                return True     # nested aggregate: not modelled
            continue
        if par.kind == 'UnaryOperator' and par.opcode == '!':
            continue
        if par.kind == 'BinaryOperator' and par.opcode in ('&&', '||', '==', '!='):
            continue
        if par.kind in ('IfStmt', 'ConditionalOperator', 'WhileStmt', 'ForStmt') and par.inner and par.inner[0] is x:
            continue
        if par.kind == 'CallExpr':
            args = par.args()
            idx = [i for i, a in enumerate(args) if a is x]
            if not idx or par.callee() is None:
                return True
            if may_write_through(u, par.callee(), idx[0], _seen):
                return True
            continue
        return True
    return False


# --------------------------------------------------------------------------------
# bundled headers: object layout of the types they define (LP64 / psABI 3.1.2)
# --------------------------------------------------------------------------------
class HeaderTypes:
    """The typedefs / records / enums a bundled header declares (read through clang's AST, never from text) and
    their object layout under the psABI: .layout(typedef name) -> {'size','align','cls','unsigned','fields'|'elem','n'}.
    cls: 'int' 'float' 'bool' 'void' 'ptr' 'enum' 'struct' 'union' 'array'. Anything the oracle has no rule for
    (bit-fields, attributes, vector / 128-bit types, invalid declarations) raises Uninterpretable."""

    def __init__(self, path, scalar, tolerate_errors=False):
        import json, os, subprocess
        self.scalar = scalar             # spelled arithmetic type -> (class, size, align, unsigned) | None
        p = subprocess.run(['clang-14', '-x', 'c', '-std=c11', '-w', '-nostdinc', '-fsyntax-only', '-Xclang', '-ast-dump=json', path],
                           capture_output=True, text=True)
        if p.returncode != 0 and not tolerate_errors:
            raise AnalysisBroken('clang failed on %s: %s' % (path, p.stderr[-300:]))
        try:
            top = json.loads(p.stdout)
        except ValueError:
            raise AnalysisBroken('clang produced no AST for %s: %s' % (path, p.stderr[-300:]))
        self.typedefs, self.records, self.tags, self.enums, self.lines = {}, {}, {}, set(), {}
        real = os.path.realpath(path)
        cur, line = None, 0
        for d in top.get('inner', []):
            loc = d.get('loc', {})
            f = loc.get('file') or (loc.get('expansionLoc') or {}).get('file')
            if f:
                cur = f
            if loc.get('line'):
                line = loc['line']
            k = d.get('kind')
            if k == 'RecordDecl':
                self.records[d.get('id')] = d
                if d.get('name') and d.get('completeDefinition'):
                    self.tags[(d.get('tagUsed', 'struct'), d['name'])] = d
            elif k == 'EnumDecl':
                if d.get('name'):
                    self.enums.add(d['name'])
            elif k == 'TypedefDecl' and not d.get('isImplicit'):
                self.typedefs[d.get('name')] = d
                if cur and os.path.realpath(cur) == real:
                    self.lines[d.get('name')] = line
        self._memo = {}

    def own(self):
        """names of the typedefs written in the header itself, in order"""
        return list(self.lines)

    # -- layout ------------------------------------------------------------------
    def layout(self, name):
        if name in self._memo:
            if self._memo[name] is None:
                raise Uninterpretable('typedef %s is defined in terms of itself' % name)
            return self._memo[name]
        d = self.typedefs.get(name)
        if d is None:
            raise Uninterpretable('no typedef %s' % name)
        if d.get('isInvalid'):
            raise Uninterpretable('clang rejects the declaration of %s' % name)
        self._memo[name] = None
        try:
            own = None
            for n in self._walk(d):
                o = n.get('ownedTagDecl')
                if o and o.get('id') in self.records and n is not d:
                    own = self.records[o['id']]
                    break
            t = d.get('type', {})
            inner = [c for c in d.get('inner', []) if c.get('kind', '').endswith('Type')]
            if own is not None and inner and inner[0].get('kind') == 'ElaboratedType':
                r = self._record(own)        # typedef struct {...} T;
            else:
                r = self._spelled(t.get('qualType'), t.get('desugaredQualType'), exclude=name)
        except Exception:
            del self._memo[name]
            raise
        self._memo[name] = r
        return r

    def _walk(self, d):
        yield d
        for c in d.get('inner', []) or []:
            for x in self._walk(c):
                yield x

    def _record(self, d):
        if d.get('isInvalid') or not d.get('completeDefinition'):
            raise Uninterpretable('record is incomplete or rejected by clang')
        union = d.get('tagUsed') == 'union'
        off = size = 0
        align = 1
        fields = []
        for c in d.get('inner', []) or []:
            k = c.get('kind', '')
            if k.endswith('Attr'):
                raise Uninterpretable('record carries %s' % k)
            if k in ('RecordDecl', 'EnumDecl'):
                continue
            if k != 'FieldDecl':
                raise Uninterpretable('record contains a %s' % k)
            if c.get('isBitfield') or c.get('isInvalid') or any((x.get('kind') or '').endswith('Attr') for x in c.get('inner', []) or []):
                raise Uninterpretable('field %s is a bit-field, carries an attribute or is rejected by clang' % c.get('name'))
            t = c.get('type', {})
            l = self._spelled(t.get('qualType'), t.get('desugaredQualType'))
            if l['size'] is None:
                raise Uninterpretable('field %s has an incomplete type' % c.get('name'))
            if union:
                fields.append((c.get('name'), 0, l))
                size = max(size, l['size'])
            else:
                off = (off + l['align'] - 1) // l['align'] * l['align']
                fields.append((c.get('name'), off, l))
                off += l['size']
                size = off
            align = max(align, l['align'])
        size = (size + align - 1) // align * align
        return {'size': size, 'align': align, 'cls': 'union' if union else 'struct', 'unsigned': None, 'fields': fields}

    _QUALS = ('const', 'volatile', 'restrict', '__restrict', '_Atomic')

    def _spelled(self, t, desugared=None, exclude=None):
        import re
        t = ' '.join((t or '').split())
        if not t:
            raise Uninterpretable('declaration without a type')
        m = re.match(r'^_Atomic\((.*)\)$', t)
        if m:
            return self._spelled(m.group(1), None, exclude)
        if t.endswith(']'):
            i = t.index('[')
            if '(' in t[:i]:
                raise Uninterpretable('declarator `%s`' % t)
            dims = re.findall(r'\[([^\]]*)\]', t[i:])
            e = self._spelled(t[:i], None, exclude)
            n = 1
            for x in dims:
                if x.strip() == '':
                    n = 0
                elif x.strip().isdigit():
                    n *= int(x)
                else:
                    raise Uninterpretable('array bound `%s`' % x)
            if e['size'] is None:
                raise Uninterpretable('array of an incomplete type')
            return {'size': e['size'] * n, 'align': e['align'], 'cls': 'array', 'unsigned': None, 'elem': e, 'n': n}
        if '(*' in t or t.endswith('*') or any(t.endswith('* ' + q) or t.endswith('*' + q) for q in self._QUALS):
            return {'size': 8, 'align': 8, 'cls': 'ptr', 'unsigned': 1}
        if '(' in t:
            raise Uninterpretable('type `%s`' % t)
        words = [w for w in t.split() if w not in self._QUALS]
        t = ' '.join(words)
        if t in self.typedefs and t != exclude:
            return self.layout(t)
        if words and words[0] in ('struct', 'union') and len(words) == 2:
            d = self.tags.get((words[0], words[1]))
            if d is None:
                raise Uninterpretable('`%s` is not defined in the header' % t)
            return self._record(d)
        if words and words[0] == 'enum':
            return {'size': 4, 'align': 4, 'cls': 'enum', 'unsigned': None}
        a = self.scalar(t)
        if a is not None:
            return {'size': a[1], 'align': a[2], 'cls': a[0], 'unsigned': a[3]}
        if desugared and ' '.join(desugared.split()) != t:
            return self._spelled(desugared, None, exclude)
        raise Uninterpretable('type `%s`' % t)


def leaves(l, base=0, cap=64):
    """scalar leaves of a layout as [(byte offset, size, cls)], arrays expanded (at most `cap` leaves)"""
    out = []
    if l['cls'] in ('struct', 'union'):
        for _n, off, f in l['fields']:
            out += leaves(f, base + off, cap)
    elif l['cls'] == 'array':
        for i in range(l['n']):
            out += leaves(l['elem'], base + i * l['elem']['size'], cap)
            if len(out) > cap:
                raise Uninterpretable('aggregate with more than %d scalar members' % cap)
    else:
        out.append((base, l['size'], l['cls']))
    if len(out) > cap:
        raise Uninterpretable('aggregate with more than %d scalar members' % cap)
    return out


# --------------------------------------------------------------------------------
# ownership of type objects: which objects may a function modify?
# --------------------------------------------------------------------------------
FRESH, SHARED, TAG, UNKNOWN, SHALLOW = 'fresh', 'shared', 'tag', 'unknown', 'shallow-copy'


def _norm_t(t):
    return ' '.join((t or '').replace('const ', ' ').replace('volatile ', ' ').replace('struct ', ' ').replace('*', ' * ').split())


class Ownership:
    """Flow-sensitive may-provenance of the pointers a function stores through, over clang's AST of every unit.

    A pointer value is described by a set of atoms: FRESH (an object this activation allocated: calloc/malloc, the result of a
    function that only returns such objects, or the address of a local), ('param', i) (what the i-th parameter pointed to on entry,
    or something reached from it), TAG (the object a tag lookup `&scope->tags` yields: the struct/union type a definition completes),
    SHARED (anything else: a global, the value of a `Type *` field, the result of any other call), UNKNOWN (what a local whose address
    was taken, or the target of a pointer to a pointer, holds: not tracked), SHALLOW (an object this activation - or a function that
    only returns such objects - allocated and then filled by a whole-object copy `*new = *old` / memcpy: the object itself is new,
    but what its pointer fields lead to still belongs to the original, so a load of an owned pointer - the member list - from it
    yields SHARED; once that pointer field has been given a FRESH value the object counts as FRESH). A local `P **` (P protected)
    that only ever receives `&obj->field` of protected objects is tracked as the set of objects it points into: `*pp` is a load
    from, `*pp = v` a store into, those objects. Assignments to locals are strong
    updates, control flow joins by union, loops run to a fixpoint. A load of a pointer to a protected record yields SHARED when the
    pointee is `share_loads` (type objects form a shared graph) and the provenance of the object loaded from otherwise (a member list
    belongs to its type object). Per function the analysis yields
      .stores[(unit, fn)]  = [(record, field | '*', atoms, line)]     stores into objects of a protected record
      .ret[(unit, fn)]     = atoms of the values it returns
      .writes[(unit, fn)]  = {param index: {(record, field)}} objects reached from a parameter that it (or a callee) modifies
      .calls[(unit, fn)]   = [(callee, param index, {(record, field)}, atoms of the argument, line)] for such callees
    computed as a fixpoint over all functions (recursion included)."""

    ALLOC = ('calloc', 'malloc')
    WHOLE = ('memcpy', 'memset', 'memmove')

    def __init__(self, units, protected, share_loads, tag_field='tags', skip_fields=()):
        self.units = units
        self.protected = set(protected)
        self.share_loads = set(share_loads)
        self.tag_field = tag_field
        self.skip = set(skip_fields)
        self.fns = {}                 # (unit name, function name) -> (unit, FunctionDecl); a name may be defined (static) in several units
        self.by_name = {}
        for u in units:
            for name, fd in u.functions.items():
                self.fns[(u.name, name)] = (u, fd)
                self.by_name.setdefault(name, []).append((u.name, name))
        self.owned_fields = {}        # protected record -> names of its fields that point to an owned (not share_loads) protected record
        for u in units:
            for r, fs in u.records.items():
                if r in self.protected and r not in self.owned_fields:
                    own = []
                    for f, t, _b in fs:
                        w = _norm_t(t).split()
                        if len(w) == 2 and w[1] == '*' and w[0] in self.protected and w[0] not in self.share_loads:
                            own.append(f)
                    self.owned_fields[r] = own
        self.ret = {f: frozenset() for f in self.fns}
        self.writes = {f: {} for f in self.fns}
        self.stores, self.calls, self.gaps = {}, {}, {}
        self.rounds = 0
        for _ in range(40):
            self.rounds += 1
            self.changed = False
            for (un, name), (u, fd) in self.fns.items():
                self._function(u, name, fd)
            if not self.changed:
                break
        else:
            raise AnalysisBroken('ownership summaries of the functions do not stabilise')

    def resolve(self, unit_name, name):
        """key of the definition a call to `name` from `unit_name` reaches (its own unit's first), None if it is not defined in the program"""
        if (unit_name, name) in self.fns:
            return (unit_name, name)
        c = self.by_name.get(name)
        return c[0] if c else None

    # -- types ---------------------------------------------------------------------
    def _pointee(self, n):
        """protected record a pointer-typed expression points to, else None"""
        for t in (n.type, n.dtype):
            w = _norm_t(t).split()
            if len(w) == 2 and w[1] == '*' and w[0] in self.protected:
                return w[0]
        return None

    def _record(self, n):
        for t in (n.type, n.dtype):
            w = _norm_t(t)
            if w in self.protected:
                return w
        return None

    @staticmethod
    def _is_ptr(n):
        return _norm_t(n.dtype or n.type).endswith('*')

    # -- one function ----------------------------------------------------------------
    def _function(self, u, name, fd):
        self.cur = (u.name, name)
        self.locals = {}
        params = [c for c in fd.inner if c.kind == 'ParmVarDecl']
        for n in fd.walk():
            if n.kind == 'VarDecl' and n.d.get('storageClass') not in ('static', 'extern'):
                self.locals[n.id] = n
        st = {}
        for i, p in enumerate(params):
            self.locals[p.id] = p
            if self._is_ptr(p):
                st[p.id] = frozenset([('param', i)])
        self.pidx = {p.id: i for i, p in enumerate(params)}
        self.escaped = set()
        for n in fd.walk():
            if n.kind == 'UnaryOperator' and n.opcode == '&':
                x = n.inner[0].strip()
                if x.kind == 'DeclRefExpr' and x.ref_id in self.locals and self._is_ptr(x):
                    self.escaped.add(x.ref_id)
        self.pp, tracked_addr = self._pp_locals(fd, params)
        self.escaped = set()
        for n in fd.walk():
            if n.kind == 'UnaryOperator' and n.opcode == '&' and id(n) not in tracked_addr:
                x = n.inner[0].strip()
                if x.kind == 'DeclRefExpr' and x.ref_id in self.locals and self._is_ptr(x):
                    self.escaped.add(x.ref_id)
        body = [c for c in fd.inner if c.kind == 'CompoundStmt']
        self.labels = {}
        has_goto = any(n.kind in ('GotoStmt', 'LabelStmt', 'IndirectGotoStmt') for n in fd.walk())
        for _ in range(20 if has_goto else 1):
            self.f_stores, self.f_calls, self.f_gaps = {}, {}, {}
            self.f_ret = set()
            self.f_writes = {}
            self.frames = []
            before = dict(self.labels)
            self._exec(body[0], dict(st))
            if self.labels == before:
                break
        else:
            raise AnalysisBroken('label states of %s() do not stabilise' % name)
        self.stores[self.cur] = list(self.f_stores.values())
        self.calls[self.cur] = list(self.f_calls.values())
        self.gaps[self.cur] = list(self.f_gaps.values())
        r = frozenset(self.f_ret) | self.ret[self.cur]
        if r != self.ret[self.cur]:
            self.ret[self.cur] = r
            self.changed = True
        w = self.writes[self.cur]
        for i, fields in self.f_writes.items():
            if not fields <= w.get(i, set()):
                w[i] = w.get(i, set()) | fields
                self.changed = True

    def _pp_of(self, n):
        """protected record P when the expression has type `P **`"""
        for t in (n.type, n.dtype):
            w = _norm_t(t).split()
            if len(w) == 3 and w[1] == '*' and w[2] == '*' and w[0] in self.protected:
                return w[0]
        return None

    def _pp_locals(self, fd, params):
        """{local id: {(record, field) | ('local', id)}} for the locals of type `P **` whose every assigned value is `&x->field` /
        `&x.field` of a protected record x, or `&v` of a local `P *v` (flow-insensitive; parameters and anything else: not in the
        map = not tracked); and the ids of the `&v` nodes accepted that way (v is then updated by stores through the `P **`)"""
        cands = {}
        addr = {}
        for n in fd.walk():
            if n.kind == 'VarDecl' and n.id in self.locals and self._pp_of(n):
                cands[n.id] = set()
        pids = set(p.id for p in params)
        def src(var, e):
            if var not in cands or cands[var] is None:
                return
            x = e.strip_all()
            ok = False
            if x.kind == 'UnaryOperator' and x.opcode == '&':
                m = x.inner[0].strip()
                if m.kind == 'MemberExpr':
                    b = m.inner[0]
                    rec = (self._pointee(b.strip()) or self._pointee(b)) if m.d.get('isArrow') else self._record(b.strip())
                    if rec:
                        cands[var].add((rec, m.name))
                        ok = True
                elif m.kind == 'DeclRefExpr' and m.ref_id in self.locals and m.ref_id not in pids and self._pointee(m) and self.locals[m.ref_id].kind == 'VarDecl':
                    cands[var].add(('local', m.ref_id))
                    addr.setdefault(var, []).append(id(x))
                    ok = True
            if not ok:
                cands[var] = None
        for n in fd.walk():
            if n.kind == 'VarDecl' and n.id in cands and 'init' in n.d and n.inner:
                src(n.id, n.inner[-1])
            elif n.kind == 'BinaryOperator' and n.opcode == '=':
                l = n.inner[0].strip()
                if l.kind == 'DeclRefExpr' and l.ref_id in cands:
                    src(l.ref_id, n.inner[1])
            elif n.kind in ('CompoundAssignOperator',) or (n.kind == 'UnaryOperator' and n.opcode in ('++', '--')):
                l = n.inner[0].strip()
                if l.kind == 'DeclRefExpr' and l.ref_id in cands:
                    cands[l.ref_id] = None
            elif n.kind == 'UnaryOperator' and n.opcode == '&':
                l = n.inner[0].strip()
                if l.kind == 'DeclRefExpr' and l.ref_id in cands:
                    cands[l.ref_id] = None            # its address escapes
        pp = {k: v for k, v in cands.items() if v and k not in pids}
        return pp, set(i for k in pp for i in addr.get(k, []))

    @staticmethod
    def _loaded(obj):
        """provenance of an owned pointer loaded from objects `obj`: what a shallow copy points to belongs to the original"""
        return (obj - frozenset([SHALLOW])) | frozenset([SHARED]) if SHALLOW in obj else obj

    # -- states ------------------------------------------------------------------------
    @staticmethod
    def _join(a, b):
        if a is None:
            return b
        if b is None:
            return a
        out = {}
        for k, v in a.items():
            if isinstance(k, tuple):
                if k in b:                  # a remembered field value survives a join only when both sides remember one
                    out[k] = v | b[k]
            else:
                out[k] = v | b.get(k, frozenset())
        for k, v in b.items():
            if not isinstance(k, tuple) and k not in out:
                out[k] = v
        return out

    # -- remembered values of pointer fields (`x->ty = copy_type(...); x->ty->size = 0;`) ------------------
    def _place(self, n):
        """structural key of a chain local(->|.)field...; None for anything else"""
        n = n.strip()
        if n.kind == 'DeclRefExpr':
            return ('v', n.ref_id) if n.ref_id in self.locals else None
        if n.kind == 'MemberExpr':
            b = self._place(n.inner[0])
            return None if b is None else b + (n.name,)
        return None

    @staticmethod
    def _forget(st, var=None, field=None):
        for k in [k for k in st if isinstance(k, tuple)]:
            if (var is None and field is None) or (var is not None and k[2] == var) or (field is not None and field in k[3:]):
                del st[k]

    def _loop(self, st, cond, inc, body, do=False):
        entry = st
        out = None
        for _ in range(50):
            self.frames.append({'break': None, 'continue': None})
            s = dict(entry)
            if cond is not None and not do:
                self._eval(cond, s)
            after_cond = dict(s)
            s = self._exec(body, s) if body is not None else s
            fr = self.frames.pop()
            s = self._join(s, fr['continue'])
            if s is not None:
                if do and cond is not None:
                    self._eval(cond, s)
                if inc is not None:
                    self._eval(inc, s)
            exit_state = self._join(after_cond if (cond is not None and not do) else None, fr['break'])
            if do and s is not None:
                exit_state = self._join(exit_state, s)
            out = self._join(out, exit_state)
            new_entry = self._join(entry, s)
            if new_entry == entry:
                break
            entry = new_entry
        else:
            raise AnalysisBroken('loop state does not stabilise in %s()' % self.cur[1])
        return out

    def _exec(self, s, st):
        """state after the statement (None: control does not fall through)"""
        k = s.kind
        if st is None and k not in ('CompoundStmt', 'LabelStmt', 'CaseStmt', 'DefaultStmt'):
            if not any(x.kind in ('LabelStmt', 'CaseStmt', 'DefaultStmt') for x in s.walk()):
                return None
            st = {}
        if k == 'CompoundStmt':
            for c in s.inner:
                st = self._exec(c, st)
            return st
        if k == 'DeclStmt':
            for d in s.inner:
                if d.kind == 'VarDecl' and 'init' in d.d and d.inner:
                    v = self._eval(d.inner[-1], st)
                    if d.id in self.locals and self._is_ptr(d):
                        st[d.id] = v
                elif d.kind == 'VarDecl' and d.id in self.locals and self._is_ptr(d):
                    st[d.id] = frozenset()
            return st
        if k == 'IfStmt':
            self._eval(s.inner[0], st)
            a = self._exec(s.inner[1], dict(st))
            b = self._exec(s.inner[2], dict(st)) if len(s.inner) > 2 else st
            return self._join(a, b)
        if k == 'WhileStmt':
            return self._loop(st, s.inner[0], None, s.inner[1])
        if k == 'DoStmt':
            return self._loop(st, s.inner[1], None, s.inner[0], do=True)
        if k == 'ForStmt':
            raw = s.d.get('inner', [])
            it = iter(s.inner)
            slots = [(next(it) if (isinstance(r, dict) and r) else None) for r in raw]
            init, _cv, cond, inc, body = (slots + [None] * 5)[:5]
            if init is not None:
                st = self._exec(init, st) if init.kind.endswith('Stmt') else (self._eval(init, st), st)[1]
            return self._loop(st, cond, inc, body)
        if k == 'SwitchStmt':
            self._eval(s.inner[0], st)
            self.frames.append({'break': None, 'switch': dict(st)})
            out = self._exec(s.inner[-1], None)
            fr = self.frames.pop()
            return self._join(self._join(out, fr['break']), st)
        if k in ('CaseStmt', 'DefaultStmt'):
            sw = None
            for fr in reversed(self.frames):
                if 'switch' in fr:
                    sw = fr['switch']
                    break
            st = self._join(st, dict(sw) if sw is not None else {})
            return self._exec(s.inner[-1], st)
        if k == 'LabelStmt':
            lid = s.d.get('declId')
            st = self._join(st, self.labels.get(lid))
            return self._exec(s.inner[-1], st) if s.inner else st
        if k == 'GotoStmt':
            lid = s.d.get('targetLabelDeclId')
            self.labels[lid] = self._join(self.labels.get(lid), st)
            return None
        if k == 'IndirectGotoStmt':
            raise AnalysisBroken('computed goto in %s()' % self.cur[1])
        if k == 'ReturnStmt':
            if s.inner:
                v = self._eval(s.inner[0], st)
                if self._pointee(s.inner[0]) or self._pointee(s.inner[0].strip()):
                    self.f_ret |= v
            return None
        if k == 'BreakStmt':
            for fr in reversed(self.frames):
                if 'break' in fr:
                    fr['break'] = self._join(fr['break'], st)
                    break
            return None
        if k == 'ContinueStmt':
            for fr in reversed(self.frames):
                if 'continue' in fr:
                    fr['continue'] = self._join(fr['continue'], st)
                    break
            return None
        if k in ('NullStmt',):
            return st
        if k.endswith('Stmt') and k not in ('StmtExpr',):
            for c in s.inner:       # a statement kind without a model: its parts in order (attributed statements, asm)
                st = self._exec(c, st) if c.kind.endswith('Stmt') else (self._eval(c, st), st)[1]
            return st
        self._eval(s, st)
        return st

    # -- expressions ----------------------------------------------------------------------
    def _object(self, n, st):
        """atoms of the object an lvalue expression designates"""
        n = n.strip()
        k = n.kind
        if k == 'DeclRefExpr':
            return frozenset([FRESH]) if n.ref_id in self.locals and n.ref_id not in self.pidx else (
                frozenset([FRESH]) if n.ref_id in self.pidx else frozenset([SHARED]))
        if k == 'MemberExpr':
            return self._eval(n.inner[0], st) if n.d.get('isArrow') else self._object(n.inner[0], st)
        if k == 'UnaryOperator' and n.opcode == '*':
            return self._eval(n.inner[0], st)
        if k == 'ArraySubscriptExpr':
            a = self._eval(n.inner[0], st)
            self._eval(n.inner[1], st)
            return a
        if k == 'CompoundLiteralExpr':
            for c in n.inner:
                self._eval(c, st)
            return frozenset([FRESH])
        if k == 'CStyleCastExpr':
            return self._object(n.inner[-1], st)
        self._eval(n, st)
        return frozenset([SHARED])

    def _store(self, rec, field, atoms, line):
        if field in self.skip:
            return
        key = (rec, field)
        old = self.f_stores.get(key)
        self.f_stores[key] = (rec, field, atoms | (old[2] if old else frozenset()), old[3] if old else line)
        if not atoms:
            self.f_gaps[key] = (rec, field, line)
        for a in atoms:
            if isinstance(a, tuple):
                self.f_writes.setdefault(a[1], set()).add(key)

    def _assign_target(self, lhs, st, value, rhs=None):
        """the store a write to the lvalue `lhs` performs; value: atoms assigned (None: read-modify-write); rhs: the assigned expression"""
        l = lhs.strip()
        if l.kind == 'DeclRefExpr':
            self._forget(st, var=l.ref_id)
            if l.ref_id in self.locals and self._is_ptr(l) and value is not None:
                st[l.ref_id] = value
            return
        if l.kind == 'MemberExpr':
            base = l.inner[0]
            rec = (self._pointee(base.strip()) or self._pointee(base)) if l.d.get('isArrow') else self._record(base.strip())
            obj = self._eval(base, st) if l.d.get('isArrow') else self._object(base, st)
            if rec:
                self._store(rec, l.name, obj, l.line)
            self._forget(st, field=l.name)
            pl = self._place(l)
            if pl is not None and value is not None and self._pointee(l) is not None:
                st[('mem',) + pl] = value
            # a shallow copy whose (only) owned pointer field receives a fresh value no longer shares anything owned
            b = base.strip()
            if (rec and l.d.get('isArrow') and b.kind == 'DeclRefExpr' and b.ref_id in self.locals and b.ref_id not in self.escaped
                    and st.get(b.ref_id) == frozenset([SHALLOW]) and value is not None and self.owned_fields.get(rec) == [l.name]):
                if value <= frozenset([FRESH, SHALLOW]):
                    st[b.ref_id] = frozenset([FRESH])
                elif value <= frozenset([FRESH, SHALLOW, UNKNOWN]):
                    st[b.ref_id] = frozenset([FRESH, UNKNOWN])       # what the field now leads to is not tracked
            return
        if l.kind == 'UnaryOperator' and l.opcode == '*':
            v = l.inner[0].strip()
            if v.kind == 'DeclRefExpr' and v.ref_id in self.pp:
                obj = st.get(v.ref_id, frozenset())
                for rec, field in sorted(self.pp[v.ref_id], key=str):
                    if rec == 'local':
                        if value is not None:
                            st[field] = st.get(field, frozenset()) | value
                        self._forget(st, var=field)
                        continue
                    self._store(rec, field, obj, l.line)
                    self._forget(st, field=field)
                return
        rec = self._record(l)
        obj = self._object(l, st)
        self._forget(st)
        if rec:
            self._store(rec, '*', obj, l.line)
            # `*new = *old`: the new object is a shallow copy (its pointer fields lead into what the original owns)
            if l.kind == 'UnaryOperator' and l.opcode == '*' and rhs is not None and rhs.strip_all().kind not in ('CompoundLiteralExpr', 'InitListExpr'):
                v = l.inner[0].strip()
                if v.kind == 'DeclRefExpr' and v.ref_id in self.locals and v.ref_id not in self.escaped and st.get(v.ref_id) == frozenset([FRESH]):
                    st[v.ref_id] = frozenset([SHALLOW])

    def _eval(self, n, st):
        """atoms of the pointer value of an expression (empty for non-pointers and null); performs the side effects on st"""
        k = n.kind
        I = n.inner
        if k in ('ParenExpr', 'ImplicitCastExpr', 'ConstantExpr', 'CStyleCastExpr'):
            if not I:
                return frozenset()
            if n.cast_kind == 'ArrayToPointerDecay':
                return self._object(I[-1], st)
            return self._eval(I[-1], st)
        if k == 'DeclRefExpr':
            if n.ref_kind in ('FunctionDecl', 'EnumConstantDecl'):
                return frozenset()
            if n.ref_id in self.locals:
                if self._is_ptr(n):
                    v = st.get(n.ref_id, frozenset())
                    return (v | frozenset([UNKNOWN])) if n.ref_id in self.escaped else v
                return frozenset()
            return frozenset([SHARED]) if self._is_ptr(n) else frozenset()
        if k == 'MemberExpr':
            obj = self._eval(I[0], st) if n.d.get('isArrow') else self._object(I[0], st)
            if not self._is_ptr(n):
                return frozenset()
            p = self._pointee(n)
            if p is not None:
                pl = self._place(n)
                if pl is not None and ('mem',) + pl in st:
                    return st[('mem',) + pl]
                if p not in self.share_loads:
                    return self._loaded(obj)
            return frozenset([SHARED])
        if k == 'UnaryOperator':
            op = n.opcode
            if op == '&':
                return self._object(I[0], st)
            if op == '*':
                v = self._eval(I[0], st)
                x = I[0].strip()
                if x.kind == 'DeclRefExpr' and x.ref_id in self.pp and self._is_ptr(n):
                    p = self._pointee(n)
                    if p is None or p in self.share_loads:
                        return frozenset([SHARED])
                    out = frozenset()
                    for rec, field in self.pp[x.ref_id]:
                        out |= st.get(field, frozenset()) if rec == 'local' else self._loaded(v)
                    return out
                return frozenset([UNKNOWN]) if self._is_ptr(n) else frozenset()
            if op in ('++', '--'):
                v = self._eval(I[0], st)
                self._assign_target(I[0], st, None)
                return v
            self._eval(I[0], st)
            return frozenset()
        if k == 'BinaryOperator':
            op = n.opcode
            if op == '=':
                v = self._eval(I[1], st)
                self._assign_target(I[0], st, v, I[1])
                return v
            if op == ',':
                self._eval(I[0], st)
                return self._eval(I[1], st)
            if op in ('&&', '||'):
                self._eval(I[0], st)
                s2 = dict(st)
                self._eval(I[1], s2)
                j = self._join(st, s2)
                st.clear(); st.update(j)
                return frozenset()
            a = self._eval(I[0], st)
            b = self._eval(I[1], st)
            return (a | b) if (op in ('+', '-') and self._is_ptr(n)) else frozenset()
        if k == 'CompoundAssignOperator':
            v = self._eval(I[0], st)
            self._eval(I[1], st)
            self._assign_target(I[0], st, None)
            return v if self._is_ptr(n) else frozenset()
        if k in ('ConditionalOperator', 'BinaryConditionalOperator'):
            self._eval(I[0], st)
            s1, s2 = dict(st), dict(st)
            vals = [self._eval(I[1], s1), self._eval(I[-1], s2)]
            j = self._join(s1, s2)
            st.clear(); st.update(j)
            return vals[0] | vals[1]
        if k == 'CallExpr':
            return self._call(n, st)
        if k == 'CompoundLiteralExpr':
            self._object(n, st)
            return frozenset()
        if k == 'StmtExpr':
            for c in I:
                self._exec(c, st)
            return frozenset([SHARED]) if self._is_ptr(n) else frozenset()
        for c in I:
            if c.kind.endswith('Decl'):
                continue
            self._eval(c, st)
        if k in ('IntegerLiteral', 'CharacterLiteral', 'FloatingLiteral', 'StringLiteral', 'InitListExpr', 'ImplicitValueInitExpr',
                 'UnaryExprOrTypeTraitExpr', 'ArraySubscriptExpr', 'PredefinedExpr', 'OffsetOfExpr', 'DesignatedInitExpr'):
            if k == 'ArraySubscriptExpr' and self._is_ptr(n):
                return frozenset([SHARED])
            return frozenset()
        return frozenset([SHARED]) if self._is_ptr(n) else frozenset()

    def _mentions_tags(self, a):
        return any(x.kind == 'MemberExpr' and x.name == self.tag_field for x in a.walk())

    def _call(self, n, st):
        name = n.callee()
        args = n.args()
        if name is None:
            self._eval(n.inner[0], st)
        vals = [self._eval(a, st) for a in args]
        isptr = self._is_ptr(n)
        if name in self.ALLOC:
            return frozenset([FRESH])
        self._forget(st)            # the callee may store into any field
        if name in self.WHOLE and args:
            rec = self._pointee(args[0].strip()) or self._pointee(args[0].strip_all())
            if rec:
                self._store(rec, '*', vals[0], n.line)
                d = args[0].strip_all()
                if name != 'memset' and d.kind == 'DeclRefExpr' and d.ref_id in self.locals and d.ref_id not in self.escaped and st.get(d.ref_id) == frozenset([FRESH]):
                    st[d.ref_id] = frozenset([SHALLOW])
            return vals[0]
        if isptr and any(self._mentions_tags(a) for a in args):
            return frozenset([TAG])
        fk = self.resolve(self.cur[0], name) if name else None
        if fk is not None:
            for i, fields in self.writes[fk].items():
                if i < len(vals):
                    ckey = (name, i)
                    old = self.f_calls.get(ckey)
                    self.f_calls[ckey] = (name, i, set(fields), vals[i] | (old[3] if old else frozenset()), old[4] if old else n.line)
                    for a in vals[i]:
                        if isinstance(a, tuple):
                            self.f_writes.setdefault(a[1], set()).update(fields)
            out = set()
            for a in self.ret[fk]:
                if isinstance(a, tuple):
                    if a[1] < len(vals):
                        out |= vals[a[1]]
                else:
                    out.add(a)
            return frozenset(out) if isptr else frozenset()
        return frozenset([SHARED]) if isptr else frozenset()
