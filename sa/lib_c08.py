"""Private helpers of sa/rules/c08.py.

1. Terms -> python: the opaque integer terms Engine I produces (Sym / Lin / Term, or
   their structural keys as stored in ctx.facts) are compiled into python functions
   with C semantics, so that a symbolic path summary can be *evaluated* on a grid of
   concrete layouts and compared with the psABI step function as a function, not as a
   piece of syntax (an equivalent rewrite of a formula is not an alarm).
2. StepInterp: Engine I with one loop of the analysed function treated as
   "havoc, one generic iteration" (step mode) or "havoc, leave" (exit mode).
"""
from .interp import (Interp, Obj, Sym, Term, Lin, View, Infeasible, NoReturn, vkey,
                     _Break, _Continue)
from .build import AnalysisBroken


class Uninterpretable(Exception):
    """a summary contains something the evaluator has no C semantics for"""


def _cdiv(a, b):
    q = abs(a) // abs(b)
    return q if (a >= 0) == (b >= 0) else -q


def _cmod(a, b):
    return a - _cdiv(a, b) * b


_BIN = {'+': '(%s + %s)', '-': '(%s - %s)', '*': '(%s * %s)', '/': '_cdiv(%s, %s)', '%': '_cmod(%s, %s)',
        '<<': '(%s << %s)', '>>': '(%s >> %s)', '&': '(%s & %s)', '|': '(%s | %s)', '^': '(%s ^ %s)',
        '<': 'int(%s < %s)', '<=': 'int(%s <= %s)', '>': 'int(%s > %s)', '>=': 'int(%s >= %s)',
        '==': 'int(%s == %s)', '!=': 'int(%s != %s)'}
_WIDE = ('int', 'unsigned int', 'long', 'unsigned long', 'long long', 'unsigned long long', 'size_t')


def _src(k, syms):
    if isinstance(k, bool):
        return str(int(k))
    if isinstance(k, int):
        return '(%d)' % k
    if not isinstance(k, tuple) or not k:
        raise Uninterpretable('value %r' % (k,))
    tag = k[0]
    if tag == 'sym':
        syms.add(k[1])
        return 'e[%r]' % k[1]
    if tag == 'lin':
        parts = ['(%d)' % k[1]]
        for sub, coef in k[2:]:
            parts.append('(%d) * %s' % (coef, _src(sub, syms)))
        return '(' + ' + '.join(parts) + ')'
    if tag == 'term':
        op = k[1]
        a = k[2:]
        if ':' in op and not op.startswith('cast:') and op.rsplit(':', 1)[1].isdigit():
            op = op.rsplit(':', 1)[0]        # '/:32' = done in a 32-bit C type; grid values never wrap
        if op in _BIN and len(a) == 2:
            return _BIN[op] % (_src(a[0], syms), _src(a[1], syms))
        if op == '!' and len(a) == 1:
            return 'int(not %s)' % _src(a[0], syms)
        if op == 'neg' and len(a) == 1:
            return '(-%s)' % _src(a[0], syms)
        if op == '~' and len(a) == 1:
            return '(~%s)' % _src(a[0], syms)
        if op.startswith('cast:') and len(a) == 1 and op[5:].replace('const ', '').strip() in _WIDE:
            return _src(a[0], syms)      # values on the grid are far below 2^31
        raise Uninterpretable('operator %s/%d' % (op, len(a)))
    raise Uninterpretable('value %r' % (k,))


class Fn:
    """compiled term: .f(env) -> int, .syms = symbols it reads, .text = readable form"""

    def __init__(self, value):
        k = value if isinstance(value, (tuple, int)) else vkey(value)
        self.key = k
        self.syms = set()
        src = _src(k, self.syms)
        self.text = show_key(k)
        self.f = eval('lambda e: ' + src, {'_cdiv': _cdiv, '_cmod': _cmod})

    def __call__(self, e):
        return self.f(e)


def show_key(k):
    if isinstance(k, int):
        return str(k)
    if not isinstance(k, tuple):
        return repr(k)
    if k[0] == 'sym':
        return k[1]
    if k[0] == 'lin':
        ps = []
        for sub, coef in k[2:]:
            ps.append(show_key(sub) if coef == 1 else '%d*%s' % (coef, show_key(sub)))
        if k[1] or not ps:
            ps.append(str(k[1]))
        return '(' + ' + '.join(ps) + ')'
    if k[0] == 'term':
        a = k[2:]
        if len(a) == 2:
            return '(%s %s %s)' % (show_key(a[0]), k[1], show_key(a[1]))
        return '%s(%s)' % (k[1], ', '.join(show_key(x) for x in a))
    return repr(k)


class Summary:
    """one path of a step: guard (facts that must hold) + outputs, all compiled"""

    def __init__(self, ctx, outputs, trail=None):
        self.guards = []
        for k, truth in ctx.facts.items():
            self.guards.append((Fn(k), bool(truth)))
        # interval / disequality facts the interpreter keeps outside ctx.facts are
        # consequences of comparisons that are also in ctx.facts; nothing else to add
        self.out = {}
        for name, v in outputs.items():
            self.out[name] = None if v is None else Fn(v)
        self.trail = list(trail if trail is not None else ctx.trail)

    def syms(self):
        s = set()
        for g, _ in self.guards:
            s |= g.syms
        for f in self.out.values():
            if f is not None:
                s |= f.syms
        return s

    def applies(self, e):
        for g, truth in self.guards:
            if bool(g(e)) != truth:
                return False
        return True


def select(summaries, e):
    """the unique summary whose guard holds at e (None if none; raises if several)"""
    hit = None
    for s in summaries:
        if s.applies(e):
            if hit is not None:
                # two paths with the same guard valuation: they must agree, else the
                # summary is not a function of the modelled inputs
                same = all((s.out[k] is None) == (hit.out[k] is None) and (s.out[k] is None or s.out[k](e) == hit.out[k](e))
                           for k in hit.out)
                if not same:
                    raise Uninterpretable('two paths apply to the same layout state and disagree')
                continue
            hit = s
    return hit


# --------------------------------------------------------------------------------
def int_locals_written_in(fn, loop):
    """VarDecl nodes of integer type declared in fn outside `loop` that the loop
    assigns, increments, or passes by address"""
    inside = set()
    for n in loop.walk():
        inside.add(id(n))
    decls = {}
    for n in fn.walk():
        if n.kind == 'VarDecl' and id(n) not in inside and n.d.get('storageClass') != 'static':
            t = (n.dtype or n.type or '').replace('const ', '').strip()
            if t in ('int', 'long', 'unsigned int', 'unsigned long', 'unsigned', 'short', 'long long', 'size_t'):
                decls[n.id] = n
    hit = {}
    for n in loop.walk():
        tgt = None
        if n.kind in ('BinaryOperator', 'CompoundAssignOperator') and (n.opcode == '=' or n.kind == 'CompoundAssignOperator'):
            tgt = n.inner[0].strip()
        elif n.kind == 'UnaryOperator' and n.opcode in ('++', '--', '&'):
            tgt = n.inner[0].strip()
        if tgt is not None and tgt.kind == 'DeclRefExpr' and tgt.ref_id in decls:
            hit[tgt.ref_id] = decls[tgt.ref_id]
    return hit


def find_member_loop(fn):
    """the loop of fn that walks a `Member *` list: (loop node) or None / 'many'"""
    found = []
    for n in fn.walk():
        if n.kind not in ('ForStmt', 'WhileStmt', 'DoStmt'):
            continue
        # condition mentions a Member* variable
        conds = [c for c in n.inner if c.kind not in ('CompoundStmt', 'DeclStmt')]
        ok = False
        for c in n.inner:
            if c.kind == 'CompoundStmt':
                continue
            for x in c.walk():
                if x.kind == 'DeclRefExpr' and (x.dtype or x.type or '').replace('struct ', '').replace(' ', '') == 'Member*':
                    ok = True
        if ok:
            found.append(n)
    # keep outermost ones only
    outer = [n for n in found if not any(a in found for a in n.ancestors())]
    return outer


class Budgeted(Interp):
    """Engine I with a CPU budget: `deadline` is a time.process_time() value (CPU, so machine load does not
    turn a fast exploration into an undecided one); past it the exploration ends with AnalysisBroken, i.e.
    undecided, never a hang and never a verdict"""
    deadline = None

    def set_budget(self, seconds):
        import time
        self.deadline = time.process_time() + seconds

    def call_fn(self, unit, fn, args):
        if self.deadline is not None:
            import time
            if time.process_time() > self.deadline:
                raise AnalysisBroken('exploration budget exceeded in %s()' % fn.name)
        return Interp.call_fn(self, unit, fn, args)


class StepInterp(Budgeted):
    """Engine I where the loop `target` is not iterated from its concrete entry state:
       mode 'step': integer locals the loop writes are replaced by fresh symbols (havoc),
                    `on_entry(it, env)` installs the symbolic pre-state on the heap,
                    the condition is assumed true, the body runs once and the path ends
                    with outcome ('noreturn', '__step__', [post], line);
       mode 'exit': same havoc, then execution continues after the loop."""

    def __init__(self, program, unit, cfg, target, havoc, mode, on_entry, snapshot):
        Interp.__init__(self, program, unit, cfg)
        self.target = target
        self.havoc = havoc            # {decl id: symbol name}
        self.mode = mode
        self.on_entry = on_entry
        self.snapshot = snapshot
        self.reached = 0

    def exec_loop(self, s, _u, cond, inc, body, env):
        if s.id != self.target.id:
            return Interp.exec_loop(self, s, _u, cond, inc, body, env)
        self.reached += 1
        self.ctx.c08_reached = True
        for vid, name in self.havoc.items():
            if vid in env:
                env[vid] = Sym(name, 'int')
        self.on_entry(self, env)
        if self.mode == 'exit':
            return
        if cond is not None:
            if not self.truth(self.eval(cond, env), cond):
                raise Infeasible('loop not entered')
        broke = False
        try:
            self.exec(body, env)
        except _Continue:
            pass
        except _Break:
            broke = True
        post = self.snapshot(self, env)
        post['__broke__'] = broke
        raise NoReturn('__step__', [post], s.line)

    def exec_do(self, s, env):
        if s.id == self.target.id:
            raise AnalysisBroken('member loop is a do-while: not modelled')
        return Interp.exec_do(self, s, env)


class IterInterp(Budgeted):
    """Engine I where the loops named in `deep` (node ids) get `deep_limit` generic iterations and
    every other loop `loop_limit`: a property of the 2nd pass through one loop (state that survives
    an iteration) is explored without squaring the paths of all the other loops"""
    deep = frozenset()
    deep_limit = 2

    def _with_limit(self, s, f, *a):
        old = self.loop_limit
        self.loop_limit = self.deep_limit if s.id in self.deep else old
        try:
            return f(self, *a)
        finally:
            self.loop_limit = old

    def exec_loop(self, s, _u, cond, inc, body, env):
        return self._with_limit(s, Interp.exec_loop, s, _u, cond, inc, body, env)

    def exec_do(self, s, env):
        return self._with_limit(s, Interp.exec_do, s, env)


def enclosing_loops(node, root):
    """ids of the loops of `root` that contain `node`"""
    out = set()
    for a in node.ancestors():
        if a is root:
            break
        if a.kind in ('ForStmt', 'WhileStmt', 'DoStmt'):
            out.add(a.id)
    return out


def generic_args(u, fname, ref_types=('Token **',)):
    """argument builder for Interp.explore: out-parameters become places, pointers to records lazy objects"""
    from .interp import _Ref, _ValPlace
    params = u.params(fname)

    def mk(ctx):
        out = []
        for p in params:
            t = ' '.join((p.type or '').split())
            if t in ref_types:
                out.append(_Ref(_ValPlace(0)))
            elif t.endswith('*') and t[:-1].replace('struct ', '').strip() in u.records:
                out.append(Obj(t[:-1].replace('struct ', '').strip(), lazy=True, label=p.name))
            else:
                out.append(Sym('arg.' + (p.name or '?')))
        return out
    return mk


def may_write_through(u, fname, pidx, _seen=None):
    """may function `fname` (of unit u) modify the object its pidx-th parameter points to?
    False only when every use of the parameter is a null test, a read of one of its fields, or an
    argument of a call for which the same holds; anything else (unknown callee, store through it,
    address of a field, copy into another variable) answers True."""
    _seen = _seen if _seen is not None else set()
    if (fname, pidx) in _seen:
        return False            # recursion: judged by the other uses
    _seen.add((fname, pidx))
    fn = u.fn(fname)
    if fn is None:
        return True
    ps = [c for c in fn.inner if c.kind == 'ParmVarDecl']
    if pidx >= len(ps):
        return True
    pid = ps[pidx].id
    for n in fn.walk():
        if n.kind != 'DeclRefExpr' or n.ref_id != pid:
            continue
        x = n
        par = x.parent
        while par is not None and par.kind in ('ImplicitCastExpr', 'ParenExpr'):
            x, par = par, par.parent
        if par is None:
            return True
        if par.kind == 'MemberExpr':
            # attr->f : a write if it is the target of an assignment / ++ / & , possibly through parens
            y, q = par, par.parent
            while q is not None and q.kind == 'ParenExpr':
                y, q = q, q.parent
            if q is None:
                return True
            if q.kind in ('BinaryOperator', 'CompoundAssignOperator') and (q.kind == 'CompoundAssignOperator' or q.opcode == '=') and q.inner[0] is y:
                return True
            if q.kind == 'UnaryOperator' and q.opcode in ('++', '--', '&'):
                return True
            if q.kind == 'MemberExpr' or q.kind == 'ArraySubscriptExpr':
                return True     # nested aggregate: not modelled
            continue
        if par.kind == 'UnaryOperator' and par.opcode == '!':
            continue
        if par.kind == 'BinaryOperator' and par.opcode in ('&&', '||', '==', '!='):
            continue
        if par.kind in ('IfStmt', 'ConditionalOperator', 'WhileStmt', 'ForStmt') and par.inner and par.inner[0] is x:
            continue
        if par.kind == 'CallExpr':
            args = par.args()
            idx = [i for i, a in enumerate(args) if a is x]
            if not idx or par.callee() is None:
                return True
            if may_write_through(u, par.callee(), idx[0], _seen):
                return True
            continue
        return True
    return False
