"""Private helper of sa/rules/c08.py: R08.3 anonymous-member worlds.

struct_members() is executed by Engine I on CONCRETE member lists whose first declaration has no declarator.  declspec() and
declarator() are replaced by python models that consume the concrete specifier / declarator tokens (C11 6.7.2.1 grammar with
GNU attribute groups); everything else the function does on the token stream (equal/consume/skip, the helpers that look at the
specifier tokens) is followed on the concrete tokens.  C11 6.7.2.1p13: the declaration adds an (anonymous) member exactly when
its specifiers contain a struct/union specifier WITHOUT tag - however many __attribute__ groups stand between the keyword and
the brace or after the brace, whatever qualifiers surround it, whatever the member list of that specifier contains."""
from .interp import Interp, Obj, Sym, View, _Ref, _ValPlace
from .build import AnalysisBroken

PU = 'parse.c'


def _A(*items):
    out = ['__attribute__', '(', '(']
    for i, it_ in enumerate(items):
        out += ([','] if i else []) + list(it_)
    return out + [')', ')']


_PK, _AL = ['packed'], ['aligned', '(', '2', ')']
_BODY = ['{', 'int', 'a', ';', '}']


def worlds():
    """(name, tokens of the first declaration up to and including `;`)"""
    W = []
    for kw in ('struct', 'union'):
        W += [
            ('%s/untagged' % kw, [kw] + _BODY + [';']),
            ('%s/untagged+1-attribute-group' % kw, [kw] + _A(_PK) + _BODY + [';']),
            ('%s/untagged+1-attribute-group-2-attributes' % kw, [kw] + _A(_PK, _AL) + _BODY + [';']),
            ('%s/untagged+nested-paren-attribute' % kw, [kw] + _A(_AL) + _BODY + [';']),
            ('%s/untagged+2-attribute-groups' % kw, [kw] + _A(_PK) + _A(_AL) + _BODY + [';']),
            ('%s/untagged+3-attribute-groups' % kw, [kw] + _A(_PK) + _A(_AL) + _A(_PK) + _BODY + [';']),
            ('%s/untagged+attribute-after-brace' % kw, [kw] + _BODY + _A(_PK) + [';']),
            ('%s/untagged+2-attribute-groups-after-brace' % kw, [kw] + _BODY + _A(_PK) + _A(_AL) + [';']),
            ('%s/untagged+attributes-before-and-after' % kw, [kw] + _A(_AL) + _BODY + _A(_PK) + [';']),
            ('%s/untagged+const-before' % kw, ['const', kw] + _BODY + [';']),
            ('%s/untagged+const-after' % kw, [kw] + _BODY + ['const', ';']),
            ('%s/untagged+tagged-inner-member' % kw, [kw, '{', 'struct', 'In', '{', 'int', 'a', ';', '}', 'y', ';', '}', ';']),
            ('%s/untagged+array-inner-member' % kw, [kw, '{', 'int', 'a', '[', '2', ']', ';', '}', ';']),
            ('%s/tagged-definition' % kw, [kw, 'In'] + _BODY + [';']),
            ('%s/tagged-definition+1-attribute-group' % kw, [kw] + _A(_PK) + ['In'] + _BODY + [';']),
            ('%s/tagged-definition+2-attribute-groups' % kw, [kw] + _A(_PK) + _A(_AL) + ['In'] + _BODY + [';']),
            ('%s/tagged-definition+attribute-after-brace' % kw, [kw, 'In'] + _BODY + _A(_PK) + [';']),
            ('%s/tagged-definition+untagged-inner-member' % kw, [kw, 'In', '{', 'struct', '{', 'int', 'a', ';', '}', 'y', ';', '}', ';']),
            ('%s/tag-reference' % kw, [kw, 'In', ';']),
            ('%s/tag-reference+attribute-group' % kw, [kw] + _A(_PK) + ['In', ';']),
        ]
    W.append(('alignas-constant+untagged', ['_Alignas', '(', '8', ')', 'struct'] + _BODY + [';']))
    W.append(('alignas-of-untagged-record+typedef-name', ['_Alignas', '(', 'union', '{', 'long', 'a', ';', '}', ')', 'T', ';']))
    W.append(('alignas-of-untagged-record+tagged-definition', ['_Alignas', '(', 'struct', '{', 'long', 'a', ';', '}', ')', 'struct', 'In'] + _BODY + [';']))
    W.append(('typedef-name', ['T', ';']))
    W.append(('const-typedef-name', ['const', 'T', ';']))
    return W


def _skip_group(toks, i):
    """toks[i] is __attribute__: index after its balanced parenthesis group"""
    i += 1
    if i >= len(toks) or toks[i] != '(':
        raise AnalysisBroken('malformed attribute in a token world')
    d = 0
    while i < len(toks):
        if toks[i] == '(':
            d += 1
        elif toks[i] == ')':
            d -= 1
            if d == 0:
                return i + 1
        i += 1
    raise AnalysisBroken('unbalanced attribute in a token world')


def parse_spec(toks):
    """python oracle over spellings: (number of tokens the specifiers take, kind 'record'|'int', untagged-record?)"""
    i, kind, untagged = 0, None, False
    while i < len(toks):
        t = toks[i]
        if t in ('const', 'volatile'):
            i += 1
        elif t in ('__attribute__', '_Alignas'):
            i = _skip_group(toks, i)
        elif t in ('struct', 'union') and kind is None:
            kind = 'record'
            i += 1
            while i < len(toks) and toks[i] == '__attribute__':
                i = _skip_group(toks, i)
            tagged = False
            if i < len(toks) and toks[i] not in ('{', ';') and (toks[i][0].isalpha() or toks[i][0] == '_') and toks[i] != '__attribute__':
                tagged = True
                i += 1
            if i < len(toks) and toks[i] == '{':
                d = 0
                while True:
                    if toks[i] == '{':
                        d += 1
                    elif toks[i] == '}':
                        d -= 1
                    i += 1
                    if d == 0:
                        break
                untagged = not tagged
            while i < len(toks) and toks[i] == '__attribute__':
                i = _skip_group(toks, i)
        elif t == 'T' and kind is None:
            kind = 'record'         # typedef struct { int a; } T;
            i += 1
        elif t == 'int' and kind is None:
            kind = 'int'
            i += 1
        else:
            break
    if kind is None:
        raise AnalysisBroken('token world without a type specifier')
    return i, kind, untagged


def _spellings(tok, limit=200):
    out, objs = [], []
    while isinstance(tok, Obj) and len(out) < limit:
        s = tok.fields.get('loc')
        if not isinstance(s, str) or s == '':
            break
        out.append(s)
        objs.append(tok)
        tok = tok.fields.get('next')
    return out, objs, tok


def run(P, u, rep, TokenWorld):
    fname = 'struct_members'
    fn = u.fn(fname)
    base = '%s:%s:anonymous-member-world' % (PU, fname)
    if fn is None:
        rep.undecided('R08.3', base, 'struct_members() vanished')
        return
    where = '%s:%d' % (PU, fn.line)
    # the oracle reads the member list from the Type the function is handed: that is the interface judged
    try:
        from .build import require_signature
        require_signature(u, fname, ['Token **', 'Token *', 'Type *'], 'void')
    except AnalysisBroken as e:
        rep.undecided('R08.3', base, str(e), where=where)
        return
    called = set(c.callee() for c in fn.calls() if c.callee())
    if 'declspec' not in called or 'declarator' not in called:
        rep.undecided('R08.3', base, 'struct_members() does not call declspec() and declarator() any more: shape not recognised', where=where)
        return
    E = u.enums
    for k in ('TY_STRUCT', 'TY_UNION', 'TY_INT'):
        if k not in E:
            rep.undecided('R08.3', base, 'type kind %s vanished' % k, where=where)
            return
    tw = TokenWorld(P, u)
    tw.typenames = set(tw.typenames) | {'const', 'volatile', 'struct', 'union', 'int', 'long', '_Alignas'}

    def m_declspec(it, ctx, call, args):
        rest, tok = args[0], args[1]
        attr = args[2] if len(args) > 2 else None
        if not (isinstance(rest, _Ref) and isinstance(tok, Obj)):
            raise AnalysisBroken('declspec() called with unexpected arguments')
        sp, objs, _ = _spellings(tok)
        n, kind, _u = parse_spec(sp)
        after = objs[n] if n < len(objs) else objs[-1].fields.get('next')
        rest.place.set(it, after)
        first = sp[0] if sp else ''
        rec = 'union' if 'union' in sp[:n] else 'struct'
        # what the model does not compute is UNKNOWN, not zero: a struct_members() that decides on another fact declspec() reports (a field of
        # *attr, a field of the type) forks on it, and the world is reported undecided instead of judged with a made-up value
        ty = Obj('Type', lazy=True, label='basety')
        ty.fields.update({'kind': E['TY_INT'] if kind == 'int' else (E['TY_UNION'] if rec == 'union' else E['TY_STRUCT']),
                          'size': 4, 'align': 4, 'name': 0, 'name_pos': 0, 'base': 0, 'array_len': 0, 'is_flexible': 0})
        if isinstance(attr, Obj):
            for f, _qt, _bf in u.records.get('VarAttr', []):
                if f == 'align':
                    attr.fields[f] = 8 if '_Alignas' in sp[:n] else 0
                else:
                    attr.fields[f] = Sym('attr.%s' % f, 'int')
        ctx.c08_specs = getattr(ctx, 'c08_specs', []) + [ty]
        return ty

    def m_declarator(it, ctx, call, args):
        rest, tok, basety = args[0], args[1], args[2]
        if not (isinstance(rest, _Ref) and isinstance(tok, Obj) and isinstance(basety, Obj)):
            raise AnalysisBroken('declarator() called with unexpected arguments')
        if tok.fields.get('kind') != E['TK_IDENT']:
            raise AnalysisBroken('declarator() of a token world starts at `%s`, not at an identifier' % tok.fields.get('loc'))
        rest.place.set(it, tok.fields.get('next'))
        ty = Obj('Type', lazy=True, label='declared')
        ty.fields.update(basety.fields)
        ty.fields['name'] = tok
        ty.fields['name_pos'] = tok
        return ty

    models = dict(tw.models())
    models.update({'declspec': m_declspec, 'declarator': m_declarator, 'is_variably_modified': lambda it, ctx, c, a: 0,
                   'is_integer': lambda it, ctx, c, a: 1})
    judged = 0
    for name, decl in worlds():
        key = '%s/%s' % (base, name)
        shown = ' '.join(decl)
        n, kind, untagged = parse_spec(decl)
        if decl[n] != ';':
            rep.undecided('R08.3', key, 'token world `%s` is not a declaration without declarator for the oracle' % shown, where=where)
            continue
        seq = decl + ['int', 'tail', ';', '}']
        try:
            it = Interp(P, u, {'models': models, 'opaque': [], 'loop_limit': 1, 'track_stores': True})

            def mk(ctx, seq=seq):
                ty = Obj('Type', lazy=True, label='ty')
                return [_Ref(_ValPlace(0)), tw.tokens(seq), ty]
            paths = it.explore(fname, mk, max_paths=300)
        except AnalysisBroken as ex:
            rep.undecided('R08.3', key, 'struct_members() not interpretable on `%s int tail; }`: %s' % (shown, ex), where=where)
            continue
        if len(paths) != 1:
            rep.undecided('R08.3', key, 'struct_members() on the concrete member list `%s int tail; }` has %d paths (expected one)' % (shown, len(paths)), where=where)
            continue
        ctx, out = paths[0]
        if out[0] != 'ret':
            if untagged:
                rep.ob('R08.3', key, False, 'the member list `%s int tail; }` is rejected by %s(): an untagged struct/union specifier without declarator declares an anonymous member '
                       '(C11 6.7.2.1p13)' % (shown, out[1]), where=where)
                judged += 1
            else:
                rep.undecided('R08.3', key, 'the member list `%s int tail; }` ends in %s(): not judged' % (shown, out[1]), where=where)
            continue
        specs = getattr(ctx, 'c08_specs', [])
        mems = []
        for e in ctx.events:
            if e[0] == 'fstore' and e[2] == 'ty' and isinstance(e[1], Obj) and e[1].tname == 'Member' and e[1] not in mems:
                mems.append(e[1])
        # the members that end up in the list handed to the layout
        lst = None
        for e in ctx.events:
            if e[0] == 'fstore' and e[2] == 'members' and isinstance(e[1], Obj) and e[1].label == 'ty':
                lst = e[4]
        chain = []
        m = lst
        while isinstance(m, Obj) and m.tname == 'Member' and len(chain) < 10:
            chain.append(m)
            m = m.fields.get('next', 0)
            m = it.settle(m) if isinstance(m, View) else m
        first_spec = specs[0] if specs else None
        anon = [m for m in chain if m.fields.get('ty') is first_spec and not m.fields.get('name', 0)]
        named = [m for m in chain if isinstance(m.fields.get('name', 0), Obj) and m.fields['name'].fields.get('loc') == 'tail']
        judged += 1
        if len(named) != 1 or len(specs) != 2:
            rep.ob('R08.3', key, False, 'after `%s` the member `int tail;` of the same list is not declared (members: %d, declspec() calls: %d): the declaration without declarator '
                   'consumes or skips what follows it' % (shown, len(chain), len(specs)), where=where)
            continue
        if untagged:
            ok = len(anon) == 1 and len(chain) == 2 and chain[0] is anon[0]
            rep.ob('R08.3', key, ok,
                   '`%s` in a member list (an untagged struct/union specifier without declarator: an anonymous member, C11 6.7.2.1p13) adds %d member(s) of that type before `tail` '
                   '(list length %d, expected the anonymous member and `tail`): the members of the inner specifier are not members of the enclosing type, and sizeof, _Alignof and the offset of '
                   'every later member of the enclosing struct differ from gcc\'s' % (shown, len(anon), len(chain)), where=where)
        else:
            ok = not anon and len(chain) == 1
            rep.ob('R08.3', key, ok,
                   '`%s` in a member list (%s: declares no member, C11 6.7.2.1p2/p13) adds %d unnamed member(s) (list length %d, expected `tail` only): the enclosing struct is larger than '
                   'gcc\'s and every later member lies further' % (shown, 'a typedef name' if 'T' in decl[:n] else 'a struct/union specifier WITH a tag', len(anon), len(chain)), where=where)
    if judged < 32:
        rep.undecided('R08.3', base, 'only %d of the concrete member lists with a declarator-less declaration could be judged (floor 32)' % judged, where=where)
