"""Private helpers of the C09 / C19 rule modules (preprocess.c / tokenize.c / main.c).

* PInterp: Engine I with `&ptrvar` yielding a reference to the variable (needed
  for the `Token **rest` out-parameters of the preprocessor).
* token-class modelling: every abstract Token gets one finite cell for its
  spelling class, and `equal(tok, "lit")` / `find_arg(args, tok)` are projections
  of that cell, so that contradictory answers (a token that is both "#" and
  "##") are never explored and "is a macro parameter" is a property of the
  token, not of the call site.
* small concrete-list builders for the pure list functions (hide sets, append).
"""
import re
from .interp import Interp, Obj, Sym, View, Cell, Term, Arr, VarPlace, ElemPlace, _Ref, is_opaque
from .build import AnalysisBroken

PARAM = '<param>'
OTHER = '<other>'


class PInterp(Interp):
    def e_DeclRefExpr(self, n, env):
        # enumerators of system headers (glibc's _ISspace behind isspace()) are opaque constants
        if n.ref_kind == 'EnumConstantDecl' and self.unit.enum_value(n.ref_name) is None:
            return Sym('enum:' + str(n.ref_name), 'int')
        return super().e_DeclRefExpr(n, env)

    def e_UnaryOperator(self, n, env):
        if n.opcode == '&':
            t = (n.inner[0].dtype or n.inner[0].type or '').strip()
            if t.endswith('*'):
                return _Ref(self.place(n.inner[0], env))
        if n.opcode in ('++', '--') and n.inner[0].strip().kind == 'DeclRefExpr':
            # char *q over a concrete string: q++ (the shared engine only models `q + 1` and `q += 1`)
            pl = self.place(n.inner[0], env)
            oldv = pl.get(self)
            if isinstance(oldv, str) and n.opcode == '++':
                pl.set(self, oldv[1:])
                return oldv if n.d.get('isPostfix') else oldv[1:]
        return super().e_UnaryOperator(n, env)


def literals_compared(fn, callees=('equal', 'skip', 'consume')):
    """string literals a function compares tokens against (2nd/last argument of equal/skip/consume)"""
    out = []
    for c in fn.calls(callees):
        a = c.args()
        if a:
            s = a[-1].str_value()
            if s is not None and s not in out:
                out.append(s)
    return out


def as_obj(it, v, n=None):
    """pointer value -> the struct object it designates (NULL dropped)"""
    v = it.settle(v)
    if isinstance(v, View):
        v = it.deref_target(v, n)
    return v


def tok_class_cell(it, ctx, tok, classes):
    c = tok.meta.get('cls')
    if c is None:
        c = Cell(list(classes), (tok.label or 'tok') + '.spelling')
        tok.meta['cls'] = c
    return c


def make_equal_model(classes, record=True, cell_classes=None):
    """cell_classes: the spellings a token may have in this exploration (default: all of `classes`)"""
    def m_equal(it, ctx, n, args):
        t = as_obj(it, args[0], n)
        s = args[1]
        if not isinstance(t, Obj) or not isinstance(s, str):
            raise AnalysisBroken('equal() on a value the token model cannot follow at line %d' % n.line)
        if s not in classes:
            raise AnalysisBroken('equal() against %r which is not in the collected literal set' % s)
        cell = tok_class_cell(it, ctx, t, cell_classes or classes)
        r = View(cell, lambda c, s=s: 1 if c == s else 0, 'is%r' % s)
        if record:
            ctx.emit('call', 'equal', [t, s], n.line, r)
        return r
    return m_equal


def make_find_arg_model(classes, cell_classes=None):
    classes = cell_classes or classes

    def m_find_arg(it, ctx, n, args):
        t = as_obj(it, args[1], n)
        if not isinstance(t, Obj):
            raise AnalysisBroken('find_arg() on a value the token model cannot follow at line %d' % n.line)
        cell = tok_class_cell(it, ctx, t, classes)
        ma = t.meta.get('marg')
        if ma is None:
            ma = Obj('MacroArg', lazy=True, label='arg(%s)' % (t.label or 'tok'))
            ma.meta['param_tok'] = t
            t.meta['marg'] = ma
        r = View(cell, lambda c, ma=ma: ma if c == PARAM else 0, 'param')
        ctx.emit('call', 'find_arg', [args[0], t], n.line, r)
        return r
    return m_find_arg


def m_copy_token(it, ctx, n, args):
    """copy_token: whole-struct copy with next = NULL (checked separately by R19.2 on copy_token itself)"""
    o = as_obj(it, args[0], n)
    if not isinstance(o, Obj):
        raise AnalysisBroken('copy_token() of a value the token model cannot follow at line %d' % n.line)
    c = Obj('Token', lazy=True, label=ctx.fresh('copy'))
    c.fields = dict(o.fields)
    c.fields['next'] = 0
    c.meta['copy_of'] = o
    if 'cls' in o.meta:
        c.meta['cls'] = o.meta['cls']
    ctx.emit('call', 'copy_token', [o], n.line, c)
    return c


def copy_lazy_field(it, ctx, o, f, t):
    """a field of a copy that was not materialised when the copy was taken reads through to the original"""
    src = o.meta.get('copy_of')
    if src is not None and o.tname == 'Token':
        return it.read_field(src, f)
    return NotImplemented


def cls_of(tok):
    c = tok.meta.get('cls')
    return set(c.cands) if c is not None else None


def chain(it, first, field='next', limit=64):
    """follow a linked list of concrete/settled objects"""
    out = []
    v = it.settle(first)
    while isinstance(v, Obj) and len(out) < limit:
        out.append(v)
        v = it.settle(v.fields.get(field, 0))
    return out, v


# ---- concrete lists ------------------------------------------------------------
def mk_hideset(names):
    head = 0
    for nm in reversed(names):
        head = Obj('Hideset', lazy=False, fields={'name': nm, 'next': head})
    return head


class NotConcrete(Exception):
    pass


def hideset_names(it, hs):
    """names of a concrete Hideset list; raises NotConcrete when the list is not a NULL-terminated chain of concrete cells"""
    out = []
    v = it.settle(hs) if hs is not None else 0
    k = 0
    while isinstance(v, Obj) and k < 100:
        nm = v.fields.get('name')
        if not isinstance(nm, str):
            raise NotConcrete('name %r' % (nm,))
        out.append(nm)
        v = it.settle(v.fields.get('next', 0))
        k += 1
    if not (isinstance(v, int) and v == 0):
        raise NotConcrete('tail %r' % (v,))
    return out


def mk_tokens(specs, eof_kind, ident_kind):
    """specs: list of dicts of Token fields (loc, len, hideset names, at_bol, has_space); an EOF token is appended"""
    toks = []
    for i, s in enumerate(specs):
        f = {'kind': ident_kind, 'loc': s.get('loc', 't%d' % i), 'len': len(s.get('loc', 't%d' % i)),
             'at_bol': s.get('at_bol', 0), 'has_space': s.get('has_space', 0),
             'hideset': mk_hideset(s.get('hideset', [])), 'line_no': s.get('line_no', 1), 'next': 0}
        toks.append(Obj('Token', lazy=False, label='t%d' % i, fields=f))
    eof = Obj('Token', lazy=False, label='eof', fields={'kind': eof_kind, 'loc': '', 'len': 0, 'at_bol': 0, 'has_space': 0, 'hideset': 0, 'next': 0})
    toks.append(eof)
    for a, b in zip(toks, toks[1:]):
        a.fields['next'] = b
    return toks


def m_copy_token_concrete(it, ctx, n, args):
    o = as_obj(it, args[0], n)
    c = Obj('Token', lazy=False, label=(o.label or 'tok') + "'", fields=dict(o.fields))
    c.fields['next'] = 0
    c.meta['copy_of'] = o
    return c


def strip_ids(s):
    return re.sub(r'#\d+', '', s)


class Agg:
    """collect per-path verdicts and emit one obligation per key (a failing instance wins)"""

    def __init__(self, rep):
        self.rep = rep
        self.d = {}
        self.order = []

    def ob(self, rule, key, ok, what, where=None, facts=None):
        k = (rule, key)
        if k not in self.d:
            self.d[k] = [True, what, where, facts, 0]
            self.order.append(k)
        e = self.d[k]
        e[4] += 1
        if not ok and e[0]:
            e[0] = False; e[1] = what; e[2] = where; e[3] = facts
        return ok

    def flush(self):
        for (rule, key) in self.order:
            ok, what, where, facts, n = self.d[(rule, key)]
            f = dict(facts or {})
            f['paths'] = n
            self.rep.ob(rule, key, ok, what, where=where, facts=f)
        self.d = {}
        self.order = []
