"""Exploration of preprocess.c:expand_macro shared by C09 (hide sets, guards) and C19 (separator flags)."""
from .interp import Obj, Sym, View, Cell, Term, Lin, VarPlace, _Ref
from .build import AnalysisBroken
from .lib_c09 import PInterp, strip_ids

U = 'preprocess.c'
EXPAND_ANCHORS = ('expand_macro', 'hideset_contains', 'find_macro', 'hideset_union', 'new_hideset', 'add_hideset',
                  'subst', 'append', 'hideset_intersection', 'read_macro_args', 'copy_token')
KNOWN_CALLS = {'append', 'add_hideset', 'subst', 'hideset_union', 'hideset_intersection', 'new_hideset',
               'read_macro_args', 'find_macro', 'hideset_contains', 'equal'}


class Desc:
    """provenance of values on one path: which call produced what"""

    def __init__(self, it, ctx):
        self.it = it
        self.ctx = ctx
        self.by_cell = {}
        self.by_obj = {}
        self.by_sym = {}
        for e in ctx.events:
            if e[0] == 'call' and len(e) >= 5:
                self._reg(e[4], e)
            elif e[0] == 'icallres':
                self._reg(e[1], e)

    def _reg(self, r, e):
        if isinstance(r, View):
            self.by_cell[id(r.cell)] = e
            for c in r.cell.cands:
                if isinstance(c, Obj):
                    self.by_obj[id(c)] = e
        elif isinstance(r, Obj):
            self.by_obj[id(r)] = e
        elif isinstance(r, Sym):
            self.by_sym[r.name] = e

    def producer(self, v):
        if isinstance(v, View) and id(v.cell) in self.by_cell and v.tag == 'id':
            return self.by_cell[id(v.cell)]
        if isinstance(v, Obj) and id(v) in self.by_obj:
            return self.by_obj[id(v)]
        if isinstance(v, Sym) and v.name in self.by_sym:
            return self.by_sym[v.name]
        return None

    def of(self, v, depth=0):
        if depth > 12:
            return ('leaf', '...')
        e = self.producer(v)
        if e is not None:
            if e[0] == 'icallres':
                return ('call', '<handler>', tuple(self.of(a, depth + 1) for a in e[2]))
            return ('call', e[1], tuple(self.of(a, depth + 1) for a in e[2]))
        if isinstance(v, View):
            if v.tag != 'id':
                return ('leaf', 'proj(%s:%s)' % (strip_ids(v.cell.label), v.tag))
            return ('leaf', strip_ids(v.cell.label))
        if isinstance(v, Obj):
            return ('leaf', strip_ids(v.label or '<%s>' % v.tname))
        if isinstance(v, Sym):
            return ('leaf', strip_ids(v.name))
        if isinstance(v, (int, str)):
            return ('const', v)
        if isinstance(v, _Ref):
            return ('leaf', '&var')
        return ('leaf', strip_ids(repr(v)))


def show(d):
    if d[0] == 'call':
        return '%s(%s)' % (d[1], ', '.join(show(a) for a in d[2]))
    return str(d[1])


def calls_in(d):
    out = []
    if d[0] == 'call':
        out.append(d[1])
        for a in d[2]:
            out += calls_in(a)
    return out


def explore_expand(P, u):
    """paths of expand_macro(rest, tok) with every helper opaque; returns (it, [(ctx, out, info)])"""
    for f in EXPAND_ANCHORS:
        if f not in u.functions:
            raise AnalysisBroken('anchor function %s vanished from %s' % (f, U))

    def cut_rma(it, ctx, n, args):
        if not args or not isinstance(args[0], _Ref):
            raise AnalysisBroken('read_macro_args is no longer called with the address of a token variable (line %d)' % n.line)
        r = Obj('Token', lazy=True, label='rparen')
        args[0].place.set(it, r)
        res = it.lazy_value('MacroArg *', 'args')
        ctx.emit('call', 'read_macro_args', args, n.line, res)
        return res

    class EI(PInterp):
        def e_CallExpr(self, n, env):
            if n.callee() is None:
                before = len(self.ctx.events)
                r = super().e_CallExpr(n, env)
                ev = [e for e in self.ctx.events[before:] if e[0] == 'icall']
                if ev:
                    # contract of the handlers (checked by R19.2 fresh-token obligations): the token comes straight
                    # from tokenize() of a fresh buffer, i.e. at_bol = true, has_space = false
                    if isinstance(r, View):
                        for c in r.cell.cands:
                            if isinstance(c, Obj):
                                c.fields['at_bol'] = 1; c.fields['has_space'] = 0; c.meta['fresh'] = True
                    self.ctx.emit('icallres', r, ev[-1][2], n.line, ev[-1][1])
                return r
            return super().e_CallExpr(n, env)

    it = EI(P, u, {'opaque': ['hideset_contains', 'find_macro', 'hideset_union', 'new_hideset', 'add_hideset', 'subst', 'append',
                              'hideset_intersection', 'equal', 'copy_token'],
                   'cut': {'read_macro_args': cut_rma}, 'loop_limit': 1, 'track_stores': True})
    def mk(ctx):
        box = {'rest': 0}
        ctx.box = box
        tok = Obj('Token', lazy=True, label='tok')
        ctx.tok = tok
        return [_Ref(VarPlace(box, 'rest')), tok]

    paths = it.explore('expand_macro', mk)
    out = []
    for ctx, o in paths:
        out.append((ctx, o, ctx.box['rest']))
    return it, out


# ------------------------------------------------------------------------ subst ---
SUBST_ANCHORS = ('subst', 'find_arg', 'stringize', 'paste', 'preprocess2', 'copy_token', 'read_macro_arg_one', 'has_varargs')


def explore_subst(P, u, loop_limit=2):
    """paths of subst(body, args) over abstract body tokens; each token has one spelling-class cell."""
    from .lib_c09 import (literals_compared, make_equal_model, make_find_arg_model, m_copy_token, copy_lazy_field, PARAM, OTHER)
    for f in SUBST_ANCHORS:
        if f not in u.functions:
            raise AnalysisBroken('anchor function %s vanished from %s' % (f, U))
    fn = u.fn('subst')
    classes = literals_compared(fn) + [PARAM, OTHER]

    def cut_rmao(it, ctx, n, args):
        if not args or not isinstance(args[0], _Ref):
            raise AnalysisBroken('read_macro_arg_one is no longer called with the address of a token variable (line %d)' % n.line)
        r = Obj('Token', lazy=True, label=ctx.fresh('after_arg'))
        args[0].place.set(it, r)
        res = Obj('MacroArg', lazy=True, label=ctx.fresh('optarg'))
        ctx.emit('call', 'read_macro_arg_one', args, n.line, res)
        return res

    def fresh_token(it, ctx, n, args, name):
        # stringize()/paste() return the first token of tokenize(new_file(..)): at_bol = true, has_space = false
        res = Obj('Token', lazy=True, label=ctx.fresh(name))
        res.fields['at_bol'] = 1
        res.fields['has_space'] = 0
        res.meta['fresh'] = True
        return res

    def cut_stringize(it, ctx, n, args):
        res = fresh_token(it, ctx, n, args, 'stringize')
        ctx.emit('call', 'stringize', args, n.line, res)
        return res

    def cut_paste(it, ctx, n, args):
        from .lib_c09 import as_obj
        res = fresh_token(it, ctx, n, args, 'paste')
        lhs = as_obj(it, args[0], n) if args else None
        if isinstance(lhs, Obj):
            res.meta['lhs'] = lhs
            res.meta['lhs_flags'] = {f: it.read_field(lhs, f) for f in ('at_bol', 'has_space')}
        ctx.emit('call', 'paste', args, n.line, res)
        return res

    it = PInterp(P, u, {'opaque': ['preprocess2', 'has_varargs', 'skip'],
                        'cut': {'read_macro_arg_one': cut_rmao, 'stringize': cut_stringize, 'paste': cut_paste},
                        'models': {'copy_token': m_copy_token, 'equal': make_equal_model(classes, False), 'find_arg': make_find_arg_model(classes)},
                        'loop_limit': loop_limit, 'track_stores': True, 'lazy_field': copy_lazy_field})

    def mk(ctx):
        body = Obj('Token', lazy=True, label='body')
        ctx.body = body
        return [body, Obj('MacroArg', lazy=True, label='args')]

    paths = it.explore('subst', mk, max_paths=200000)
    return it, paths, classes


MACROARG_SET_FIELDS = ('name', 'next', 'tok', 'is_va_args')


def explore_subst_shared(P, u, body_classes, loop_limit=2):
    """paths of subst(body, args) where EVERY parameter token of the body names the same parameter (one MacroArg object,
    as find_arg returns it for each occurrence of one name). Body tokens are restricted to `body_classes`. A MacroArg
    comes from calloc in read_macro_args/read_macro_arg_one: members other than MACROARG_SET_FIELDS start as zero."""
    from .lib_c09 import literals_compared, m_copy_token, copy_lazy_field, PARAM, OTHER, as_obj, tok_class_cell
    for f in SUBST_ANCHORS:
        if f not in u.functions:
            raise AnalysisBroken('anchor function %s vanished from %s' % (f, U))
    known = literals_compared(u.fn('subst')) + [PARAM, OTHER]
    body_classes = [c for c in body_classes if c in known]

    def cell_for(it, ctx, t):
        return tok_class_cell(it, ctx, t, body_classes)

    def m_equal(it, ctx, n, args):
        t = as_obj(it, args[0], n)
        s_ = args[1]
        if not isinstance(t, Obj) or not isinstance(s_, str):
            raise AnalysisBroken('equal() on a value the token model cannot follow at line %d' % n.line)
        return View(cell_for(it, ctx, t), lambda c, s_=s_: 1 if c == s_ else 0, 'is%r' % s_)

    def m_find_arg(it, ctx, n, args):
        t = as_obj(it, args[1], n)
        if not isinstance(t, Obj):
            raise AnalysisBroken('find_arg() on a value the token model cannot follow at line %d' % n.line)
        ma = getattr(ctx, 'shared_marg', None)
        if ma is None:
            ma = ctx.shared_marg = Obj('MacroArg', lazy=True, label='arg')
        r = View(cell_for(it, ctx, t), lambda c, ma=ma: ma if c == PARAM else 0, 'param')
        ctx.emit('call', 'find_arg', [args[0], t], n.line, r)
        return r

    def fresh(name):
        def cut(it, ctx, n, args):
            res = Obj('Token', lazy=True, label=ctx.fresh(name))
            res.fields['at_bol'] = 1
            res.fields['has_space'] = 0
            res.meta['fresh'] = True
            ctx.emit('call', name, args, n.line, res)
            return res
        return cut

    def cut_rmao(it, ctx, n, args):
        raise AnalysisBroken('read_macro_arg_one reached although no body token is __VA_OPT__')

    def hook(it, ctx, o, f, t):
        if o.tname == 'MacroArg' and f not in MACROARG_SET_FIELDS:
            return 0
        return copy_lazy_field(it, ctx, o, f, t)

    it = PInterp(P, u, {'opaque': ['preprocess2', 'has_varargs', 'skip'],
                        'cut': {'read_macro_arg_one': cut_rmao, 'stringize': fresh('stringize'), 'paste': fresh('paste')},
                        'models': {'copy_token': m_copy_token, 'equal': m_equal, 'find_arg': m_find_arg},
                        'loop_limit': loop_limit, 'track_stores': True, 'lazy_field': hook})

    def mk(ctx):
        body = Obj('Token', lazy=True, label='body')
        ctx.body = body
        return [body, Obj('MacroArg', lazy=True, label='args')]

    return it, it.explore('subst', mk, max_paths=50000)


class SubstPath:
    """object relations on one path of subst"""

    def __init__(self, it, ctx):
        self.it = it
        self.ctx = ctx
        self.calls = [e for e in ctx.events if e[0] == 'call']
        # body tokens (in order) and predecessor relation
        self.pred = {}
        self.body = []
        starts = [ctx.body] + [it.settle(e[4]) for e in self.calls if e[1] == 'skip']
        seen = set()
        for s in starts:
            v = s
            prev = None
            while isinstance(v, Obj) and id(v) not in seen:
                seen.add(id(v))
                self.body.append(v)
                if prev is not None:
                    self.pred[id(v)] = prev
                prev = v
                v = it.settle(v.fields.get('next', 0))
            if isinstance(v, Obj) and prev is not None and id(v) not in self.pred:
                self.pred[id(v)] = prev
        self.body_ids = set(id(b) for b in self.body)
        # raw argument tokens
        self.raw = {}       # id(obj) -> (param token, index)
        self.rawcell = {}   # id(cell of arg.tok view) -> param token
        for b in self.body:
            ma = b.meta.get('marg')
            if ma is None:
                continue
            tv = ma.fields.get('tok')
            if isinstance(tv, View):
                self.rawcell[id(tv.cell)] = b
            v = it.settle(tv) if tv is not None else 0
            k = 0
            while isinstance(v, Obj) and k < 8:
                self.raw[id(v)] = (b, k)
                v = it.settle(v.fields.get('next', 0))
                k += 1
        # expanded argument tokens
        self.exp = {}       # id(obj) -> (param token or None, index, call event)
        self.expcell = {}
        for e in self.calls:
            if e[1] != 'preprocess2':
                continue
            owner = self.owner(e[2][0])
            r = e[4]
            if isinstance(r, View):
                self.expcell[id(r.cell)] = (owner, e)
            v = it.settle(r)
            k = 0
            while isinstance(v, Obj) and k < 8:
                self.exp[id(v)] = (owner, k, e)
                v = it.settle(v.fields.get('next', 0))
                k += 1

    def owner(self, x):
        """parameter token whose raw argument list starts at x, else None"""
        if isinstance(x, View) and id(x.cell) in self.rawcell and x.tag == 'id':
            return self.rawcell[id(x.cell)]
        x = self.it.settle(x)
        if isinstance(x, Obj) and id(x) in self.raw and self.raw[id(x)][1] == 0:
            return self.raw[id(x)][0]
        return None

    def is_expanded(self, x):
        if isinstance(x, View) and id(x.cell) in self.expcell:
            return True
        x = self.it.settle(x)
        return isinstance(x, Obj) and id(x) in self.exp

    def cls(self, t):
        if t is None:
            return None
        c = t.meta.get('cls')
        return set(c.cands) if c is not None else None

    def next_of(self, t):
        v = self.it.settle(t.fields.get('next', 0)) if 'next' in t.fields else None
        return v if isinstance(v, Obj) else None

    def pred_of(self, t):
        return self.pred.get(id(t))

    def name(self, t):
        return strip_ids(t.label or '?') if t is not None else '-'
