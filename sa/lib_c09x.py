"""Exploration of preprocess.c:expand_macro shared by C09 (hide sets, guards) and C19 (separator flags)."""
from .interp import Obj, Sym, View, Cell, Term, Lin, VarPlace, _Ref
from .build import AnalysisBroken
from .lib_c09 import PInterp, strip_ids

U = 'preprocess.c'
EXPAND_ANCHORS = ('expand_macro', 'hideset_contains', 'find_macro', 'hideset_union', 'new_hideset', 'add_hideset',
                  'subst', 'append', 'hideset_intersection', 'read_macro_args', 'copy_token')
KNOWN_CALLS = {'append', 'add_hideset', 'subst', 'hideset_union', 'hideset_intersection', 'new_hideset',
               'read_macro_args', 'find_macro', 'hideset_contains', 'equal'}


class Desc:
    """provenance of values on one path: which call produced what"""

    def __init__(self, it, ctx):
        self.it = it
        self.ctx = ctx
        self.by_cell = {}
        self.by_obj = {}
        self.by_sym = {}
        for e in ctx.events:
            if e[0] == 'call' and len(e) >= 5:
                self._reg(e[4], e)
            elif e[0] == 'icallres':
                self._reg(e[1], e)

    def _reg(self, r, e):
        if isinstance(r, View):
            self.by_cell[id(r.cell)] = e
            for c in r.cell.cands:
                if isinstance(c, Obj):
                    self.by_obj[id(c)] = e
        elif isinstance(r, Obj):
            self.by_obj[id(r)] = e
        elif isinstance(r, Sym):
            self.by_sym[r.name] = e

    def producer(self, v):
        if isinstance(v, View) and id(v.cell) in self.by_cell and v.tag == 'id':
            return self.by_cell[id(v.cell)]
        if isinstance(v, Obj) and id(v) in self.by_obj:
            return self.by_obj[id(v)]
        if isinstance(v, Sym) and v.name in self.by_sym:
            return self.by_sym[v.name]
        return None

    def of(self, v, depth=0):
        if depth > 12:
            return ('leaf', '...')
        e = self.producer(v)
        if e is not None:
            if e[0] == 'icallres':
                return ('call', '<handler>', tuple(self.of(a, depth + 1) for a in e[2]))
            return ('call', e[1], tuple(self.of(a, depth + 1) for a in e[2]))
        if isinstance(v, View):
            if v.tag != 'id':
                return ('leaf', 'proj(%s:%s)' % (strip_ids(v.cell.label), v.tag))
            return ('leaf', strip_ids(v.cell.label))
        if isinstance(v, Obj):
            return ('leaf', strip_ids(v.label or '<%s>' % v.tname))
        if isinstance(v, Sym):
            return ('leaf', strip_ids(v.name))
        if isinstance(v, (int, str)):
            return ('const', v)
        if isinstance(v, _Ref):
            return ('leaf', '&var')
        return ('leaf', strip_ids(repr(v)))


def show(d):
    if d[0] == 'call':
        return '%s(%s)' % (d[1], ', '.join(show(a) for a in d[2]))
    return str(d[1])


def calls_in(d):
    out = []
    if d[0] == 'call':
        out.append(d[1])
        for a in d[2]:
            out += calls_in(a)
    return out


def list_passes(u, fname):
    """functions of the unit, other than the known helpers, that `fname` calls and that map one token list to a token list
    (`Token *g(Token *)`): kept opaque in the exploration of fname and judged on their own"""
    out = []
    seen = set()
    todo = [fname]
    while todo:
        f = todo.pop(0)
        if f in seen:
            continue
        seen.add(f)
        for c in u.fn(f).walk():
            g = c.callee() if c.kind == 'CallExpr' else None
            if g is None or g in out or g in EXPAND_ANCHORS or g in KNOWN_CALLS or g not in u.functions:
                continue
            ps = u.params(g)
            rt = (u.fn(g).type or '').split('(')[0].replace(' ', '')
            if len(ps) == 1 and (ps[0].type or '').replace(' ', '') == 'Token*' and rt == 'Token*':
                out.append(g)
            else:
                todo.append(g)      # a helper that the exploration follows inline (an extracted branch of fname): what it calls counts
    return out


def replacement_certainly_empty(it, u, ctx):
    """on this path of expand_macro the finished replacement (the list add_hideset returns) is known to be empty"""
    eof = u.enums.get('TK_EOF')
    for e in ctx.events:
        if e[0] == 'call' and e[1] == 'add_hideset' and len(e) > 4:
            b = it.settle(e[4])
            if isinstance(b, View):
                cs = [c for c in b.cell.cands if isinstance(c, Obj)]
                b = cs[0] if len(cs) == 1 else None
            if isinstance(b, Obj) and 'kind' in b.fields:
                k = it.settle(b.fields['kind'])
                if isinstance(k, int) and k == eof:
                    return True
    return False


EXPAND_OPAQUE = ['hideset_contains', 'find_macro', 'hideset_union', 'new_hideset', 'add_hideset', 'subst', 'append',
                 'hideset_intersection', 'equal', 'copy_token']


def expand_cut_names(u):
    """the callees the exploration of expand_macro does not look into"""
    return set(EXPAND_OPAQUE + list_passes(u, 'expand_macro') + ['read_macro_args'])


def explore_expand(P, u, with_empty=False):
    """paths of expand_macro(rest, tok) with every helper opaque; returns (it, [(ctx, out, info)]).
    with_empty=False: paths on which the replacement is known to be empty are left out (there is no first token of the
    replacement to speak about; R09.15 looks at them).
    The exploration itself is done once per Program (C09 runs the rules of C19 on it too)."""
    memo = _memo(P)
    if 'expand' not in memo:
        memo['expand'] = _explore_expand(P, u)
    it, allp = memo['expand']
    return it, [(ctx, o, rest) for ctx, o, rest in allp if with_empty or not replacement_certainly_empty(it, u, ctx)]


def _memo(P):
    m = getattr(P, '_c09x_memo', None)
    if m is None:
        m = {}
        try:
            P._c09x_memo = m
        except Exception:
            pass
    return m


def _explore_expand(P, u):
    for f in EXPAND_ANCHORS:
        if f not in u.functions:
            raise AnalysisBroken('anchor function %s vanished from %s' % (f, U))

    def cut_rma(it, ctx, n, args):
        if not args or not isinstance(args[0], _Ref):
            raise AnalysisBroken('read_macro_args is no longer called with the address of a token variable (line %d)' % n.line)
        r = Obj('Token', lazy=True, label='rparen')
        args[0].place.set(it, r)
        res = it.lazy_value('MacroArg *', 'args')
        ctx.emit('call', 'read_macro_args', args, n.line, res)
        return res

    summ = creator_summaries(P, u)
    # a dynamic-macro handler returns new_num_token(.., t) / new_str_token(.., t) (R19.2 handler-returns-fresh-token) where t is
    # the macro token or the end of its origin chain: a flag those creators copy from t is not attributable here
    hsumm = {}
    for f in FLAGS:
        per = [(c, summ[c][f] if summ[c][f][0] in ('fresh', 'const') else ('other', 'taken from the template token')) for c in ('new_num_token', 'new_str_token')]
        ds = set(d for c, d in per)
        hsumm[f] = ds.pop() if len(ds) == 1 else ('choice', tuple(per))      # which creator a handler uses is not known at the call

    class EI(PInterp):
        def e_CallExpr(self, n, env):
            if n.callee() is None:
                before = len(self.ctx.events)
                r = super().e_CallExpr(n, env)
                ev = [e for e in self.ctx.events[before:] if e[0] == 'icall']
                if ev:
                    # contract of the handlers (checked by R19.2 fresh-token obligations): the token comes straight
                    # from tokenize() of a fresh buffer, i.e. at_bol = true, has_space = false
                    if isinstance(r, View):
                        for c in r.cell.cands:
                            if isinstance(c, Obj):
                                apply_creator_flags(self, self.ctx, c, hsumm, [], 'handler')
                    self.ctx.emit('icallres', r, ev[-1][2], n.line, ev[-1][1])
                return r
            return super().e_CallExpr(n, env)

    it = EI(P, u, {'opaque': EXPAND_OPAQUE + list_passes(u, 'expand_macro'),
                   'cut': {'read_macro_args': cut_rma}, 'loop_limit': 2, 'track_stores': True})
    def mk(ctx):
        box = {'rest': 0}
        ctx.box = box
        tok = Obj('Token', lazy=True, label='tok')
        ctx.tok = tok
        return [_Ref(VarPlace(box, 'rest')), tok]

    paths = it.explore('expand_macro', mk, max_paths=2000)
    return it, [(ctx, o, ctx.box['rest']) for ctx, o in paths]


# ------------------------------------------------------------------------ subst ---
SUBST_ANCHORS = ('subst', 'find_arg', 'stringize', 'paste', 'preprocess2', 'copy_token', 'read_macro_arg_one', 'has_varargs')


SUBST_CUT = ('preprocess2', 'has_varargs', 'skip', 'read_macro_arg_one', 'stringize', 'paste', 'subst', 'copy_token', 'equal', 'find_arg')
PROBE_MAX_PATHS = 3000


def subst_probe(P, u):
    """subst on replacement lists WITHOUT any parameter or operator (0..2 ordinary tokens): (it, paths, hits) where hits are the
    calls (ctx, event) of functions that can reach expand_macro. With no parameter in the list nothing may be macro-expanded
    (C11 6.10.3.1p1): a hit is work subst does on the arguments whatever the replacement list uses - which also multiplies
    the paths of every parameter-driven exploration of subst, so those are not started then (require_quiet_subst)."""
    from .lib_c09 import OTHER
    from .lib_c09z import expanders
    memo = _memo(P)
    if 'probe' not in memo:
        try:
            it, paths, classes = _explore_subst(P, u, 2, [OTHER], PROBE_MAX_PATHS)
            R = expanders(u)
            hits = [(ctx, e) for ctx, out in paths for e in ctx.events if e[0] == 'call' and e[1] in R]
            memo['probe'] = (it, paths, hits, None)
        except AnalysisBroken as e:
            memo['probe'] = (None, [], [], str(e))
    return memo['probe']


def require_quiet_subst(P, u):
    it, paths, hits, broken = subst_probe(P, u)
    if broken:
        raise AnalysisBroken('subst on a replacement list without parameters could not be explored (%s): the parameter-driven explorations are not started' % broken)
    if hits:
        raise AnalysisBroken('subst calls %s for a replacement list that has no parameter at all (line %d): work on the arguments that does not depend on the '
                             'replacement list multiplies every path; the parameter-driven explorations are not started (R09.23 reports the call)' % (hits[0][1][1], hits[0][1][3]))


_LOOPS = ('WhileStmt', 'ForStmt', 'DoStmt')


class ListLoopInterp(PInterp):
    """loop_limit bounds the length of the abstract token list the explored function walks in its outermost loop(s).

    The shared engine counts an iteration against loop_limit only when the loop head itself decides the continuation
    condition. A function that has looked at its list before the loop (`if (tok->kind == TK_EOF) return tok;`, an
    assertion, a peeled first iteration) enters the loop with the condition decided already: that iteration would be free,
    the explored lists one token longer and the number of paths a multiple. Here every iteration of an outermost loop
    of the explored function whose continuation condition is a fact about abstract data (a view of a cell, not a
    constant of the program) is one element of the abstract list and counts - whether the path decided the fact at
    the loop head or before it. Nested loops (over argument lists) keep the engine's rule."""

    _extra = False

    def e_CallExpr(self, n, env):
        if self._extra and self.ctx.depth == 1:
            from .interp import Infeasible
            raise Infeasible('loop bound')
        return super().e_CallExpr(n, env)

    def exec_loop(self, s, _unused, cond, inc, body, env):
        from .interp import Infeasible, _Break, _Continue
        ctx = self.ctx
        if ctx.depth != 1 or any(a.kind in _LOOPS for a in s.ancestors()):
            return super().exec_loop(s, _unused, cond, inc, body, env)
        if cond is None:
            # `for (;;) { if (tok->kind == TK_EOF) break; ... }`: the exit test is somewhere in the body. After loop_limit
            # iterations one more is entered in which only the exit may be taken: the first call (classifying the next
            # token is a call: equal, find_arg) ends the path - the list would be longer than the bound.
            iters = 0
            self._extra = False
            try:
                while True:
                    iters += 1
                    if iters > self.loop_limit:
                        self._extra = True
                    try:
                        self.exec(body, env)
                    except _Break:
                        break
                    except _Continue:
                        pass
                    if self._extra:
                        raise Infeasible('loop bound')
                    if inc is not None:
                        self.eval(inc, env)
            finally:
                self._extra = False
            ctx.emit('loop_done', s.line, iters - 1)
            return
        generic = 0
        iters = 0
        while True:
            cv = self.eval(cond, env)
            c = self.truth(cv, cond)
            if not c:
                ctx.emit('loop_done', s.line, iters)
                break
            if not isinstance(cv, int):
                generic += 1
                if generic > self.loop_limit:
                    raise Infeasible('loop bound')
            iters += 1
            if iters > 20000:
                raise AnalysisBroken('concrete loop does not terminate at %s:%d' % (self.unit.name, s.line))
            try:
                self.exec(body, env)
            except _Break:
                break
            except _Continue:
                pass
            if inc is not None:
                self.eval(inc, env)


def explore_subst(P, u, loop_limit=2, only=None, max_paths=200000):
    """paths of subst(body, args) over abstract body tokens; each token has one spelling-class cell.
    only: restrict the spellings of replacement-list tokens to these classes (a sub-language of replacement lists).
    One exploration per Program and parameter set: the consumers only read the paths."""
    require_quiet_subst(P, u)
    memo = _memo(P)
    key = ('subst', loop_limit, tuple(only) if only else None, max_paths)
    if key not in memo:
        memo[key] = _explore_subst(P, u, loop_limit, only, max_paths)
    return memo[key]


def _explore_subst(P, u, loop_limit, only, max_paths):
    from .lib_c09 import (literals_compared, make_equal_model, make_find_arg_model, m_copy_token, copy_lazy_field, PARAM, OTHER)
    for f in SUBST_ANCHORS:
        if f not in u.functions:
            raise AnalysisBroken('anchor function %s vanished from %s' % (f, U))
    fn = u.fn('subst')
    classes = literals_compared(fn) + [PARAM, OTHER]

    def cut_rmao(it, ctx, n, args):
        if not args or not isinstance(args[0], _Ref):
            raise AnalysisBroken('read_macro_arg_one is no longer called with the address of a token variable (line %d)' % n.line)
        r = Obj('Token', lazy=True, label=ctx.fresh('after_arg'))
        args[0].place.set(it, r)
        res = Obj('MacroArg', lazy=True, label=ctx.fresh('optarg'))
        ctx.emit('call', 'read_macro_arg_one', args, n.line, res)
        return res

    summ = creator_summaries(P, u)
    cell = [c for c in classes if c in only] if only else None

    def fresh_token(it, ctx, n, args, name):
        # stringize()/paste() return the first token of tokenize(new_file(..)): at_bol = true, has_space = false,
        # unless the creator itself writes the flags afterwards (creator_flags)
        res = Obj('Token', lazy=True, label=ctx.fresh(name))
        apply_creator_flags(it, ctx, res, summ[name], args, name)
        return res

    def cut_stringize(it, ctx, n, args):
        res = fresh_token(it, ctx, n, args, 'stringize')
        ctx.emit('call', 'stringize', args, n.line, res)
        return res

    def cut_paste(it, ctx, n, args):
        from .lib_c09 import as_obj
        res = fresh_token(it, ctx, n, args, 'paste')
        lhs = as_obj(it, args[0], n) if args else None
        if isinstance(lhs, Obj):
            res.meta['lhs'] = lhs
            res.meta['lhs_flags'] = {f: it.read_field(lhs, f) for f in ('at_bol', 'has_space')}
            res.meta['lhs_copy_of'] = lhs.meta.get('copy_of')      # (a struct assignment `*cur = *paste(..)` replaces cur's meta)
            res.meta['lhs_meta'] = dict(lhs.meta)
        res.meta['paste_args'] = list(args)
        ctx.emit('call', 'paste', args, n.line, res)
        return res

    def cut_subst(it, ctx, n, args):
        # a nested application of subst (to the content of __VA_OPT__): by induction, the substituted list
        res = Obj('Token', lazy=True, label=ctx.fresh('substituted'))
        res.meta['subst_args'] = list(args)
        ctx.emit('call', 'subst', args, n.line, res)
        return res

    it = ListLoopInterp(P, u, {'opaque': ['preprocess2', 'has_varargs', 'skip'],
                        'cut': {'read_macro_arg_one': cut_rmao, 'stringize': cut_stringize, 'paste': cut_paste, 'subst': cut_subst},
                        'models': {'copy_token': m_copy_token, 'equal': make_equal_model(classes, False, cell), 'find_arg': make_find_arg_model(classes, cell)},
                        'loop_limit': loop_limit, 'track_stores': True, 'lazy_field': copy_lazy_field})

    def mk(ctx):
        body = Obj('Token', lazy=True, label='body')
        ctx.body = body
        return [body, Obj('MacroArg', lazy=True, label='args')]

    paths = it.explore('subst', mk, max_paths=max_paths)
    return it, paths, classes


MACROARG_SET_FIELDS = ('name', 'next', 'tok', 'is_va_args')


def explore_subst_shared(P, u, body_classes, loop_limit=2):
    """paths of subst(body, args) where EVERY parameter token of the body names the same parameter (one MacroArg object,
    as find_arg returns it for each occurrence of one name). Body tokens are restricted to `body_classes`. A MacroArg
    comes from calloc in read_macro_args/read_macro_arg_one: members other than MACROARG_SET_FIELDS start as zero."""
    from .lib_c09 import literals_compared, m_copy_token, copy_lazy_field, PARAM, OTHER, as_obj, tok_class_cell
    for f in SUBST_ANCHORS:
        if f not in u.functions:
            raise AnalysisBroken('anchor function %s vanished from %s' % (f, U))
    known = literals_compared(u.fn('subst')) + [PARAM, OTHER]
    body_classes = [c for c in body_classes if c in known]
    require_quiet_subst(P, u)

    def cell_for(it, ctx, t):
        return tok_class_cell(it, ctx, t, body_classes)

    def m_equal(it, ctx, n, args):
        t = as_obj(it, args[0], n)
        s_ = args[1]
        if not isinstance(t, Obj) or not isinstance(s_, str):
            raise AnalysisBroken('equal() on a value the token model cannot follow at line %d' % n.line)
        return View(cell_for(it, ctx, t), lambda c, s_=s_: 1 if c == s_ else 0, 'is%r' % s_)

    def m_find_arg(it, ctx, n, args):
        t = as_obj(it, args[1], n)
        if not isinstance(t, Obj):
            raise AnalysisBroken('find_arg() on a value the token model cannot follow at line %d' % n.line)
        ma = getattr(ctx, 'shared_marg', None)
        if ma is None:
            ma = ctx.shared_marg = Obj('MacroArg', lazy=True, label='arg')
        r = View(cell_for(it, ctx, t), lambda c, ma=ma: ma if c == PARAM else 0, 'param')
        ctx.emit('call', 'find_arg', [args[0], t], n.line, r)
        return r

    summ = creator_summaries(P, u)

    def fresh(name):
        def cut(it, ctx, n, args):
            res = Obj('Token', lazy=True, label=ctx.fresh(name))
            apply_creator_flags(it, ctx, res, summ[name], args, name)
            ctx.emit('call', name, args, n.line, res)
            return res
        return cut

    def cut_rmao(it, ctx, n, args):
        raise AnalysisBroken('read_macro_arg_one reached although no body token is __VA_OPT__')

    def hook(it, ctx, o, f, t):
        if o.tname == 'MacroArg' and f not in MACROARG_SET_FIELDS:
            return 0
        return copy_lazy_field(it, ctx, o, f, t)

    it = ListLoopInterp(P, u, {'opaque': ['preprocess2', 'has_varargs', 'skip'],
                        'cut': {'read_macro_arg_one': cut_rmao, 'stringize': fresh('stringize'), 'paste': fresh('paste')},
                        'models': {'copy_token': m_copy_token, 'equal': m_equal, 'find_arg': m_find_arg},
                        'loop_limit': loop_limit, 'track_stores': True, 'lazy_field': hook})

    def mk(ctx):
        body = Obj('Token', lazy=True, label='body')
        ctx.body = body
        return [body, Obj('MacroArg', lazy=True, label='args')]

    return it, it.explore('subst', mk, max_paths=50000)


class SubstPath:
    """object relations on one path of subst"""

    def __init__(self, it, ctx):
        self.it = it
        self.ctx = ctx
        self.calls = [e for e in ctx.events if e[0] == 'call']
        # body tokens (in order) and predecessor relation
        self.pred = {}
        self.body = []
        starts = [ctx.body] + [it.settle(e[4]) for e in self.calls if e[1] == 'skip']
        seen = set()
        for s in starts:
            v = s
            prev = None
            while isinstance(v, Obj) and id(v) not in seen:
                seen.add(id(v))
                self.body.append(v)
                if prev is not None:
                    self.pred[id(v)] = prev
                prev = v
                v = it.settle(v.fields.get('next', 0))
            if isinstance(v, Obj) and prev is not None and id(v) not in self.pred:
                self.pred[id(v)] = prev
        self.body_ids = set(id(b) for b in self.body)
        # raw argument tokens
        self.raw = {}       # id(obj) -> (param token, index)
        self.rawcell = {}   # id(cell of arg.tok view) -> param token
        for b in self.body:
            ma = b.meta.get('marg')
            if ma is None:
                continue
            tv = ma.fields.get('tok')
            if isinstance(tv, View):
                self.rawcell[id(tv.cell)] = b
            v = it.settle(tv) if tv is not None else 0
            k = 0
            while isinstance(v, Obj) and k < 8:
                self.raw[id(v)] = (b, k)
                v = it.settle(v.fields.get('next', 0))
                k += 1
        # expanded argument tokens
        self.exp = {}       # id(obj) -> (param token or None, index, call event)
        self.expcell = {}
        for e in self.calls:
            if e[1] != 'preprocess2':
                continue
            owner = self.owner(e[2][0])
            r = e[4]
            if isinstance(r, View):
                self.expcell[id(r.cell)] = (owner, e)
            v = it.settle(r)
            k = 0
            while isinstance(v, Obj) and k < 8:
                self.exp[id(v)] = (owner, k, e)
                v = it.settle(v.fields.get('next', 0))
                k += 1

    def owner(self, x):
        """parameter token whose raw argument list (or a token-by-token private copy of it) starts at x, else None"""
        if isinstance(x, View) and id(x.cell) in self.rawcell and x.tag == 'id':
            return self.rawcell[id(x.cell)]
        x = self.it.settle(x)
        k = 0
        while isinstance(x, Obj) and id(x) not in self.raw and x.meta.get('copy_of') is not None and k < 8:
            x = x.meta['copy_of']
            k += 1
        if isinstance(x, Obj) and id(x) in self.raw and self.raw[id(x)][1] == 0:
            return self.raw[id(x)][0]
        return None

    def is_shared_arg_list(self, x):
        """x IS (not: is a copy of) the token list stored in a MacroArg of the invocation"""
        if isinstance(x, View) and id(x.cell) in self.rawcell and x.tag == 'id':
            return True
        x = self.it.settle(x)
        return isinstance(x, Obj) and id(x) in self.raw

    def is_expanded(self, x):
        if isinstance(x, View) and id(x.cell) in self.expcell:
            return True
        x = self.it.settle(x)
        return isinstance(x, Obj) and id(x) in self.exp

    def cls(self, t):
        if t is None:
            return None
        c = t.meta.get('cls')
        return set(c.cands) if c is not None else None

    def next_of(self, t):
        v = self.it.settle(t.fields.get('next', 0)) if 'next' in t.fields else None
        return v if isinstance(v, Obj) else None

    def pred_of(self, t):
        return self.pred.get(id(t))

    def name(self, t):
        return strip_ids(t.label or '?') if t is not None else '-'


# ------------------------------------------------- flags of tokens made by creator functions ---
FLAGS = ('at_bol', 'has_space')
FRESH = {'at_bol': 1, 'has_space': 0}       # first token of tokenize() on a new buffer (R19.2 tokenize:buffer-starts-at-bol)
CREATOR_OPAQUE = ['tokenize', 'new_file', 'quote_string', 'join_tokens', 'stat', 'ctime_r']


def creator_flags(P, u, fname):
    """What `fname` (paste, stringize, new_str_token, new_num_token: functions that return the first token of a fresh
    tokenize() buffer) leaves in at_bol / has_space of the token it returns, decided over all returning paths with the
    callees it reaches interpreted (only tokenize/new_file/quote_string/join_tokens/format stay opaque):
        {flag: ('fresh',) | ('const', int) | ('arg', index, flag-of-that-token-argument) | ('other', text)}
    'fresh' = never written after tokenize(): the value tokenize gives the first token of a buffer."""
    from .lib_c09 import as_obj
    if fname not in u.functions:
        raise AnalysisBroken('anchor function %s vanished from %s' % (fname, U))
    params = u.params(fname)
    it = PInterp(P, u, {'opaque': [c for c in CREATOR_OPAQUE if c != fname], 'cut': {'format': None}, 'track_stores': True, 'loop_limit': 1})
    box = {}

    def mk(ctx):
        a = [Obj('Token', lazy=True, label=p.name or 'tok') if (p.type or '').replace(' ', '') == 'Token*' else Sym(p.name or 'a', p.type) for p in params]
        ctx.args_ = a
        return a
    res = {}
    n = 0
    for ctx, out in it.explore(fname, mk, max_paths=2000):
        if out[0] != 'ret':
            continue
        t = as_obj(it, out[1])
        if not isinstance(t, Obj):
            raise AnalysisBroken('%s returns something that is not a token object' % fname)
        n += 1
        for f in FLAGS:
            st = [e for e in ctx.events if e[0] == 'fstore' and e[1] is t and e[2] == f]
            if not st:
                d = ('fresh',)
            else:
                v = st[-1][4]
                c = it.settle(v)
                d = None
                if isinstance(c, int) and not isinstance(c, bool):
                    d = ('const', 1 if c else 0)
                elif isinstance(v, View) and v.tag == 'id':
                    for i, a in enumerate(ctx.args_):
                        if not isinstance(a, Obj):
                            continue
                        for f2 in FLAGS:
                            av = a.fields.get(f2)
                            if isinstance(av, View) and av.cell is v.cell and av.tag == 'id':
                                d = ('arg', i, f2)
                if d is None:
                    d = ('other', strip_ids(repr(v)))
            if f in res and res[f] != d:
                d = ('other', 'differs between paths: %s / %s' % (res[f], d))
            res[f] = d
    if n == 0:
        raise AnalysisBroken('%s has no returning path' % fname)
    return res


CREATORS = ('paste', 'stringize', 'new_str_token', 'new_num_token')


def creator_summaries(P, u):
    c = getattr(u, '_c19_creator_summaries', None)
    if c is None:
        c = {f: creator_flags(P, u, f) for f in CREATORS}
        try:
            u._c19_creator_summaries = c
        except Exception:
            pass
    return c


def describe_flag(fname, f, d, params=None):
    if d[0] == 'fresh':
        return 'left as tokenize() made it (%s)' % ('true' if FRESH[f] else 'false')
    if d[0] == 'const':
        return 'set to %s by %s' % ('true' if d[1] else 'false', fname)
    if d[0] == 'arg':
        return 'set by %s to %s of its token argument %d' % (fname, d[2], d[1])
    return 'set by %s to %s' % (fname, d[1])


def apply_creator_flags(it, ctx, res, summary, args, name):
    """give the result token of a cut creator call the flags the creator's summary says"""
    from .lib_c09 import as_obj
    fresh = True
    for f in FLAGS:
        d = summary.get(f, ('fresh',))
        if d[0] == 'fresh':
            res.fields[f] = FRESH[f]
            continue
        fresh = False
        if d[0] == 'const':
            res.fields[f] = d[1]
        elif d[0] == 'choice':
            res.fields[f] = Sym(ctx.fresh('%s.%s' % (name, f)), '_Bool')
            res.meta.setdefault('flag_choice', {})[f] = (res.fields[f], d[1])
        elif d[0] == 'arg' and d[1] < len(args) and isinstance(as_obj(it, args[d[1]]), Obj):
            res.fields[f] = it.read_field(as_obj(it, args[d[1]]), d[2])
        else:
            res.fields[f] = Sym(ctx.fresh('%s.%s' % (name, f)), '_Bool')
    res.meta['fresh'] = fresh
    res.meta['created'] = True
    res.meta['flag_summary'] = summary


# ------------------------------------------------------ white-space skipping arms of tokenize ---
def _explore_stmt(it, unit, stmt, make_env, max_paths=4000):
    """explore one statement in isolation: [(ctx, how)] with how in 'fall'|'continue'|'break'|'return'|('noreturn', fn)"""
    from .interp import NoReturn, Infeasible, NeedChoice, Ctx, _Continue, _Break, _Return
    out = []
    stack = [[]]
    while stack:
        dec = stack.pop()
        ctx = Ctx(dec)
        it.ctx = ctx
        it.unit = unit
        try:
            env = make_env(ctx)
            try:
                it.exec(stmt, env)
                how = 'fall'
            except _Continue:
                how = 'continue'
            except _Break:
                how = 'break'
            except _Return:
                how = 'return'
            ctx.env = env
            out.append((ctx, how))
        except NeedChoice as e:
            for a in range(e.n - 1, -1, -1):
                stack.append(dec + [a])
        except Infeasible:
            pass
        except NoReturn as e:
            out.append((ctx, ('noreturn', e.fn)))
        if len(out) + len(stack) > max_paths:
            raise AnalysisBroken('path explosion in a statement of tokenize (line %d)' % stmt.line)
    return out


def _assigns_var(stmt, var_id):
    for n in stmt.walk():
        if n.kind in ('BinaryOperator', 'CompoundAssignOperator') and n.opcode and n.opcode.endswith('=') and n.opcode not in ('==', '!=', '<=', '>='):
            l = n.inner[0].strip()
            if l.kind == 'DeclRefExpr' and l.ref_id == var_id:
                return True
    return False


def _arm_kind(ctx):
    """name of a skipping arm from what it tested (semantic literals only)"""
    for e in ctx.events:
        if e[0] == 'call' and e[1] == 'startswith' and len(e[2]) == 2 and isinstance(e[2][1], str):
            r = e[4]
            v = r.cell.cands if isinstance(r, View) else None
            if v == [1]:
                return {'//': 'line-comment', '/*': 'block-comment'}.get(e[2][1], 'skip(%s)' % e[2][1])
    for k, v in ctx.bounds.items():
        if v[0] == v[1] == 10:
            return 'newline'
    for e in ctx.events:
        if e[0] == 'call' and e[1] == 'isspace':
            return 'blank'
    if any('_ISspace' in repr(k) for k in ctx.facts):      # glibc: isspace() is a table lookup masked with _ISspace
        return 'blank'
    return 'skip'


SKIP_INITS = ((0, 0), (1, 0), (1, 1), (0, 1))
SKIP_KINDS = ('blank', 'newline', 'line-comment', 'block-comment')


def cut_new_token_flags(it_, ctx, n_, args):
    """new_token by contract (checked on new_token itself): records the tokenizer's two flags, then clears them"""
    g = ctx.globals
    snap = tuple(it_.settle(g.get(f)) if f in g else None for f in FLAGS)
    res = Obj('Token', lazy=True, label=ctx.fresh('token'))
    ctx.emit('call', 'new_token', args, n_.line, res, snap)
    g['at_bol'] = 0
    g['has_space'] = 0
    return res


def explore_skip_arms(P, u):
    """Every statement of tokenize()'s main loop that consumes input without creating a token, explored in isolation from
    each initial state of the file-scope flags (at_bol, has_space). Returns (arms, problems):
    arms = [{'kind', 'init', 'final': (at_bol, has_space), 'trail', 'line'}], problems = [(line, text)]."""
    for f in ('tokenize', 'new_token'):
        if f not in u.functions:
            raise AnalysisBroken('anchor %s vanished from tokenize.c' % f)
    for g in FLAGS:
        if g not in u.globals:
            raise AnalysisBroken('the tokenizer no longer keeps the flag %s in a file-scope variable' % g)
    fn = u.fn('tokenize')
    loops = [w for w in fn.walk() if w.kind == 'WhileStmt']
    locals_ = [d for d in fn.walk() if d.kind == 'VarDecl' and d.enclosing('WhileStmt') is None and d.enclosing('ForStmt') is None]
    # list cursor(s): locals of type Token * ; scan pointer: the char * local initialised from file->contents
    cur_decl = [d for d in locals_ if (d.type or '').replace(' ', '') == 'Token*']
    pvar = [d for d in locals_ if (d.type or '').replace(' ', '') == 'char*' and any(m.kind == 'MemberExpr' and m.name == 'contents' for m in d.walk())]
    if not loops or not cur_decl or len(pvar) != 1:
        raise AnalysisBroken('tokenize: main loop / list cursor / scan pointer not found')
    loop = loops[0]
    body = loop.inner[1]
    stmts = body.inner if body.kind == 'CompoundStmt' else [body]
    cur_ids, p_id = set(d.id for d in cur_decl), pvar[0].id
    it3 = PInterp(P, u, {'opaque': ['startswith', 'strstr', 'isspace', 'isdigit', 'isalnum', 'strchr', 'read_ident', 'read_punct'],
                         'cut': {'new_token': cut_new_token_flags}, 'loop_limit': 1})
    arms, problems = [], []
    for st in stmts:
        if any(_assigns_var(st, c) for c in cur_ids) or st.calls('new_token'):
            continue        # creates a token
        for init in SKIP_INITS:
            def mkenv(ctx, init=init):
                env = {}
                for d in locals_:
                    env[d.id] = Sym(d.name or 'local', d.type)
                env[p_id] = Sym('p', 'char *')
                ctx.globals['at_bol'] = init[0]
                ctx.globals['has_space'] = init[1]
                return env
            try:
                paths = _explore_stmt(it3, u, st, mkenv)
            except AnalysisBroken as e:
                problems.append((st.line, str(e)))
                continue
            for ctx, how in paths:
                if isinstance(how, tuple):
                    continue
                pv = ctx.env.get(p_id)
                moved = not (isinstance(pv, Sym) and pv.name == 'p')
                if not moved:
                    continue
                if how not in ('continue',):
                    continue
                arms.append({'kind': _arm_kind(ctx), 'init': init, 'line': st.line, 'trail': ctx.trail,
                             'final': (it3.settle(ctx.globals.get('at_bol')), it3.settle(ctx.globals.get('has_space')))})
    return arms, problems


def new_token_flag_facts(P, u):
    """per returning path of tokenize.c:new_token: {flag: (stored-into-the-token?, cleared-afterwards?, stored value, global after)}"""
    from .lib_c09 import as_obj
    if 'new_token' not in u.functions:
        raise AnalysisBroken('anchor new_token vanished from tokenize.c')
    it = PInterp(P, u, {'track_stores': True, 'globals': {'current_file': lambda ctx: Obj('File', lazy=True, label='current_file')}})
    out = []
    for ctx, o in it.explore('new_token', lambda ctx: [u.enums.get('TK_IDENT', 0), Sym('start', 'char *'), Sym('end', 'char *')]):
        if o[0] != 'ret':
            continue
        t = as_obj(it, o[1])
        d = {}
        for f in FLAGS:
            v = t.fields.get(f) if isinstance(t, Obj) else None
            g = it.settle(ctx.globals.get(f))
            d[f] = (isinstance(v, View) and v.tag == 'id' and v.cell.label == 'g:' + f, isinstance(g, int) and g == 0, v, g)
        out.append((ctx.trail, d))
    return out
