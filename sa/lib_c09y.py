"""Private helpers of the C09 rule module, round 4: which functions write into the token lists they are handed
(argument lists are shared between all occurrences of a parameter), and concrete evaluation of the tokenizer's
scanning arms."""
from .interp import NoReturn, Obj, Sym, View, Cell, Term, Arr, VarPlace, ElemPlace, _Ref
from .build import AnalysisBroken
from .lib_c09 import PInterp, OTHER, literals_compared, make_equal_model, as_obj

U = 'preprocess.c'


def _input_tokens(it, first):
    """objects of the list that was handed in: `first` and what its ORIGINAL next pointers lead to"""
    out = {}
    v = first
    k = 0
    while isinstance(v, Obj) and k < 8 and id(v) not in out:
        out[id(v)] = k
        v = v.meta.get('orig_next')
        k += 1
    return out


def stream_writes(P, u, fname, inline=('is_hash',)):
    """Fields of the tokens of its INPUT list that the token-stream function `fname` (preprocess2) writes on the path
    where tokens are neither macros nor directives (expand_macro answers false, the directive test fails): {field: line}.
    Callees other than the directive test end the path (they are not followed)."""
    it, paths = stream_paths(P, u, fname, inline)
    res = {}
    for ctx, out in paths:
        for e in ctx.events:
            if e[0] == 'fstore' and isinstance(e[1], Obj) and e[1].meta.get('input'):
                res.setdefault(e[2], None)
    return res


def stream_paths(P, u, fname, inline=('is_hash',)):
    """(it, returning paths) of `fname` on a stream of tokens that are neither macros nor directives; the tokens of the input
    list carry meta['input']; stores are tracked"""
    memo = getattr(P, '_c09y_stream', None)
    if memo is None:
        memo = {}
        try:
            P._c09y_stream = memo
        except Exception:
            pass
    key = (fname, tuple(inline))
    if key not in memo:
        memo[key] = _stream_paths(P, u, fname, inline)
    return memo[key]


def _stream_paths(P, u, fname, inline):
    if fname not in u.functions:
        raise AnalysisBroken('anchor %s vanished' % fname)
    callees = set(c.callee() for c in u.fn(fname).walk() if c.kind == 'CallExpr' and c.callee())
    inl = set(x for x in inline if x in u.functions)
    lits = literals_compared(u.fn(fname))
    for h in inl:
        callees |= set(c.callee() for c in u.fn(h).walk() if c.kind == 'CallExpr' and c.callee())
        lits += [x for x in literals_compared(u.fn(h)) if x not in lits]
    classes = lits + [OTHER]

    def foreign(name):
        def h(it_, ctx, n, args):
            raise NoReturn('<foreign:%s>' % name, args, n.line)
        return h

    def no_macro(it_, ctx, n, args):
        ctx.emit('call', 'expand_macro', args, n.line, 0)
        return 0
    cuts = {c: foreign(c) for c in callees - inl - {'equal', 'expand_macro', 'error', 'error_tok', 'error_at'}}
    cuts['expand_macro'] = no_macro

    def hook(it_, ctx, o, f, t):
        if o.tname == 'Token' and f == 'next' and 'orig_next' not in o.meta and o.meta.get('input'):
            nx = Obj('Token', lazy=True, label=(o.label or 'tok') + '.next')
            nx.meta['input'] = True
            o.meta['orig_next'] = nx
            return nx
        return NotImplemented
    it = PInterp(P, u, {'cut': cuts, 'models': {'equal': make_equal_model(classes, False)}, 'loop_limit': 2, 'track_stores': True, 'lazy_field': hook})

    def mk(ctx):
        ctx.tok = Obj('Token', lazy=True, label='tok')
        ctx.tok.meta['input'] = True
        return [ctx.tok]
    paths = [(ctx, out) for ctx, out in it.explore(fname, mk, max_paths=4000) if out[0] == 'ret']
    if not paths:
        raise AnalysisBroken('%s has no returning path on a stream without macros and directives' % fname)
    return it, paths


def token_param_writes(P, u, fname, opaque=('tokenize', 'new_file', 'quote_string', 'stat', 'ctime_r')):
    """{(parameter index, field)} of the Token* parameters' lists that `fname` (and the callees it reaches) writes"""
    if fname not in u.functions:
        raise AnalysisBroken('anchor %s vanished' % fname)
    params = u.params(fname)

    def hook(it_, ctx, o, f, t):
        if o.tname == 'Token' and f == 'next' and o.meta.get('input') is not None and 'orig_next' not in o.meta:
            if o.meta.get('depth', 0) >= 2:
                return 0
            nx = Obj('Token', lazy=True, label=(o.label or 'tok') + '.next')
            nx.meta['input'] = o.meta['input']
            nx.meta['depth'] = o.meta.get('depth', 0) + 1
            o.meta['orig_next'] = nx
            return nx
        return NotImplemented
    def interp(loop_limit):
        return PInterp(P, u, {'opaque': [c for c in opaque if c != fname], 'cut': {'format': None}, 'track_stores': True, 'loop_limit': loop_limit, 'lazy_field': hook,
                              'models': {'calloc': lambda it_, ctx, n, args: Sym(ctx.fresh('buf'), 'char *'), 'strncpy': lambda it_, ctx, n, args: args[0], 'memcpy': lambda it_, ctx, n, args: args[0]}})

    def mk(ctx):
        a = []
        for i, p in enumerate(params):
            if (p.type or '').replace(' ', '') == 'Token*':
                o = Obj('Token', lazy=True, label=p.name or 'tok')
                o.meta['input'] = i
                a.append(o)
            else:
                a.append(Sym(p.name or 'a', p.type))
        return a
    res = set()
    n = 0
    paths = None
    for ll, cap in ((3, 800), (1, 4000)):   # nested loops over the characters of every token: one generic round reaches the same store statements
        try:
            paths = interp(ll).explore(fname, mk, max_paths=cap)
            break
        except AnalysisBroken as e:
            if 'path explosion' not in str(e) or ll == 1:
                raise
    for ctx, out in paths:
        n += 1
        for e in ctx.events:
            if e[0] == 'fstore' and isinstance(e[1], Obj) and e[1].meta.get('input') is not None:
                res.add((e[1].meta['input'], e[2]))
    if n == 0:
        raise AnalysisBroken('%s has no path' % fname)
    return res


# ---------------------------------------------------------------- subst on a sub-language ---
def explore_subst_small(P, u, only, loop_limit=3, max_paths=20000):
    """paths of subst(body, args) where replacement-list tokens are restricted to the classes `only`, every parameter
    token has a MacroArg of its own whose token list is either empty or ONE token (followed by its EOF), and no argument
    is variadic: long enough replacement lists (loop_limit iterations of the main loop) stay affordable."""
    from .lib_c09 import m_copy_token, copy_lazy_field, PARAM, tok_class_cell
    from .lib_c09x import SUBST_ANCHORS, creator_summaries, apply_creator_flags
    for f in SUBST_ANCHORS:
        if f not in u.functions:
            raise AnalysisBroken('anchor function %s vanished from %s' % (f, U))
    known = literals_compared(u.fn('subst')) + [PARAM, OTHER]
    cell = [c for c in known if c in only]
    from .lib_c09x import require_quiet_subst
    require_quiet_subst(P, u)
    eof = u.enums.get('TK_EOF')
    if eof is None:
        raise AnalysisBroken('TK_EOF vanished')

    def m_find_arg(it, ctx, n, args):
        t = as_obj(it, args[1], n)
        if not isinstance(t, Obj):
            raise AnalysisBroken('find_arg() on a value the token model cannot follow at line %d' % n.line)
        c = tok_class_cell(it, ctx, t, cell)
        ma = t.meta.get('marg')
        if ma is None:
            ma = Obj('MacroArg', lazy=False, label='arg(%s)' % (t.label or 'tok'))
            first = Obj('Token', lazy=True, label='arg(%s).tok' % (t.label or 'tok'))
            first.meta['argfirst'] = True
            ma.fields = {'tok': first, 'is_va_args': 0, 'next': 0, 'name': Sym('name(%s)' % (t.label or 'tok'), 'char *')}
            ma.meta['param_tok'] = t
            t.meta['marg'] = ma
        r = View(c, lambda x, ma=ma: ma if x == PARAM else 0, 'param')
        ctx.emit('call', 'find_arg', [args[0], t], n.line, r)
        return r

    def hook(it, ctx, o, f, t):
        if o.tname == 'Token' and o.meta.get('argfirst') and f == 'next':
            e = Obj('Token', lazy=False, label=(o.label or 'tok') + '.eof', fields={'kind': eof, 'next': 0, 'len': 0, 'at_bol': 0, 'has_space': 0})
            return e
        return copy_lazy_field(it, ctx, o, f, t)
    summ = creator_summaries(P, u)

    def creator(name):
        def cut(it, ctx, n, args):
            res = Obj('Token', lazy=True, label=ctx.fresh(name))
            apply_creator_flags(it, ctx, res, summ[name], args, name)
            res.meta['made_by'] = (name, list(args), as_obj(it, args[0], n) if args else None)
            lhs = as_obj(it, args[0], n) if args else None
            if isinstance(lhs, Obj):
                res.meta['lhs_meta'] = dict(lhs.meta)
                res.meta['lhs_obj'] = lhs
            ctx.emit('call', name, args, n.line, res)
            return res
        return cut

    def cut_unexpected(name):
        def cut(it, ctx, n, args):
            raise AnalysisBroken('%s reached although no replacement-list token is __VA_OPT__' % name)
        return cut
    def cut_pp2(it, ctx, n, args):
        # the macro-expanded argument: again nothing or one token
        res = Obj('Token', lazy=True, label=ctx.fresh('expanded'))
        res.meta['argfirst'] = True
        ctx.emit('call', 'preprocess2', args, n.line, res)
        return res
    from .lib_c09x import ListLoopInterp
    it = ListLoopInterp(P, u, {'opaque': ['has_varargs', 'skip'],
                        'cut': {'read_macro_arg_one': cut_unexpected('read_macro_arg_one'), 'subst': cut_unexpected('subst'), 'stringize': creator('stringize'), 'paste': creator('paste'),
                                'preprocess2': cut_pp2},
                        'models': {'copy_token': m_copy_token, 'equal': make_equal_model(known, False, cell), 'find_arg': m_find_arg},
                        'loop_limit': loop_limit, 'track_stores': True, 'lazy_field': hook})

    def mk(ctx):
        body = Obj('Token', lazy=True, label='body')
        ctx.body = body
        return [body, Obj('MacroArg', lazy=True, label='args')]
    return it, it.explore('subst', mk, max_paths=max_paths)


# ------------------------------------------------------- a pass over a replacement list ---
def explore_list_pass(P, u, g, loop_limit=3, max_paths=20000):
    """paths of a `Token *g(Token *)` pass over an abstract replacement list whose tokens are '##' or something else;
    copy_token is modelled, paste() is cut (its result remembers its operands). Returns (it, paths, classes)."""
    from .lib_c09 import m_copy_token, copy_lazy_field
    from .lib_c09x import creator_summaries, apply_creator_flags
    if g not in u.functions:
        raise AnalysisBroken('anchor %s vanished' % g)
    lits = literals_compared(u.fn(g))
    classes = lits + [x for x in ('##',) if x not in lits] + [OTHER]
    summ = creator_summaries(P, u)

    def creator(name):
        def cut(it, ctx, n, args):
            res = Obj('Token', lazy=True, label=ctx.fresh(name))
            apply_creator_flags(it, ctx, res, summ[name], args, name)
            lhs = as_obj(it, args[0], n) if args else None
            res.meta['made_by'] = (name, list(args), lhs)
            ctx.emit('call', name, args, n.line, res)
            return res
        return cut
    it = PInterp(P, u, {'cut': {'paste': creator('paste'), 'stringize': creator('stringize')},
                        'models': {'copy_token': m_copy_token, 'equal': make_equal_model(classes, False)},
                        'loop_limit': loop_limit, 'track_stores': True, 'lazy_field': copy_lazy_field})

    def mk(ctx):
        ctx.body = Obj('Token', lazy=True, label='body')
        return [ctx.body]
    return it, it.explore(g, mk, max_paths=max_paths), classes


# ------------------------------------------------- concrete runs of the tokenizer's scanning arms ---
_CT = {'_ISupper': str.isupper, '_ISlower': str.islower, '_ISalpha': str.isalpha, '_ISdigit': str.isdigit,
       '_ISxdigit': lambda c: c in '0123456789abcdefABCDEF', '_ISspace': lambda c: c in ' \t\n\v\f\r',
       '_ISprint': lambda c: 32 <= ord(c) < 127, '_ISgraph': lambda c: 32 < ord(c) < 127, '_ISblank': lambda c: c in ' \t',
       '_IScntrl': lambda c: ord(c) < 32 or ord(c) == 127, '_ISpunct': lambda c: 32 < ord(c) < 127 and not c.isalnum(),
       '_ISalnum': str.isalnum}
_CT_NAMES = sorted(_CT)
_CT_FUN = {'isdigit': '_ISdigit', 'isalnum': '_ISalnum', 'isalpha': '_ISalpha', 'isspace': '_ISspace', 'isxdigit': '_ISxdigit',
           'isupper': '_ISupper', 'islower': '_ISlower', 'ispunct': '_ISpunct'}


def _ct_table():
    tab = [0] * 384
    for code in range(0, 128):
        ch = chr(code)
        m = 0
        for i, nm in enumerate(_CT_NAMES):
            if _CT[nm](ch):
                m |= 1 << i
        tab[128 + code] = m
    return Arr(tab, label='ctype')


class CInterp(PInterp):
    """PInterp with the C locale's <ctype.h> (glibc's table-lookup macros and the plain functions) on concrete characters"""

    def e_DeclRefExpr(self, n, env):
        if n.ref_kind == 'EnumConstantDecl' and n.ref_name in _CT and self.unit.enum_value(n.ref_name) is None:
            return 1 << _CT_NAMES.index(n.ref_name)
        return super().e_DeclRefExpr(n, env)


    def place(self, n, env):
        pl = super().place(n, env)
        if isinstance(pl, ElemPlace) and isinstance(pl.arr, str) and isinstance(pl.i, int) and pl.i < 0:
            # a text is modelled as its suffix from the scan pointer on: what stands before it is not known here
            raise AnalysisBroken('the scanner reads a character before its scan pointer (line %d)' % n.line)
        return pl

    def e_BinaryOperator(self, n, env):
        if n.opcode == '-' and all((x.dtype or x.type or '').strip().endswith('*') for x in n.inner):
            a, b = self.eval(n.inner[0], env), self.eval(n.inner[1], env)
            if isinstance(a, str) and isinstance(b, str) and b.endswith(a):
                return len(b) - len(a)          # a points len(b)-len(a) characters into the text b starts at
            if isinstance(a, str) and isinstance(b, str) and a.endswith(b):
                return -(len(a) - len(b))
            return Term('-', a, b)
        return super().e_BinaryOperator(n, env)


def _m_ctype_b_loc(it, ctx, n, args):
    box = getattr(it, '_ctbox', None)
    if box is None:
        box = it._ctbox = {'tab': _Ref(ElemPlace(_ct_table(), 128))}
    return _Ref(VarPlace(box, 'tab'))


def _m_ctype_fn(name):
    def m(it, ctx, n, args):
        c = it.settle(args[0])
        if not isinstance(c, int):
            raise AnalysisBroken('%s() of a character that is not concrete (line %d)' % (name, n.line))
        return 1 if 0 <= c < 128 and _CT[_CT_FUN[name]](chr(c)) else 0
    return m


def _m_strchr(it, ctx, n, args):
    s, c = args[0], it.settle(args[1])
    if not isinstance(s, str) or not isinstance(c, int):
        raise AnalysisBroken('strchr() on operands that are not concrete (line %d)' % n.line)
    if c == 0:
        return ''
    i = s.find(chr(c & 0xff))
    return s[i:] if i >= 0 else 0


def ctype_models():
    m = {'__ctype_b_loc': _m_ctype_b_loc, 'strchr': _m_strchr}
    for f in _CT_FUN:
        m[f] = _m_ctype_fn(f)
    return m


def first_tokens(P, tu, samples):
    """Run the body of tokenize()'s main loop once on each concrete text (flags at_bol/has_space clear): the first token it
    creates, {text: (TokenKind value, spelling) | None when the round makes no token}. Returns (results, line of the loop)."""
    from .lib_c09x import _explore_stmt
    if 'tokenize' not in tu.functions or 'new_token' not in tu.functions:
        raise AnalysisBroken('anchor tokenize/new_token vanished')
    fn = tu.fn('tokenize')
    loops = [w for w in fn.walk() if w.kind == 'WhileStmt']
    locals_ = [d for d in fn.walk() if d.kind == 'VarDecl' and d.enclosing('WhileStmt') is None and d.enclosing('ForStmt') is None]
    pvar = [d for d in locals_ if (d.type or '').replace(' ', '') == 'char*' and any(m.kind == 'MemberExpr' and m.name == 'contents' for m in d.walk())]
    if not loops or len(pvar) != 1:
        raise AnalysisBroken('tokenize: main loop / scan pointer not found')
    body = loops[0].inner[1]
    p_id = pvar[0].id

    def cut_new_token(it_, ctx, n_, args):
        res = Obj('Token', lazy=True, label=ctx.fresh('token'))
        ctx.emit('call', 'new_token', args, n_.line, res)
        return res
    it = CInterp(P, tu, {'cut': {'new_token': cut_new_token}, 'models': ctype_models(), 'loop_limit': 0, 'rec_limit': 8})
    out = {}
    for text in samples:
        def mkenv(ctx, text=text):
            env = {}
            for d in locals_:
                env[d.id] = Sym(d.name or 'local', d.type)
            env[p_id] = text
            ctx.globals['at_bol'] = 0
            ctx.globals['has_space'] = 0
            return env
        paths = _explore_stmt(it, tu, body, mkenv, max_paths=16)
        if len(paths) != 1:
            raise AnalysisBroken('one round of the tokenizer loop does not evaluate to one path on the concrete text %r (%d paths)' % (text, len(paths)))
        ctx, how = paths[0]
        nt = [e for e in ctx.events if e[0] == 'call' and e[1] == 'new_token']
        if not nt:
            out[text] = None
            continue
        a = nt[0][2]
        k = it.settle(a[0])
        if not isinstance(k, int) or not isinstance(a[1], str) or not isinstance(a[2], str) or not a[1].endswith(a[2]) or a[1] != text:
            raise AnalysisBroken('new_token operands not followed on %r: %r' % (text, a))
        out[text] = (k, a[1][:len(a[1]) - len(a[2])])
    return out, loops[0].line
