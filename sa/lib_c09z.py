"""C09: where macro expansion may be started from inside the invocation machinery (R09.23).

C11 6.10.3.1p1: an argument is completely macro replaced only where its parameter occurs in the replacement list NOT as an
operand of # or ##. In the code: the only place between recognising a macro name (expand_macro) and splicing the finished
replacement where the expander (preprocess2 / expand_macro) may be entered is subst(), for a plain occurrence of a
parameter. Everything the machinery calls besides subst - reading the arguments, looking them up, stringizing, pasting,
hide-set and list helpers, dynamic-macro handlers - must not be able to reach the expander at all (decided on the call
graph, whatever the paths), expand_macro itself hands the arguments to nothing that expands (decided on its paths), and
subst on a replacement list without any parameter expands nothing (decided on its paths).
"""
from .interp import Obj, View
from .build import AnalysisBroken

U = 'preprocess.c'
EXPANDER = 'expand_macro'       # the function that replaces one macro invocation
SUBST = 'subst'


def callgraph(u):
    """{f: [(g, line)]} direct calls between functions defined in the unit, {f: [(g, line)]} functions whose address f takes"""
    calls, taken = {}, {}
    for f, fn in u.functions.items():
        cs, ts = [], []
        callee_nodes = set()
        for n in fn.walk():
            if n.kind == 'CallExpr' and n.inner:
                c = n.inner[0].strip()
                callee_nodes.add(id(c))
                g = n.callee()
                if g is not None and g in u.functions:
                    cs.append((g, n.line))
        for n in fn.walk():
            if n.kind == 'DeclRefExpr' and n.ref_kind == 'FunctionDecl' and id(n) not in callee_nodes and n.ref_name in u.functions:
                ts.append((n.ref_name, n.line))
        calls[f] = cs
        taken[f] = ts
    return calls, taken


def reaching(calls, target):
    """functions from which `target` is reachable through direct calls (target included)"""
    rev = {}
    for f, cs in calls.items():
        for g, _ in cs:
            rev.setdefault(g, set()).add(f)
    out = set([target])
    todo = [target]
    while todo:
        g = todo.pop()
        for f in rev.get(g, ()):
            if f not in out:
                out.add(f)
                todo.append(f)
    return out


def chain_to(calls, start, R, stop):
    """a shortest call chain start -> ... -> (a member of stop), through members of R only"""
    seen = {start: None}
    todo = [start]
    while todo:
        f = todo.pop(0)
        if f in stop and f != start:
            out = []
            while f is not None:
                out.append(f)
                f = seen[f]
            return list(reversed(out))
        for g, _ in calls.get(f, ()):
            if g in R and g not in seen:
                seen[g] = f
                todo.append(g)
    return [start]


def expanders(u):
    """names of the unit's functions that can reach expand_macro (expand_macro included)"""
    if EXPANDER not in u.functions:
        raise AnalysisBroken('anchor %s vanished' % EXPANDER)
    calls, _ = callgraph(u)
    return reaching(calls, EXPANDER)


def opaque_expanders(u, root, cfg_names=()):
    """for an exploration rooted at `root`: the expander-reaching functions to keep opaque, so that a rule that looks at the
    argument grammar never interprets the whole preprocessor (those calls are judged by R09.23)"""
    return sorted(f for f in expanders(u) if f != root and f not in cfg_names)


def machinery_sites(u, expand_cut, subst_cut):
    """Walk the calls of expand_macro. Roles: 'E' = expand_macro and the helpers its exploration follows inline, 'S' = subst and
    the helpers its exploration follows inline, 'H' = a helper the explorations do not look into (cut / opaque / modelled).
    Returns (helpers, sites): helpers = {name: role of the caller} for every H-entry, sites = [(f, role, g, line)] for every
    call from an E/S function to a function that reaches expand_macro."""
    calls, taken = callgraph(u)
    R = reaching(calls, EXPANDER)
    helpers = {}
    sites = []
    seen = set()
    todo = [(EXPANDER, 'E')]
    while todo:
        f, role = todo.pop(0)
        if (f, role) in seen:
            continue
        seen.add((f, role))
        for g, line in calls.get(f, ()):
            if g == SUBST:
                sites.append((f, role, g, line))
                todo.append((SUBST, 'S'))
                continue
            cut = expand_cut if role == 'E' else subst_cut
            if g in (EXPANDER, 'preprocess2'):
                sites.append((f, role, g, line))
                continue
            if g in cut:
                helpers.setdefault(g, role)
                continue
            if g in R:
                sites.append((f, role, g, line))
            todo.append((g, role))       # followed inline by the exploration
        for g, line in taken.get(f, ()):
            helpers.setdefault(g, role)
    return helpers, sites, calls, taken, R


def handler_functions(u):
    """functions whose address is taken anywhere in the unit (the dynamic-macro handlers expand_macro calls through m->handler)"""
    calls, taken = callgraph(u)
    out = {}
    for f, ts in taken.items():
        for g, line in ts:
            out.setdefault(g, (f, line))
    return out


def reach_objects(it, v, limit=64):
    """ids of the objects reachable from value v through the fields materialised so far"""
    out = {}
    todo = [v]
    while todo and len(out) < limit:
        x = todo.pop()
        if isinstance(x, View):
            todo += [c for c in x.cell.cands if isinstance(c, Obj)]
            continue
        if not isinstance(x, Obj) or id(x) in out:
            continue
        out[id(x)] = x
        for fv in x.fields.values():
            if isinstance(fv, (Obj, View)):
                todo.append(fv)
    return out
