"""Private helpers of sa/rules/c10.py: an abstract token-list model for Engine I.

A *scenario* is a short list of abstract tokens with known spelling (`# d M x ...`)
handed to one of the preprocessor's scanners.  Everything the scanner does after it
has consumed the scenario is cut: the functions that re-synchronise the token
stream (skip_line, skip_cond_incl, eval_const_expr, ...) return *resync* tokens and
the first inspection of a resync token ends the path with the pseudo outcome
('noreturn', '@resume', [token]).  One path is therefore one transition of the
scanner's state machine on a generic occurrence of the directive, not a test run.
"""
from .interp import Interp, Obj, Sym, View, Cell, NoReturn, NeedChoice, Unsupported, _Ref
from .build import AnalysisBroken

RESUME = '@resume'


class Toks:
    """factory of abstract tokens for one unit"""

    def __init__(self, unit):
        self.u = unit
        E = unit.enums
        for k in ('TK_IDENT', 'TK_PUNCT', 'TK_EOF', 'TK_STR', 'TK_NUM', 'TK_PP_NUM'):
            if k not in E:
                raise AnalysisBroken('token kind %s vanished' % k)
        self.E = E
        if unit.records.get('Token') is None:
            raise AnalysisBroken('struct Token vanished')
        fields = [f for f, _, _ in unit.records['Token']]
        for f in ('kind', 'next', 'at_bol', 'loc', 'len'):
            if f not in fields:
                raise AnalysisBroken('Token.%s vanished' % f)

    def tok(self, label, text, kind, at_bol):
        o = Obj('Token', lazy=True, label=label)
        o.fields['kind'] = self.E[kind]
        o.fields['at_bol'] = 1 if at_bol else 0
        o.fields['origin'] = 0        # model tokens are source tokens, not results of macro replacement
        o.meta['text'] = text
        return o

    def chain(self, specs, tail=None):
        """specs: [(label, text, kind, at_bol)]; returns list of token objects linked by next.
        tail: value of the last token's next (default: lazy)"""
        ts = [self.tok(*s) for s in specs]
        for a, b in zip(ts, ts[1:]):
            a.fields['next'] = b
        if tail is not None and ts:
            ts[-1].fields['next'] = tail
        return ts

    def line(self, prefix, words, first_bol=True):
        """tokens of one source line; words = [(text, kind)]"""
        specs = []
        for i, (text, kind) in enumerate(words):
            specs.append(('%s%d:%s' % (prefix, i, text if text is not None else '?'), text, kind, first_bol and i == 0))
        return specs


class PPInterp(Interp):
    """Interp with one repair needed for `f(&tok, tok)` out-parameters: the shared engine evaluates
    `&v` to the pointee when the pointer variable v currently points to a struct object (it conflates
    `&struct_var` with `&pointer_var`).  Here `&v` of a pointer-typed lvalue is a reference to v."""

    def __init__(self, program, unit, cfg=None):
        Interp.__init__(self, program, unit, cfg)
        # the contents of the compiler's hash tables (macro table, include-guard memo, `#pragma once` table ...) are facts about the program being
        # compiled, not about the function under analysis: unless a rule says otherwise a lookup may find an entry or not.  (Left alone the
        # engine would run hashmap_get on the zero-initialised table and silently decide every rule for "no macro is defined".)
        for f in TABLE_LOOKUPS:
            if f not in self.cut and f not in self.models and f not in self.opaque_fns:
                self.cut[f] = h_table_lookup(f)
        # a function that turns a path into the key of a file (consults the file system: stat identity, realpath) is a contract cut: its result is
        # "the key of <argument>", the same value for the same argument on one path
        for f in file_key_functions(unit):
            if f not in self.cut and f not in self.models and f not in self.opaque_fns:
                self.cut[f] = h_file_key(f)

    def e_UnaryOperator(self, n, env):
        if n.opcode == '&':
            sub = n.inner[0]
            t = (sub.dtype or sub.type or '').strip()
            if t.endswith('*') and sub.strip().kind in ('DeclRefExpr', 'MemberExpr'):
                return _Ref(self.place(sub, env))
        return Interp.e_UnaryOperator(self, n, env)


TABLE_LOOKUPS = ('hashmap_get', 'hashmap_get2')
FILE_IDENTITY_CALLS = ('stat', 'lstat', 'fstat', 'realpath', 'canonicalize_file_name')


def file_key_functions(unit):
    """functions `char *f(char *path)` of the unit whose body asks the file system which file the path denotes (stat / realpath): canonicalisers of file names"""
    r = getattr(unit, '_c10_file_key_functions', None)
    if r is None:
        r = set()
        for name, fd in unit.functions.items():
            t = (fd.dtype or fd.type or '').replace(' ', '').replace('const', '')
            if not t.startswith('char*(char*)'):
                continue
            if any(True for _ in fd.calls(set(FILE_IDENTITY_CALLS))):
                r.add(name)
        try:
            unit._c10_file_key_functions = r
        except AttributeError:
            pass
    return r


def h_file_key(name):
    def h(it, ctx, n, args):
        a = args[0] if args else None
        if isinstance(a, View):
            a = it.settle(a)
        memo = getattr(ctx, 'filekeys', None)
        if memo is None:
            memo = ctx.filekeys = {}
        k = (name, id(a))
        if k not in memo:
            o = Obj(None, lazy=False, label='%s(%s)' % (name, getattr(a, 'label', None) or getattr(a, 'name', None) or a))
            o.meta['filekey'] = (name, a)
            memo[k] = o
        ctx.emit('call', name, args, n.line, memo[k], None)
        return memo[k]
    return h


def key_base(v):
    """(key function or None, the path value the key was computed from)"""
    if isinstance(v, Obj) and v.meta.get('filekey') is not None:
        return v.meta['filekey']
    return (None, v)


def h_table_lookup(name):
    """cut for a hash table lookup: an entry or NULL, one boolean per call; event ('call', name, args, line, result, table text)"""
    def h(it, ctx, n, args):
        a = n.args()
        table = a[0].src() if a else '?'
        o = Obj(None, lazy=True, label='entry(%s)' % table)
        o.meta['table'] = table
        v = View(Cell([0, o], ctx.fresh('%s(%s)' % (name, table)), names={0: 'NULL'}))
        ctx.emit('call', name, args, n.line, v, table)
        return v
    return h


def register_nested_enums(u):
    """workaround: sa/cast.py registers only top-level EnumDecls; `enum {IN_THEN,..} ctx;` is declared
    inside struct CondIncl.  Register enumerators of enums nested in records of this unit."""
    for n in list(u.by_id.values()):
        if n.kind == 'RecordDecl':
            for c in n.walk():
                if c.kind == 'EnumDecl' and c is not n:
                    if not all(e.name in u.enums for e in c.inner if e.kind == 'EnumConstantDecl'):
                        u._reg_enum(c)


def resync(ctx, producer, arg=None):
    n = getattr(ctx, 'n_resync', 0) + 1
    ctx.n_resync = n
    o = Obj('Token', lazy=True, label='resync:%s#%d' % (producer, n))
    o.meta['resync'] = producer
    o.meta['from'] = arg
    return o


def is_resync(v):
    return isinstance(v, Obj) and 'resync' in v.meta


def lazy_field_hook(it, ctx, o, f, t):
    if o.meta.get('resync') is not None:
        raise NoReturn(RESUME, [o], 0)
    if o.tname == 'Token' and f == 'next' and 'text' in o.meta:
        # running off the end of a scenario: an unknown rest of the stream
        r = resync(ctx, 'rest-of-stream', o)
        return r
    return NotImplemented


def m_equal(it, ctx, n, args):
    """equal(tok, "lit") on an abstract token: exact when the spelling is known"""
    t = args[0]
    if isinstance(t, View):
        t = it.deref_target(t, n)
    s = args[1]
    if is_resync(t):
        raise NoReturn(RESUME, [t], n.line)
    if isinstance(t, Obj) and t.meta.get('text') is not None and isinstance(s, str):
        r = 1 if t.meta['text'] == s else 0
        ctx.emit('equal', t, s, r, n.line)
        return r
    if isinstance(t, Obj) and t.meta.get('text') is not None and not isinstance(s, str):
        # comparison against a computed spelling (strndup of another token)
        src = spelled_from(s)
        if src is not None and src.meta.get('text') is not None:
            r = 1 if t.meta['text'] == src.meta['text'] else 0
            ctx.emit('equal', t, src, r, n.line)
            return r
    # unknown spelling: one boolean per (token, literal), mutually exclusive per token
    if isinstance(t, Obj):
        d = t.meta.setdefault('eq', {})
        key = s if isinstance(s, str) else repr(s)
        for k2, c2 in d.items():
            if k2 != key and c2.cands == [1]:
                return 0
        if key not in d:
            d[key] = Cell([0, 1], 'equal(%s,%r)' % (t.label, key))
        v = View(d[key])
        ctx.emit('equal', t, s, v, n.line)
        return v
    raise Unsupported('equal() on %r' % (t,))


def spelled_from(v):
    """token object a spelling value was copied from (strndup(tok->loc, tok->len)), else None"""
    if isinstance(v, Obj) and v.meta.get('spelling_of') is not None:
        return v.meta['spelling_of']
    return None


def m_strndup(it, ctx, n, args):
    """strndup(tok->loc, tok->len) -> a string object that remembers its token"""
    a = args[0]
    src = None
    if isinstance(a, Sym) and a.name.endswith('.loc'):
        src = getattr(ctx, 'loc_owner', {}).get(a.name)
    o = Obj(None, lazy=False, label='spelling(%s)' % (src.label if src is not None else a))
    o.meta['spelling_of'] = src
    o.meta['args'] = args
    return o


def track_loc(it, ctx, o, f, t):
    """lazy-field hook part: remember which token a .loc symbol belongs to"""
    if o.tname == 'Token' and f == 'loc' and o.meta.get('resync') is None:
        s = Sym((o.label or 'tok') + '.loc', t)
        d = getattr(ctx, 'loc_owner', None)
        if d is None:
            d = ctx.loc_owner = {}
        d[s.name] = o
        return s
    return NotImplemented


def hook(it, ctx, o, f, t):
    r = lazy_field_hook(it, ctx, o, f, t)
    if r is not NotImplemented:
        return r
    return track_loc(it, ctx, o, f, t)


def set_out(it, ref, v):
    """store through a `Token **rest` argument"""
    if isinstance(ref, _Ref):
        ref.place.set(it, v)
        return True
    return False


def cut_tok(producer, rest_arg=None, tok_arg=0, ret='tok'):
    """cut handler for a function Token *f(.., Token *tok, ..) or T f(Token **rest, Token *tok):
    records ('call', name, args, line, result) and returns / stores a resync token"""
    def h(it, ctx, n, args):
        r = resync(ctx, producer, args[tok_arg] if tok_arg is not None and tok_arg < len(args) else None)
        if rest_arg is not None and rest_arg < len(args):
            set_out(it, args[rest_arg], r)
        if ret == 'tok':
            res = r
        elif callable(ret):
            res = ret(it, ctx, n, args)
        else:
            res = ret
        ctx.emit('call', producer, args, n.line, res, r)
        return res
    return h


def settle(it, v):
    return it.settle(v) if isinstance(v, View) else v


def truth_in(it, ctx, v):
    """truth of value v on finished path ctx: True / False / None (not determined by the path)"""
    v = settle(it, v)
    if isinstance(v, View):
        rs = set()
        for c in v.cell.cands:
            p = v.proj(c)
            rs.add(truth_in(it, ctx, p))
        return rs.pop() if len(rs) == 1 else None
    if isinstance(v, bool):
        return bool(v)
    if isinstance(v, int):
        return v != 0
    if isinstance(v, (Obj, str)):
        return True
    saved = it.ctx
    it.ctx = ctx
    try:
        di, dec = ctx.di, ctx.decisions
        try:
            return bool(it.truth(v))
        except NeedChoice:
            return None
        finally:
            ctx.di, ctx.decisions = di, dec
    finally:
        it.ctx = saved


def calls(ctx, name=None):
    return [e for e in ctx.events if e[0] == 'call' and (name is None or e[1] == name or (isinstance(name, (set, tuple, list, frozenset)) and e[1] in name))]


def outcome(out):
    """('resume', tok) | ('ret', v) | ('error', fn, args)"""
    if out[0] == 'ret':
        return ('ret', out[1])
    if out[1] == RESUME:
        return ('resume', out[2][0])
    return ('error', out[1], out[2])


def string_lits_compared(fn, callee='equal'):
    """string literals passed as 2nd argument of equal() (directly) anywhere under fn"""
    out = set()
    for c in fn.calls(callee):
        a = c.args()
        if len(a) >= 2 and a[1].str_value() is not None:
            out.add(a[1].str_value())
    return out


# ------------------------------------------------------------ preprocess2 harness ---
def m_expand_macro(it, ctx, n, args):
    """expand_macro(&tok, tok): the first call (on the `#` of the scenario) answers false; a later call
    means the dispatcher went on to the next token: end of this transition"""
    k = getattr(ctx, 'n_expand', 0)
    ctx.n_expand = k + 1
    t = args[1] if len(args) > 1 else None
    if isinstance(t, View):
        t = it.settle(t)
    if k == 0 and isinstance(t, Obj) and t.meta.get('text') == '#':
        return 0
    raise NoReturn(RESUME, [t], n.line)


def h_eval_const_expr(it, ctx, n, args):
    r = resync(ctx, 'eval_const_expr', args[1] if len(args) > 1 else None)
    if args:
        set_out(it, args[0], r)
    cell = Cell([0, 5], ctx.fresh('value'), names={0: 'zero', 5: 'nonzero'})
    v = View(cell)
    ctx.emit('call', 'eval_const_expr', args, n.line, v, r)
    return v


def h_find_macro(it, ctx, n, args):
    cell = Cell([0, Obj('Macro', lazy=True, label='macro')], ctx.fresh('macro'), names={0: 'NULL'})
    v = View(cell)
    ctx.emit('call', 'find_macro', args, n.line, v, None)
    return v


def h_push_cond_incl(it, ctx, n, args):
    ctx.emit('call', 'push_cond_incl', args, n.line, None, None)
    uu, fn = it.find_def('push_cond_incl')
    if fn is None:
        raise AnalysisBroken('push_cond_incl vanished')
    return it.call_fn(uu, fn, args)


def h_read_include_filename(it, ctx, n, args):
    r = resync(ctx, 'read_include_filename', args[1] if len(args) > 1 else None)
    if args:
        set_out(it, args[0], r)
    if len(args) > 2 and isinstance(args[2], _Ref):
        cell = Cell([0, 1], ctx.fresh('is_dquote'))
        ctx.dquote = cell
        args[2].place.set(it, View(cell))
    v = Sym('filename', 'char *')
    ctx.emit('call', 'read_include_filename', args, n.line, v, r)
    return v


def g_cond_incl(unit):
    ctxvals = []
    for nm in ('IN_THEN', 'IN_ELIF', 'IN_ELSE'):
        if nm not in unit.enums:
            raise AnalysisBroken('enumerator %s of CondIncl.ctx vanished' % nm)
        ctxvals.append(unit.enums[nm])
    names = {unit.enums[nm]: nm for nm in ('IN_THEN', 'IN_ELIF', 'IN_ELSE')}

    def mk(ctx):
        o = Obj('CondIncl', lazy=True, label='top')
        below = Obj('CondIncl', lazy=True, label='below')
        o.fields['next'] = View(Cell([0, below], 'top.next', names={0: 'NULL'}))
        o.fields['included'] = View(Cell([0, 1], 'top.included'))
        o.fields['ctx'] = View(Cell(list(ctxvals), 'top.ctx', names=names))
        ctx.ci = o
        ctx.ci_init = {'included': o.fields['included'].cell, 'ctx': o.fields['ctx'].cell, 'next': o.fields['next']}
        cell = Cell([0, o], 'cond_incl', names={0: 'NULL'})
        ctx.ci_cell = cell
        return View(cell)
    return mk


def note_null_deref(it, n):
    """a member access through a pointer that may be NULL on this path: remember accesses through cond_incl"""
    base = n.inner[0].src() if n.inner else ''
    if n.kind == 'MemberExpr' and base == 'cond_incl':
        it.ctx.emit('nullderef', n.src(), n.line)


def pp2_config(unit):
    return {
        'on_null_deref': note_null_deref,
        'models': {'equal': m_equal, 'expand_macro': m_expand_macro, 'strndup': m_strndup},
        'cut': {'skip_line': cut_tok('skip_line'), 'skip_cond_incl': cut_tok('skip_cond_incl'),
                'eval_const_expr': h_eval_const_expr, 'find_macro': h_find_macro, 'push_cond_incl': h_push_cond_incl,
                'read_include_filename': h_read_include_filename,
                'include_file': cut_tok('include_file'),
                'read_macro_definition': cut_tok('read_macro_definition', rest_arg=0, tok_arg=1, ret=None),
                'read_line_marker': cut_tok('read_line_marker', rest_arg=0, tok_arg=1, ret=None),
                'search_include_paths': None, 'search_include_next': None, 'undef_macro': None,
                'hashmap_put': None, 'hashmap_put2': None, 'file_exists': None, 'dirname': None, 'strdup': None,
                'format': None, 'warn_tok': None},
        'lazy_field': hook, 'loop_limit': 4, 'track_stores': True,
        'globals': {'cond_incl': g_cond_incl(unit)},
    }


def mark_replaced(t):
    """make the model token t the result of macro replacement: expand_macro leaves the token of the macro name in `origin`"""
    t.fields['origin'] = Obj('Token', lazy=True, label='macro-name')
    t.meta['replaced'] = True
    return t


def directive_scenario(T, d, second=None, variant=None, kind='TK_IDENT'):
    """`# d M` / next line `x y` (or `# second z`).
    variant 'word': the line is `w d M` (no `#`); 'midline': the `#` does not begin a line; 'nextline': the `#` stands alone on its
    line (a null directive, C11 6.10.7) and `d M` is the next line; 'replaced': the `#` begins a line but is the result of macro
    replacement (`HASH d M` with `#define HASH #`; C11 6.10.3.4p3: never a directive)"""
    def mk(ctx):
        specs = T.line('a', [('#', 'TK_PUNCT'), (d, kind), ('M', 'TK_IDENT')])
        if variant == 'word':
            specs[0] = ('a0:w', 'w', 'TK_IDENT', True)
        elif variant == 'midline':
            specs[0] = ('a0:#', '#', 'TK_PUNCT', False)
        elif variant == 'nextline':
            specs[1] = (specs[1][0], specs[1][1], specs[1][2], True)
        if second:
            specs += T.line('b', [('#', 'TK_PUNCT'), (second, 'TK_IDENT'), ('z', 'TK_IDENT')])
            specs += T.line('c', [('x', 'TK_IDENT'), ('y', 'TK_IDENT')])
        else:
            specs += T.line('b', [('x', 'TK_IDENT'), ('y', 'TK_IDENT')])
        ts = T.chain(specs)
        if variant == 'replaced':
            mark_replaced(ts[0])
        ctx.toks = ts
        ctx.tokidx = {id(t): i for i, t in enumerate(ts)}
        return [ts[0]]
    return mk


def explore_directive(P, unit, T, d, fn='preprocess2', variant=None, kind='TK_IDENT'):
    it = PPInterp(P, unit, pp2_config(unit))
    res = it.explore(fn, directive_scenario(T, d, variant=variant, kind=kind), max_paths=400)
    return it, res


def idx_of(ctx, t):
    """index of a scenario token in ctx.toks, else None"""
    t = t if not isinstance(t, View) else None
    return ctx.tokidx.get(id(t)) if t is not None else None
